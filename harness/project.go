package main

import (
	"sort"

	"github.com/juev/hledger-lsp/internal/ast"
	"github.com/juev/hledger-lsp/internal/parser"
)

// ---- ProjectJournal: the parser's AST in the vocabulary of spec/Journal.tla (Abs*)

type pAmount struct {
	Coeff string `json:"coeff"` // decimal coefficient (arbitrary precision)
	Exp   int32  `json:"exp"`   // value = coeff * 10^exp
	Comm  string `json:"comm"`
	Side  string `json:"side"` // "L" | "R" | ""
	Raw   string `json:"raw"`
}

type pCost struct {
	Total  bool    `json:"total"`
	Amount pAmount `json:"amount"`
}

type pAssert struct {
	Strict bool    `json:"strict"`
	Amount pAmount `json:"amount"`
}

type pPosting struct {
	Line    int         `json:"line"`
	Status  string      `json:"status"`
	Kind    string      `json:"kind"`
	Account string      `json:"account"`
	Amount  []pAmount   `json:"amount"`
	Cost    []pCost     `json:"cost"`
	Assert  []pAssert   `json:"assert"`
	Comment string      `json:"comment"`
	Tags    [][2]string `json:"tags"`
}

type pEntry struct {
	Type     string      `json:"type"`
	Line     int         `json:"line"`
	EndLine  int         `json:"endLine"`
	Date     []int       `json:"date,omitempty"`
	Date2    []int       `json:"date2,omitempty"`
	Status   string      `json:"status,omitempty"`
	Code     string      `json:"code,omitempty"`
	Desc     string      `json:"desc,omitempty"`
	Payee    string      `json:"payee,omitempty"`
	Note     string      `json:"note,omitempty"`
	Comments []string    `json:"comments,omitempty"`
	Tags     [][2]string `json:"tags,omitempty"`
	Postings []pPosting  `json:"postings,omitempty"`
	Name     string      `json:"name,omitempty"`
	Comment  string      `json:"comment,omitempty"`
	Symbol   string      `json:"symbol,omitempty"`
	Format   string      `json:"format,omitempty"`
	Path     string      `json:"path,omitempty"`
	Year     int         `json:"year,omitempty"`
	Amount   []pAmount   `json:"amount,omitempty"`
	Text     string      `json:"text,omitempty"`
}

func statusStr(s ast.Status) string {
	switch s {
	case ast.StatusCleared:
		return "*"
	case ast.StatusPending:
		return "!"
	}
	return ""
}

func projAmount(a *ast.Amount) pAmount {
	side := ""
	if a.Commodity.Symbol != "" {
		if a.Commodity.Position == ast.CommodityLeft {
			side = "L"
		} else {
			side = "R"
		}
	}
	return pAmount{Coeff: a.Quantity.Coefficient().String(), Exp: a.Quantity.Exponent(), Comm: a.Commodity.Symbol, Side: side, Raw: a.RawQuantity}
}

func projTags(tags []ast.Tag) [][2]string {
	out := [][2]string{}
	for _, t := range tags {
		out = append(out, [2]string{t.Name, t.Value})
	}
	return out
}

func projDate(d ast.Date) []int { return []int{d.Year, d.Month, d.Day} }

func projectJournal(j *ast.Journal) []pEntry {
	var out []pEntry
	if j == nil {
		return out
	}
	for i := range j.Transactions {
		tx := &j.Transactions[i]
		e := pEntry{Type: "tx", Line: tx.Range.Start.Line, EndLine: tx.Range.End.Line, Date: projDate(tx.Date), Status: statusStr(tx.Status), Code: tx.Code,
			Desc: tx.Description, Payee: tx.Payee, Note: tx.Note, Comments: []string{}, Tags: projTags(tx.Tags), Postings: []pPosting{}}
		if tx.Date2 != nil {
			e.Date2 = projDate(*tx.Date2)
		}
		for _, c := range tx.Comments {
			e.Comments = append(e.Comments, c.Text)
			e.Tags = append(e.Tags, projTags(c.Tags)...)
		}
		for k := range tx.Postings {
			p := &tx.Postings[k]
			pp := pPosting{Line: p.Range.Start.Line, Status: statusStr(p.Status), Account: p.Account.Name, Comment: p.Comment, Tags: projTags(p.Tags),
				Amount: []pAmount{}, Cost: []pCost{}, Assert: []pAssert{}}
			switch p.Virtual {
			case ast.VirtualBalanced:
				pp.Kind = "bracket"
			case ast.VirtualUnbalanced:
				pp.Kind = "paren"
			default:
				pp.Kind = "real"
			}
			if p.Amount != nil {
				pp.Amount = append(pp.Amount, projAmount(p.Amount))
			}
			if p.Cost != nil {
				pp.Cost = append(pp.Cost, pCost{Total: p.Cost.IsTotal, Amount: projAmount(&p.Cost.Amount)})
			}
			if p.BalanceAssertion != nil {
				pp.Assert = append(pp.Assert, pAssert{Strict: p.BalanceAssertion.IsStrict, Amount: projAmount(&p.BalanceAssertion.Amount)})
			}
			e.Postings = append(e.Postings, pp)
		}
		out = append(out, e)
	}
	for _, d := range j.Directives {
		r := d.GetRange()
		switch v := d.(type) {
		case ast.AccountDirective:
			out = append(out, pEntry{Type: "account", Line: r.Start.Line, EndLine: r.End.Line, Name: v.Account.Name, Comment: v.Comment, Tags: projTags(v.Tags)})
		case ast.CommodityDirective:
			out = append(out, pEntry{Type: "commodity", Line: r.Start.Line, EndLine: r.End.Line, Symbol: v.Commodity.Symbol, Format: v.Format})
		case ast.PriceDirective:
			out = append(out, pEntry{Type: "P", Line: r.Start.Line, EndLine: r.End.Line, Date: projDate(v.Date), Symbol: v.Commodity.Symbol, Amount: []pAmount{projAmount(&v.Price)}})
		case ast.YearDirective:
			out = append(out, pEntry{Type: "Y", Line: r.Start.Line, EndLine: r.End.Line, Year: v.Year})
		case ast.DefaultCommodityDirective:
			out = append(out, pEntry{Type: "D", Line: r.Start.Line, EndLine: r.End.Line, Symbol: v.Symbol, Format: v.Format})
		default:
			out = append(out, pEntry{Type: "otherdirective", Line: r.Start.Line, EndLine: r.End.Line})
		}
	}
	for _, inc := range j.Includes {
		out = append(out, pEntry{Type: "include", Line: inc.Range.Start.Line, EndLine: inc.Range.End.Line, Path: inc.Path})
	}
	for _, c := range j.Comments {
		out = append(out, pEntry{Type: "comment", Line: c.Range.Start.Line, EndLine: c.Range.Start.Line, Text: c.Text, Tags: projTags(c.Tags)})
	}
	sort.SliceStable(out, func(a, b int) bool { return out[a].Line < out[b].Line })
	return out
}

type pErr struct {
	Line int    `json:"line"`
	Col  int    `json:"col"`
	Msg  string `json:"msg"`
}

func projErrs(errs []parser.ParseError) []pErr {
	out := []pErr{}
	for _, e := range errs {
		out = append(out, pErr{e.Pos.Line, e.Pos.Column, e.Message})
	}
	return out
}
