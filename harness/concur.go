package main

import (
	"context"
	"encoding/json"
	"fmt"
	"math/rand"
	"path/filepath"
	"regexp"
	"runtime"
	"sort"
	"strconv"
	"strings"
	"sync"
	"sync/atomic"
	"time"

	"go.lsp.dev/protocol"
)

// ---- concur: C14 — schedules of Concurrency.tla replayed with the verifhook yield points as gates;
// every answer is compared with the answer of a quiescent fresh server given the same documents.
// ---- stress: C14 — free-running client streams (no gates) for the race detector and for liveness.

type ccEvent struct {
	E   string `json:"e"` // change | advance | request
	URI string `json:"uri"`
	Ver int    `json:"ver"`
	To  string `json:"to"`
}

type ccCase struct {
	ID        string    `json:"id"`
	Schedule  []ccEvent `json:"schedule"`
	Workspace bool      `json:"workspace"`
}

type ccAnswer struct {
	Step   int               `json:"step"`
	URI    string            `json:"uri"`
	Vers   map[string]int    `json:"vers"`
	Got    map[string]string `json:"got"`
	Want   map[string]string `json:"want"`
	Differ []string          `json:"differ"`
}

type ccResult struct {
	ID      string     `json:"id"`
	Answers []ccAnswer `json:"answers"`
	Stuck   string     `json:"stuck,omitempty"`
}

var ccKinds = []string{"hover", "completion", "references", "definition", "documentSymbol", "semanticTokensFull", "foldingRange", "inlineCompletion", "formatting"}

func ccText(u string, v int) string {
	acct := "assets:bank"
	if u != "u1" {
		acct = "assets:cash"
	}
	// the last two lines are a header the user has just typed and the empty line below it: inline completion offers the
	// postings of the payee's earlier transaction there, which carry the version's amount
	// a commodity directive is in scope: the analysis runs its undeclared-commodity pass (which it skips when nothing is declared)
	// every version also brings its own payee (v<n>) and its own account (assets:v<n>, which matches the
	// fragment 'as' the completion request is made on): the name lists that completion offers depend on the version as well
	return fmt.Sprintf("2024-01-01 shop %s\n    %s  %d USD\n    expenses:food\n\n2024-01-02 v%d\n    %s  1 USD\n    assets:v%d\n\ncommodity USD\n\n2024-03-01 shop %s\n", u, acct, v, v, acct, v, u)
}

type ccJob struct {
	uri     string
	ver     int
	reached string      // the last yield point the replay has seen the job reach
	at      chan string // gate names in the order the job reaches them ("started", "loaded", "atPublish", "done")
	gates   map[string]chan struct{}
}

type ccCtl struct {
	mu      sync.Mutex
	byGid   map[int64]*ccJob
	arrived chan *ccJob
}

func newCcCtl() *ccCtl { return &ccCtl{byGid: map[int64]*ccJob{}, arrived: make(chan *ccJob, 64)} }

func (c *ccCtl) hook(point, key string, gid int64) {
	name := map[string]string{"pd.start": "started", "pd.loaded": "loaded", "pd.publish": "atPublish", "pd.done": "done"}[point]
	if name == "" {
		return
	}
	c.mu.Lock()
	j := c.byGid[gid]
	if j == nil && name == "started" {
		j = &ccJob{uri: key, at: make(chan string, 8), gates: map[string]chan struct{}{"started": make(chan struct{}), "loaded": make(chan struct{}), "atPublish": make(chan struct{})}}
		c.byGid[gid] = j
		c.mu.Unlock()
		c.arrived <- j
	} else {
		if name == "done" {
			delete(c.byGid, gid)
		}
		c.mu.Unlock()
	}
	if j == nil {
		return
	}
	j.at <- name
	if g, ok := j.gates[name]; ok {
		<-g
	}
}

func normDir(s, dir string) string { return strings.ReplaceAll(s, dir, "<DIR>") }

func init() {
	commands["concur"] = func(args []string) error {
		f := newFlags("concur")
		if err := f.fs.Parse(args); err != nil {
			return err
		}
		absWork, err := filepath.Abs(f.work)
		if err != nil {
			return err
		}
		f.work = absWork
		return runCases(f, func(idx int, raw json.RawMessage, dir string) (any, error) {
			var c ccCase
			if err := json.Unmarshal(raw, &c); err != nil {
				return nil, err
			}
			ctx := context.Background()
			names := map[string]string{"u1": "main.journal", "u2": "a.journal"}
			disk := map[string]string{"main.journal": ccText("u1", 1), "a.journal": ccText("u2", 1)}
			if c.Workspace {
				disk["main.journal"] = "include a.journal\n" + ccText("u1", 1)
			}
			text := func(u string, v int) string {
				t := ccText(u, v)
				if c.Workspace && u == "u1" {
					t = "include a.journal\n" + t
				}
				return t
			}
			line := func(u string) uint32 {
				if c.Workspace && u == "u1" {
					return 2
				}
				return 1
			}
			if err := writeFiles(dir, disk); err != nil {
				return nil, err
			}
			root := ""
			if c.Workspace {
				root = dir
			}
			mk := func(_ string) (*session, map[string]protocol.DocumentURI, error) {
				s, err := newSession(dir, root, nil, false)
				if err != nil {
					return nil, nil, err
				}
				us := map[string]protocol.DocumentURI{}
				for u, n := range names {
					us[u] = fileURI(filepath.Join(dir, n))
				}
				return s, us, nil
			}
			ask := func(s *session, u protocol.DocumentURI, ln uint32) map[string]string {
				out := map[string]string{}
				for _, k := range ccKinds {
					l, ch := ln, uint32(6)
					if k == "inlineCompletion" {
						if t, ok := s.srv.GetDocument(u); ok {
							l, ch = uint32(strings.Count(t, "\n")), 0 // the empty line after the header typed last
						}
					}
					r, err := callRequest(ctx, s.srv, k, u, l, ch)
					e := ""
					if err != nil {
						e = err.Error()
					}
					out[k] = normDir(mustJSON(r)+e, dir)
				}
				return out
			}

			res := ccResult{ID: c.ID, Answers: []ccAnswer{}}
			// ---- the server under test: documents open at version 1, quiescent; then the schedule with gates
			sut, uris, err := mk("sut")
			if err != nil {
				return nil, err
			}
			for u := range names {
				sut.watch(uris[u])
				if err := sut.open(uris[u], text(u, 1)); err != nil {
					return nil, err
				}
				sut.unwatch(uris[u])
			}
			ctl := newCcCtl()
			for u := range names {
				route(string(uris[u]), ctl.hook)
			}
			defer func() {
				for u := range names {
					route(string(uris[u]), nil)
				}
			}()
			vers := map[string]int{"u1": 1, "u2": 1}
			jobs := map[string]*ccJob{}
			key := func(u string, v int) string { return fmt.Sprintf("%s/%d", u, v) }
			wait := func(j *ccJob, want string) bool {
				select {
				case got := <-j.at:
					j.reached = got
					return got == want
				case <-time.After(30 * time.Second):
					return false
				}
			}
			for si, ev := range c.Schedule {
				switch ev.E {
				case "change":
					vers[ev.URI] = ev.Ver
					ch := protocol.TextDocumentContentChangeEvent{Range: protocol.Range{End: protocol.Position{Line: 10000000}}, Text: text(ev.URI, ev.Ver)}
					if err := sut.srv.DidChange(ctx, &protocol.DidChangeTextDocumentParams{
						TextDocument:   protocol.VersionedTextDocumentIdentifier{TextDocumentIdentifier: protocol.TextDocumentIdentifier{URI: uris[ev.URI]}, Version: int32(ev.Ver)},
						ContentChanges: []protocol.TextDocumentContentChangeEvent{ch}}); err != nil {
						return nil, err
					}
					select {
					case j := <-ctl.arrived:
						j.ver = ev.Ver
						jobs[key(ev.URI, ev.Ver)] = j
						if !wait(j, "started") {
							res.Stuck = fmt.Sprintf("step %d: the job of %s v%d did not reach its start", si, ev.URI, ev.Ver)
						}
					case <-time.After(30 * time.Second):
						res.Stuck = fmt.Sprintf("step %d: no background job started for %s v%d", si, ev.URI, ev.Ver)
					}
				case "advance":
					j := jobs[key(ev.URI, ev.Ver)]
					if j == nil {
						res.Stuck = fmt.Sprintf("step %d: unknown job %s v%d", si, ev.URI, ev.Ver)
						break
					}
					from := map[string]string{"loaded": "started", "atPublish": "loaded", "done": "atPublish"}[ev.To]
					close(j.gates[from])
					if !wait(j, ev.To) {
						res.Stuck = fmt.Sprintf("step %d: the job of %s v%d did not reach %s", si, ev.URI, ev.Ver, ev.To)
					}
				case "request":
					a := ccAnswer{Step: si, URI: ev.URI, Vers: map[string]int{"u1": vers["u1"], "u2": vers["u2"]}}
					a.Got = ask(sut, uris[ev.URI], line(ev.URI))
					res.Answers = append(res.Answers, a)
				}
				if res.Stuck != "" {
					break
				}
			}
			// let every parked job go
			for _, j := range jobs {
				for _, g := range []string{"started", "loaded", "atPublish"} {
					select {
					case <-j.gates[g]:
					default:
						close(j.gates[g])
					}
				}
			}
			// ... and wait until each has ended (liveness; also keeps stray hook calls out of the oracle's bookkeeping)
			for k, j := range jobs {
				if j.reached == "done" {
					continue
				}
				deadline := time.After(30 * time.Second)
			drain:
				for {
					select {
					case got := <-j.at:
						j.reached = got
						if got == "done" {
							break drain
						}
					case <-deadline:
						if res.Stuck == "" {
							res.Stuck = "the job " + k + " did not end after all gates were opened"
						}
						break drain
					}
				}
			}
			for u := range names {
				route(string(uris[u]), nil)
			}
			// ---- the oracle: for every request, a fresh quiescent server brought to the same documents
			for i := range res.Answers {
				a := &res.Answers[i]
				or, ouris, err := mk("oracle")
				if err != nil {
					return nil, err
				}
				for u := range names {
					or.watch(ouris[u])
					if err := or.open(ouris[u], text(u, 1)); err != nil {
						return nil, err
					}
					if a.Vers[u] > 1 {
						ch := protocol.TextDocumentContentChangeEvent{Range: protocol.Range{End: protocol.Position{Line: 10000000}}, Text: text(u, a.Vers[u])}
						if err := or.change(ouris[u], []protocol.TextDocumentContentChangeEvent{ch}, true); err != nil {
							return nil, err
						}
					}
				}
				a.Want = ask(or, ouris[a.URI], line(a.URI))
				for u := range names {
					or.unwatch(ouris[u])
				}
				for _, k := range ccKinds {
					if a.Got[k] != a.Want[k] {
						a.Differ = append(a.Differ, k)
					}
				}
			}
			return res, nil
		})
	}

	commands["stress"] = func(args []string) error {
		f := newFlags("stress")
		if err := f.fs.Parse(args); err != nil {
			return err
		}
		absWork, err := filepath.Abs(f.work)
		if err != nil {
			return err
		}
		f.work = absWork
		return runCases(f, func(idx int, raw json.RawMessage, dir string) (any, error) {
			var c strCase
			if err := json.Unmarshal(raw, &c); err != nil {
				return nil, err
			}
			return runStress(c, dir)
		})
	}
}

// blockedGoroutines summarises where the server's goroutines are waiting (for a deadlock report).
func blockedGoroutines() string {
	buf := make([]byte, 1<<20)
	n := runtime.Stack(buf, true)
	var out []string
	for _, g := range strings.Split(string(buf[:n]), "\n\n") {
		if !strings.Contains(g, "hledger-lsp/internal/server") {
			continue
		}
		lines := strings.Split(g, "\n")
		head := lines[0]
		var frames []string
		for _, l := range lines[1:] {
			if strings.Contains(l, "hledger-lsp/internal/") && !strings.HasPrefix(l, "\t") {
				f := strings.TrimPrefix(l, "github.com/juev/hledger-lsp/internal/")
				if i := strings.Index(f, "("); i > 0 && !strings.HasPrefix(f, "server.(") {
					f = f[:i]
				}
				frames = append(frames, strings.SplitN(f, "(0x", 2)[0])
				if len(frames) >= 3 {
					break
				}
			}
		}
		out = append(out, head+" "+strings.Join(frames, " <- "))
		if len(out) >= 6 {
			break
		}
	}
	return strings.Join(out, " || ")
}

// ---- stress

type strOp struct {
	Op   string `json:"op"` // change | config | request | save | close | open
	URI  string `json:"uri"`
	Kind string `json:"kind"`
	Arg  int    `json:"arg"`
}

type strCase struct {
	ID        string  `json:"id"`
	Workspace bool    `json:"workspace"`
	Ops       []strOp `json:"ops"`
	Seed      int64   `json:"seed"`
	// Quiet: the harness keeps out of the way of the race detector. A mutex or an atomic that both a background job and
	// the client stream touch ORDERS them in the detector's eyes and hides the unsynchronised accesses of the server
	// itself. In a quiet run nothing is traced, publications are dropped without a lock, and the only thing a job does
	// for the harness is WaitGroup.Done at its end (which orders it before the final Wait and before nothing else).
	Quiet bool `json:"quiet"`
	// Heavy: number of account directives in one more included file (0 = none)
	Heavy int `json:"heavy"`
	// Serial: no jitter, and every background job is awaited before the next message: the history is replayed as a
	// sequence, only the final state comparison is of interest (Lifecycle.tla).
	Serial bool `json:"serial"`
}

var strPayloads = []map[string]any{
	{"cli": map[string]any{"path": "hledger-a", "timeout": 1000}},
	{"cli": map[string]any{"path": "hledger-b", "timeout": 2000}},
	{"completion": map[string]any{"maxResults": 3}, "formatting": map[string]any{"indentSize": 2}},
	{"completion": map[string]any{"showCounts": false}, "limits": map[string]any{"maxIncludeDepth": 3}},
	{"features": map[string]any{"diagnostics": true}, "cli": map[string]any{"enabled": false}},
}

var stressStuck atomic.Int32

// stTracer records one event per specification action of spec/DiagTrace.tla, in one total order (a mutex-protected
// sequence, no wall clock): deliveries on the serial client path, the yield points of every background job, every
// publication the client receives.
type stTracer struct {
	mu     sync.Mutex
	events []map[string]any
}

func (t *stTracer) log(ev map[string]any) {
	t.mu.Lock()
	t.events = append(t.events, ev)
	t.mu.Unlock()
}

func runStress(c strCase, dir string) (any, error) {
	if stressStuck.Load() >= 3 {
		// enough deadlocked servers are already parked in this process; the verdict does not need more of them
		return map[string]any{"id": c.ID, "requests": 0, "stuck": "", "skipped": true}, nil
	}
	ctx := context.Background()
	names := map[string]string{"u1": "main.journal", "u2": "a.journal", "u3": "b.journal"}
	edInc := map[string]bool{"u2": true, "u3": true}
	text := func(u string, v int) string {
		// the first transaction is off by exactly v: a publication tells which version it was computed from
		// every version DECLARES its own account as well: what counts as declared depends on the version of every file
		t := ccText(u, v) + fmt.Sprintf("\n2024-04-01 marker\n    equity:marker  %d XVER\n    equity:zero  0 XVER\n\naccount assets:v%d\n", v, v)
		// how the OTHER documents are formatted depends on the root's version: the root declares the display format of a
		// commodity the included documents post in (a formatting request on them reads the workspace's format table)
		if u == "u1" {
			if v%2 == 0 {
				t += "commodity 1,000.00 FMT\n"
			} else {
				t += "commodity 1.000,00 FMT\n"
			}
		} else {
			t += "\n2024-05-01 fmt\n    assets:fmt  1234.5 FMT\n    equity:fmt  -1234.5 FMT\n"
		}
		if u == "u1" {
			// the include directives of the root as the editor holds them (Lifecycle.tla: inc); "link" / "unlink" edit them
			pre := ""
			for _, w := range []string{"u2", "u3"} {
				if edInc[w] {
					pre += "include " + names[w] + "\n"
				}
			}
			if c.Heavy > 0 {
				pre += "include heavy.journal\n"
			}
			t = pre + t
		}
		return t
	}
	disk := map[string]string{}
	if c.Heavy > 0 {
		// a member whose scan takes long: widens every window in which the workspace derives something from all directives
		var b strings.Builder
		for i := 0; i < c.Heavy; i++ {
			fmt.Fprintf(&b, "account heavy:a%d\n", i)
		}
		disk["heavy.journal"] = b.String()
	}
	for u, n := range names {
		disk[n] = text(u, 1)
	}
	tr := &stTracer{}
	uOf := map[string]string{}
	if err := writeFiles(dir, disk); err != nil {
		return nil, err
	}
	root := ""
	if c.Workspace {
		root = dir
	}
	client := newStubClient()
	client.quiet = c.Quiet
	var jobs sync.WaitGroup
	client.onPub = func(p *protocol.PublishDiagnosticsParams) {
		v := 0
		for _, d := range p.Diagnostics {
			if m := xverRe.FindStringSubmatch(d.Message); m != nil {
				v, _ = strconv.Atoi(m[1])
			}
		}
		tr.log(map[string]any{"e": "pub", "u": uOf[string(p.URI)], "v": v, "g": goid()})
	}
	rng := rand.New(rand.NewSource(c.Seed))
	sess, err := newSessionWith(client, dir, root, nil, true)
	if err != nil {
		return nil, err
	}
	uris := map[string]protocol.DocumentURI{}
	for u, n := range names {
		uris[u] = fileURI(filepath.Join(dir, n))
		uOf[string(uris[u])] = u
		uu := u
		if c.Quiet {
			route(string(uris[u]), func(point, key string, gid int64) {
				if point == "pd.done" {
					jobs.Done()
				}
			})
			continue
		}
		route(string(uris[u]), func(point, key string, gid int64) {
			tr.log(map[string]any{"e": "hook", "p": strings.TrimPrefix(point, "pd."), "u": uu, "g": gid})
			sess.ctl.hook(point, key, gid)
		})
	}
	defer func() {
		for _, u := range uris {
			sess.unwatch(u)
		}
	}()
	vers := map[string]int{}
	open := map[string]bool{}
	delivered := map[string]int{}
	for u := range names {
		vers[u] = 1
		open[u] = true
		if c.Quiet {
			jobs.Add(1)
		} else {
			tr.log(map[string]any{"e": "deliver", "u": u, "v": 1})
		}
		_ = sess.srv.DidOpen(ctx, &protocol.DidOpenTextDocumentParams{TextDocument: protocol.TextDocumentItem{URI: uris[u], Version: 1, Text: text(u, 1)}})
		delivered[u]++
		if c.Serial {
			sess.ctl.waitJobs(string(uris[u]), delivered[u], 60*time.Second)
		}
	}
	var opIndex, nreqA atomic.Int32
	_, hangs := timed(45*time.Second, func() {
		for i, op := range c.Ops {
			opIndex.Store(int32(i))
			if !c.Serial && rng.Intn(4) == 0 {
				time.Sleep(time.Duration(rng.Intn(300)) * time.Microsecond) // seeded jitter: vary which steps of the background jobs the next message meets
			}
			if op.Op == "link" || op.Op == "unlink" {
				// a change of the root document that adds / removes the directive `include <op.URI>`
				edInc[op.URI] = op.Op == "link"
				op = strOp{Op: "change", URI: "u1"}
			}
			u := uris[op.URI]
			switch op.Op {
			case "change":
				vers[op.URI]++
				if c.Quiet {
					if open[op.URI] {
						jobs.Add(1)
					}
				} else {
					tr.log(map[string]any{"e": "deliver", "u": op.URI, "v": vers[op.URI]})
				}
				ch := protocol.TextDocumentContentChangeEvent{Range: protocol.Range{End: protocol.Position{Line: 10000000}}, Text: text(op.URI, vers[op.URI])}
				_ = sess.srv.DidChange(ctx, &protocol.DidChangeTextDocumentParams{
					TextDocument:   protocol.VersionedTextDocumentIdentifier{TextDocumentIdentifier: protocol.TextDocumentIdentifier{URI: u}},
					ContentChanges: []protocol.TextDocumentContentChangeEvent{ch}})
				if open[op.URI] {
					delivered[op.URI]++
					if c.Serial {
						sess.ctl.waitJobs(string(u), delivered[op.URI], 60*time.Second)
					}
				}
			case "config":
				p := strPayloads[op.Arg%len(strPayloads)]
				client.mu.Lock()
				client.config = func() []interface{} { return []interface{}{p} }
				client.mu.Unlock()
				_ = sess.srv.DidChangeConfiguration(ctx, &protocol.DidChangeConfigurationParams{Settings: p})
			case "save":
				_ = writeFiles(dir, map[string]string{names[op.URI]: text(op.URI, vers[op.URI])})
				_ = sess.srv.DidSave(ctx, &protocol.DidSaveTextDocumentParams{TextDocument: protocol.TextDocumentIdentifier{URI: u}})
			case "close":
				if !c.Quiet {
					tr.log(map[string]any{"e": "close", "u": op.URI})
				}
				_ = sess.srv.DidClose(ctx, &protocol.DidCloseTextDocumentParams{TextDocument: protocol.TextDocumentIdentifier{URI: u}})
				open[op.URI] = false
			case "open":
				if c.Quiet {
					jobs.Add(1)
				} else {
					tr.log(map[string]any{"e": "open", "u": op.URI, "v": vers[op.URI]})
				}
				_ = sess.srv.DidOpen(ctx, &protocol.DidOpenTextDocumentParams{TextDocument: protocol.TextDocumentItem{URI: u, Version: 1, Text: text(op.URI, vers[op.URI])}})
				open[op.URI] = true
				delivered[op.URI]++
				if c.Serial {
					sess.ctl.waitJobs(string(u), delivered[op.URI], 60*time.Second)
				}
			case "request":
				nreqA.Add(1)
				if op.Kind == "executeCommand" {
					_, _ = sess.srv.ExecuteCommand(ctx, &protocol.ExecuteCommandParams{Command: "hledger.run", Arguments: []interface{}{"bal", string(u)}})
				} else {
					_, _ = callRequest(ctx, sess.srv, op.Kind, u, 1, 6)
				}
			}
		}
	})
	// liveness: no message of the serial stream may block for good ...
	nreq := int(nreqA.Load())
	if hangs != "" {
		stressStuck.Add(1)
		k := int(opIndex.Load())
		op := c.Ops[k]
		return map[string]any{"id": c.ID, "requests": nreq, "stuck": fmt.Sprintf("message %d of the stream (%s %s %s) did not return within 45 s: %s | %s",
			k, op.Op, op.URI, op.Kind, hangs, blockedGoroutines())}, nil
	}
	// ... and every background job the stream started must end
	stuck := ""
	if c.Quiet {
		if _, late := timed(60*time.Second, func() { jobs.Wait() }); late != "" {
			stuck = "background jobs did not finish within 60 s after the stream ended"
		}
	} else if !waitUntil(60*time.Second, func() bool {
		sess.ctl.mu.Lock()
		defer sess.ctl.mu.Unlock()
		tr.mu.Lock()
		defer tr.mu.Unlock()
		owed := map[string]int{}
		for _, ev := range tr.events {
			if ev["e"] == "deliver" || ev["e"] == "open" {
				owed[ev["u"].(string)]++
			}
		}
		for name, u := range uris {
			// one background job per delivery: all of them must have started and ended
			if sess.ctl.started[string(u)] < owed[name] || sess.ctl.done[string(u)] < sess.ctl.started[string(u)] {
				return false
			}
		}
		return true
	}) {
		stuck = "background jobs did not finish within 60 s after the stream ended"
	}
	if stuck == "" && !c.Quiet {
		tr.log(map[string]any{"e": "quiesce"})
	}
	tr.mu.Lock()
	events := tr.events
	tr.mu.Unlock()
	out := map[string]any{"id": c.ID, "requests": nreq, "stuck": stuck, "trace": events}
	if c.Serial {
		// a serial history is judged by its final state only: tens of thousands of recorded traces are not carried along
		delete(out, "trace")
	}
	if stuck != "" {
		return out, nil
	}
	// ---- the state the history has led to: files as saved last, open documents with their buffers, the configuration
	// after every payload.  Every answer of the server that lived through the history must be the answer of a fresh
	// server that is simply GIVEN that state (C14: "every response equals the response computed from the document state").
	var payloads []map[string]any
	for _, op := range c.Ops {
		if op.Op == "config" {
			payloads = append(payloads, strPayloads[op.Arg%len(strPayloads)])
		}
	}
	if !waitUntil(30*time.Second, func() bool {
		client.mu.Lock()
		defer client.mu.Unlock()
		return client.cfgDone >= 1+len(payloads)
	}) {
		out["stuck"] = "configuration refreshes did not finish within 30 s after the stream ended"
		return out, nil
	}
	// Which payload each refresh fetched is a matter of timing between the stub client and the refresh goroutines; the
	// comparison is made under one last payload that pins every setting the compared answers depend on.
	pin := map[string]any{"completion": map[string]any{"maxResults": 50, "fuzzyMatching": true, "showCounts": true},
		"formatting":  map[string]any{"indentSize": 4, "alignAmounts": true, "minAlignmentColumn": 0},
		"diagnostics": map[string]any{"undeclaredAccounts": true, "undeclaredCommodities": true, "unbalancedTransactions": true},
		"limits":      map[string]any{"maxIncludeDepth": 50, "maxFileSizeBytes": 10485760},
		"features": map[string]any{"hover": true, "completion": true, "formatting": true, "diagnostics": true, "semanticTokens": true,
			"foldingRanges": true, "documentLinks": true, "workspaceSymbol": true, "inlineCompletion": true}}
	applyPin := func(s *session, already int) bool {
		s.client.mu.Lock()
		s.client.config = func() []interface{} { return []interface{}{pin} }
		s.client.mu.Unlock()
		_ = s.srv.DidChangeConfiguration(ctx, &protocol.DidChangeConfigurationParams{Settings: pin})
		return waitUntil(30*time.Second, func() bool {
			s.client.mu.Lock()
			defer s.client.mu.Unlock()
			return s.client.cfgDone >= already+1
		})
	}
	if !applyPin(sess, 1+len(payloads)) {
		out["stuck"] = "the last configuration refresh did not finish within 30 s"
		return out, nil
	}
	lineOf := func(u string) uint32 {
		if u == "u1" {
			n := uint32(1)
			if c.Heavy > 0 {
				n++
			}
			for _, on := range edInc {
				if on {
					n++
				}
			}
			return n
		}
		return 1
	}
	askAll := func(s *session) map[string]string {
		res := map[string]string{}
		for _, u := range []string{"u1", "u2", "u3"} {
			if !open[u] {
				continue
			}
			for _, k := range ccKinds {
				l, ch := lineOf(u), uint32(6)
				if k == "inlineCompletion" {
					if t, ok := s.srv.GetDocument(uris[u]); ok {
						l, ch = uint32(strings.Count(t, "\n")), 0
					}
				}
				r, err := callRequest(ctx, s.srv, k, uris[u], l, ch)
				e := ""
				if err != nil {
					e = err.Error()
				}
				res[u+"/"+k] = mustJSON(r) + e
			}
		}
		return res
	}
	var got, want map[string]string
	_, hang2 := timed(60*time.Second, func() { got = askAll(sess) })
	if hang2 != "" {
		out["stuck"] = "requests after the stream did not return within 60 s: " + hang2
		return out, nil
	}
	// the same requests once more: nothing has changed in between, so nothing may answer differently (a request that
	// leaves something behind in the server shows here: the first round asked references, definition, ... in between)
	var again map[string]string
	_, hang3 := timed(60*time.Second, func() { again = askAll(sess) })
	if hang3 != "" {
		out["stuck"] = "repeated requests after the stream did not return within 60 s: " + hang3
		return out, nil
	}
	for _, u := range uris {
		sess.unwatch(u)
	}
	fresh, err := newSession(dir, root, nil, true)
	if err != nil {
		return nil, err
	}
	cfgWanted := 1
	waitCfg := func() bool {
		return waitUntil(30*time.Second, func() bool {
			fresh.client.mu.Lock()
			defer fresh.client.mu.Unlock()
			return fresh.client.cfgDone >= cfgWanted
		})
	}
	if !waitCfg() {
		return nil, fmt.Errorf("fresh server: configuration refresh after initialized did not finish")
	}
	if !applyPin(fresh, 1) {
		return nil, fmt.Errorf("fresh server: configuration refresh did not finish")
	}
	for _, u := range []string{"u1", "u2", "u3"} {
		if !open[u] {
			continue
		}
		fresh.watch(uris[u])
		if err := fresh.open(uris[u], text(u, vers[u])); err != nil {
			return nil, err
		}
	}
	want = askAll(fresh)
	if !c.Quiet {
		// the diagnostics the client holds for every open document (the diagnostic categories are never touched by the
		// payloads of the streams, so what was published during the stream is comparable with a fresh server's)
		for _, u := range []string{"u1", "u2", "u3"} {
			if !open[u] {
				continue
			}
			key := u + "/publishedDiagnostics"
			if last := client.lastFor(string(uris[u])); last != nil {
				got[key] = mustJSON(last.Diags)
			}
			if last := fresh.client.lastFor(string(uris[u])); last != nil {
				want[key] = mustJSON(last.Diags)
			}
		}
	}
	var stale []map[string]string
	for k, w := range want {
		if got[k] != w {
			stale = append(stale, map[string]string{"what": k, "got": got[k], "want": w})
		}
	}
	for k, g := range got {
		if a, ok := again[k]; ok && a != g {
			stale = append(stale, map[string]string{"what": k + "-repeated", "got": a, "want": g})
		}
	}
	sort.Slice(stale, func(i, j int) bool { return stale[i]["what"] < stale[j]["what"] })
	state := map[string]any{"open": open, "versions": vers, "inc": edInc}
	out["final"] = map[string]any{"asked": len(want), "stale": stale, "state": state}
	return out, nil
}

var xverRe = regexp.MustCompile(`XVER off by (\d+)`)
