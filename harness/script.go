package main

import (
	"context"
	"encoding/json"
	"fmt"
	"path/filepath"
	"strings"
	"time"
	"unicode/utf16"
	"unicode/utf8"

	"go.lsp.dev/protocol"
)

// ---- script: a generic client session.  Files on disk, optional workspace root, initialization
// options, then a list of client actions; every action reports what the server answered or
// published, as the JSON the wire would carry.  Expected values live in the specifications and
// are compared in checks/*.py.

type scOp struct {
	Op          string          `json:"op"` // open | change | save | close | write | config | req | sweep
	File        string          `json:"file"`
	Text        string          `json:"text"`
	Kind        string          `json:"kind"`
	Line        uint32          `json:"line"`
	Char        uint32          `json:"char"`
	NewName     string          `json:"newName"`
	Kinds       []string        `json:"kinds"`
	Positions   [][2]uint32     `json:"positions"` // sweep: explicit positions; empty = every position of every line
	PastEnd     bool            `json:"pastEnd"`   // sweep: also one position past each line end
	Settings    json.RawMessage `json:"settings"`
	Repeat      int             `json:"repeat"` // req: issue the request this many times; replies must be reported individually
	Query       string          `json:"query"`
	RangeStart  uint32          `json:"rangeStart"`
	RangeEnd    uint32          `json:"rangeEnd"`
	PrevID      string          `json:"prevId"`
	OnlyChanged bool            `json:"onlyChanged"`
}

type scCase struct {
	ID        string            `json:"id"`
	Files     map[string]string `json:"files"`
	Workspace bool              `json:"workspace"`
	Settings  json.RawMessage   `json:"settings"`
	Caps      bool              `json:"caps"`
	Ops       []scOp            `json:"ops"`
}

type scSweepItem struct {
	K string          `json:"k"`
	L uint32          `json:"l"`
	C uint32          `json:"c"`
	R json.RawMessage `json:"r"`
	E string          `json:"e,omitempty"`
}

type scStep struct {
	Op        string            `json:"op"`
	Published bool              `json:"published"`
	Diags     []pdDiag          `json:"diags,omitempty"`
	NPubs     int               `json:"npubs"`
	Reply     json.RawMessage   `json:"reply,omitempty"`
	Replies   []json.RawMessage `json:"replies,omitempty"`
	Err       string            `json:"err,omitempty"`
	Sweep     []scSweepItem     `json:"sweep,omitempty"`
	Text      string            `json:"text,omitempty"`
}

func rawJSON(v any) json.RawMessage {
	b, err := json.Marshal(v)
	if err != nil {
		b, _ = json.Marshal(map[string]string{"marshalError": err.Error()})
	}
	return b
}

// u16Cols returns the UTF-16 columns of a line that are valid cursor positions (not inside a surrogate pair),
// from 0 to the line's UTF-16 length inclusive.
func u16Cols(line string) []uint32 {
	cols := []uint32{0}
	var c uint32
	for _, r := range line {
		if r == utf8.RuneError {
			c++
		} else {
			c += uint32(len(utf16.Encode([]rune{r})))
		}
		cols = append(cols, c)
	}
	return cols
}

func docLines(text string) []string {
	ls := strings.Split(text, "\n")
	for i := range ls {
		ls[i] = strings.TrimSuffix(ls[i], "\r")
	}
	return ls
}

func scRequest(ctx context.Context, sess *session, op scOp, u protocol.DocumentURI, kind string, line, char uint32) (any, error) {
	td := protocol.TextDocumentIdentifier{URI: u}
	tdp := protocol.TextDocumentPositionParams{TextDocument: td, Position: protocol.Position{Line: line, Character: char}}
	switch kind {
	case "rename":
		nn := op.NewName
		if nn == "" {
			nn = "renamed:x"
		}
		return sess.srv.Rename(ctx, &protocol.RenameParams{TextDocumentPositionParams: tdp, NewName: nn})
	case "workspaceSymbol":
		return sess.srv.WorkspaceSymbol(ctx, &protocol.WorkspaceSymbolParams{Query: op.Query})
	case "semanticTokensRange":
		r, err := sess.srv.SemanticTokensRange(ctx, &protocol.SemanticTokensRangeParams{TextDocument: td,
			Range: protocol.Range{Start: protocol.Position{Line: op.RangeStart}, End: protocol.Position{Line: op.RangeEnd}}})
		if r != nil {
			return r.Data, err
		}
		return nil, err
	}
	return callRequest(ctx, sess.srv, kind, u, line, char)
}

func init() {
	commands["script"] = func(args []string) error {
		f := newFlags("script")
		if err := f.fs.Parse(args); err != nil {
			return err
		}
		absWork, err := filepath.Abs(f.work)
		if err != nil {
			return err
		}
		f.work = absWork
		return runCases(f, func(idx int, raw json.RawMessage, dir string) (any, error) {
			var c scCase
			if err := json.Unmarshal(raw, &c); err != nil {
				return nil, err
			}
			if err := writeFiles(dir, c.Files); err != nil {
				return nil, err
			}
			var opts any
			if len(c.Settings) > 0 {
				if err := json.Unmarshal(c.Settings, &opts); err != nil {
					return nil, err
				}
			}
			root := ""
			if c.Workspace {
				root = dir
			}
			ctx := context.Background()
			sess, err := newSession(dir, root, opts, c.Caps)
			if err != nil {
				return nil, err
			}
			cfgWanted := 0
			waitCfg := func() bool {
				return waitUntil(30*time.Second, func() bool {
					sess.client.mu.Lock()
					defer sess.client.mu.Unlock()
					return sess.client.cfgDone >= cfgWanted
				})
			}
			if c.Caps {
				cfgWanted = 1
				if !waitCfg() {
					return nil, fmt.Errorf("configuration refresh after initialized did not finish")
				}
			}
			out := struct {
				ID    string   `json:"id"`
				Dir   string   `json:"dir"`
				Steps []scStep `json:"steps"`
			}{ID: c.ID, Dir: dir}
			watched := map[string]protocol.DocumentURI{}
			isOpen := map[string]bool{}
			defer func() {
				for _, u := range watched {
					sess.unwatch(u)
				}
			}()
			uriOf := func(file string) protocol.DocumentURI {
				u := fileURI(filepath.Join(dir, filepath.FromSlash(file)))
				if _, ok := watched[file]; !ok {
					watched[file] = u
					sess.watch(u)
				}
				return u
			}
			pubState := func(st *scStep, u protocol.DocumentURI) {
				if last := sess.client.lastFor(string(u)); last != nil {
					st.Published = true
					st.Diags = projDiags(last.Diags)
				}
				n := 0
				for _, p := range sess.client.publications() {
					if p.URI == string(u) {
						n++
					}
				}
				st.NPubs = n
			}
			for _, op := range c.Ops {
				st := scStep{Op: op.Op}
				var u protocol.DocumentURI
				if op.File != "" {
					u = uriOf(op.File)
				}
				switch op.Op {
				case "open":
					if err := sess.open(u, op.Text); err != nil {
						return nil, err
					}
					isOpen[op.File] = true
					pubState(&st, u)
				case "change":
					ch := protocol.TextDocumentContentChangeEvent{Range: protocol.Range{End: protocol.Position{Line: 10000000}}, Text: op.Text}
					if err := sess.change(u, []protocol.TextDocumentContentChangeEvent{ch}, isOpen[op.File]); err != nil {
						return nil, err
					}
					pubState(&st, u)
				case "write":
					if err := writeFiles(dir, map[string]string{op.File: op.Text}); err != nil {
						return nil, err
					}
				case "pub":
					// what the client holds for the file now (the last publication), nothing is sent
					pubState(&st, u)
				case "save":
					if err := sess.srv.DidSave(ctx, &protocol.DidSaveTextDocumentParams{TextDocument: protocol.TextDocumentIdentifier{URI: u}}); err != nil {
						st.Err = err.Error()
					}
				case "close":
					if err := sess.srv.DidClose(ctx, &protocol.DidCloseTextDocumentParams{TextDocument: protocol.TextDocumentIdentifier{URI: u}}); err != nil {
						st.Err = err.Error()
					}
					isOpen[op.File] = false
				case "config":
					var payload any
					if err := json.Unmarshal(op.Settings, &payload); err != nil {
						return nil, err
					}
					if !c.Caps {
						return nil, fmt.Errorf("config op needs caps=true")
					}
					sess.client.mu.Lock()
					sess.client.config = func() []interface{} { return []interface{}{payload} }
					sess.client.mu.Unlock()
					if err := sess.srv.DidChangeConfiguration(ctx, &protocol.DidChangeConfigurationParams{Settings: payload}); err != nil {
						st.Err = err.Error()
					}
					cfgWanted++
					if !waitCfg() {
						return nil, fmt.Errorf("configuration refresh did not finish")
					}
				case "req":
					n := op.Repeat
					if n <= 1 {
						r, err := scRequest(ctx, sess, op, u, op.Kind, op.Line, op.Char)
						if err != nil {
							st.Err = err.Error()
						}
						st.Reply = rawJSON(r)
					} else {
						for i := 0; i < n; i++ {
							r, err := scRequest(ctx, sess, op, u, op.Kind, op.Line, op.Char)
							if err != nil {
								st.Err = err.Error()
							}
							st.Replies = append(st.Replies, rawJSON(r))
						}
					}
				case "text":
					t, _ := sess.srv.GetDocument(u)
					st.Text = t
				case "sweep":
					text, ok := sess.srv.GetDocument(u)
					if !ok {
						return nil, fmt.Errorf("sweep on a document that is not open: %s", op.File)
					}
					var positions [][2]uint32
					if len(op.Positions) > 0 {
						positions = op.Positions
					} else {
						for li, ln := range docLines(text) {
							cols := u16Cols(ln)
							for _, cc := range cols {
								positions = append(positions, [2]uint32{uint32(li), cc})
							}
							if op.PastEnd {
								positions = append(positions, [2]uint32{uint32(li), cols[len(cols)-1] + 1})
							}
						}
					}
					for _, kind := range op.Kinds {
						prev := ""
						for _, p := range positions {
							r, err := scRequest(ctx, sess, op, u, kind, p[0], p[1])
							it := scSweepItem{K: kind, L: p[0], C: p[1], R: rawJSON(r)}
							if err != nil {
								it.E = err.Error()
							}
							if op.OnlyChanged {
								key := string(it.R) + "|" + it.E
								if key == prev && (string(it.R) == "null" || string(it.R) == "[]") {
									continue // runs of empty answers are summarised by their first element
								}
								prev = key
							}
							st.Sweep = append(st.Sweep, it)
						}
					}
				default:
					return nil, fmt.Errorf("unknown op %q", op.Op)
				}
				out.Steps = append(out.Steps, st)
			}
			return out, nil
		})
	}
}
