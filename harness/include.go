package main

import (
	"encoding/json"
	"os"
	"path/filepath"
	"sort"
	"strings"

	"github.com/juev/hledger-lsp/internal/ast"
	"github.com/juev/hledger-lsp/internal/include"
)

// ---- Include: C10 (fresh loads of generated graphs) and C11 (histories on a shared loader)

type incOp struct {
	Op         string `json:"op"` // load | loadcontent | write | remove | clear | invalidate | reset
	File       string `json:"file"`
	Content    string `json:"content"`
	Invalidate bool   `json:"invalidate"`
}

type incCase struct {
	ID    string            `json:"id"`
	Files map[string]string `json:"files"`
	Depth int               `json:"depth"`
	Size  int64             `json:"size"`
	Ops   []incOp           `json:"ops"`
	Fresh bool              `json:"fresh"` // after every load also load with a fresh loader
}

type incErr struct {
	Line int    `json:"line"`
	Col  int    `json:"col"`
	Kind int    `json:"kind"`
	Path string `json:"path"`
	Msg  string `json:"msg"`
}

type incFile struct {
	Inc   []string `json:"inc"`
	Marks []string `json:"marks"`
}

type incProj struct {
	Nil     bool               `json:"nil"`
	Files   []string           `json:"files"`
	Order   []string           `json:"order"`
	Errs    []incErr           `json:"errs"`
	Content map[string]incFile `json:"content"`
	Primary incFile            `json:"primary"`
}

type incStep struct {
	Op     string   `json:"op"`
	Shared *incProj `json:"shared,omitempty"`
	Fresh  *incProj `json:"fresh,omitempty"`
}

func projJournalBrief(j *ast.Journal) incFile {
	var f incFile
	f.Inc = []string{}
	f.Marks = []string{}
	if j == nil {
		return f
	}
	for _, inc := range j.Includes {
		f.Inc = append(f.Inc, inc.Path)
	}
	for _, tx := range j.Transactions {
		f.Marks = append(f.Marks, tx.Description)
	}
	return f
}

func relTo(dir, p string) string {
	if r, err := filepath.Rel(dir, p); err == nil && !strings.HasPrefix(r, "..") {
		return filepath.ToSlash(r)
	}
	return p
}

func projectLoad(dir string, res *include.ResolvedJournal, errs []include.LoadError) *incProj {
	p := &incProj{Files: []string{}, Order: []string{}, Errs: []incErr{}, Content: map[string]incFile{}}
	if res == nil {
		p.Nil = true
	} else {
		for k, j := range res.Files {
			p.Files = append(p.Files, relTo(dir, k))
			p.Content[relTo(dir, k)] = projJournalBrief(j)
		}
		sort.Strings(p.Files)
		for _, k := range res.FileOrder {
			p.Order = append(p.Order, relTo(dir, k))
		}
		p.Primary = projJournalBrief(res.Primary)
	}
	for _, e := range errs {
		if e.Kind == include.ErrorParseError {
			continue
		}
		p.Errs = append(p.Errs, incErr{Line: e.Range.Start.Line, Col: e.Range.Start.Column, Kind: int(e.Kind), Path: relTo(dir, e.Path), Msg: strings.ReplaceAll(e.Message, dir, "")})
	}
	sort.Slice(p.Errs, func(i, j int) bool {
		a, b := p.Errs[i], p.Errs[j]
		if a.Line != b.Line {
			return a.Line < b.Line
		}
		if a.Kind != b.Kind {
			return a.Kind < b.Kind
		}
		return a.Path < b.Path
	})
	return p
}

func subst(s, dir, homerel string) string {
	s = strings.ReplaceAll(s, "@ROOT@", dir)
	s = strings.ReplaceAll(s, "@HOMEREL@", homerel)
	return s
}

func init() {
	commands["include"] = func(args []string) error {
		f := newFlags("include")
		if err := f.fs.Parse(args); err != nil {
			return err
		}
		absWork, err := filepath.Abs(f.work)
		if err != nil {
			return err
		}
		f.work = absWork
		os.Setenv("HOME", absWork)
		return runCases(f, func(idx int, raw json.RawMessage, dir string) (any, error) {
			var c incCase
			if err := json.Unmarshal(raw, &c); err != nil {
				return nil, err
			}
			homerel := filepath.Base(dir)
			files := map[string]string{}
			for k, v := range c.Files {
				files[k] = subst(v, dir, homerel)
			}
			if err := writeFiles(dir, files); err != nil {
				return nil, err
			}
			mk := func() *include.Loader {
				l := include.NewLoader()
				if c.Depth > 0 || c.Size > 0 {
					l.SetLimits(include.Limits{MaxIncludeDepth: c.Depth, MaxFileSizeBytes: c.Size})
				}
				return l
			}
			shared := mk()
			out := struct {
				ID    string    `json:"id"`
				Steps []incStep `json:"steps"`
			}{ID: c.ID}
			for _, op := range c.Ops {
				st := incStep{Op: op.Op}
				p := filepath.Join(dir, filepath.FromSlash(op.File))
				switch op.Op {
				case "load":
					r, e := shared.Load(p)
					st.Shared = projectLoad(dir, r, e)
					if c.Fresh {
						r2, e2 := mk().Load(p)
						st.Fresh = projectLoad(dir, r2, e2)
					}
				case "loadcontent":
					content := subst(op.Content, dir, homerel)
					r, e := shared.LoadFromContent(p, content)
					st.Shared = projectLoad(dir, r, e)
					if c.Fresh {
						r2, e2 := mk().LoadFromContent(p, content)
						st.Fresh = projectLoad(dir, r2, e2)
					}
				case "write":
					if err := writeFiles(dir, map[string]string{op.File: subst(op.Content, dir, homerel)}); err != nil {
						return nil, err
					}
					if op.Invalidate {
						shared.InvalidateFile(p)
					}
				case "remove":
					_ = os.Remove(p)
					if op.Invalidate {
						shared.InvalidateFile(p)
					}
				case "invalidate":
					shared.InvalidateFile(p)
				case "clear":
					shared.ClearCache()
				case "reset":
					shared = mk()
				}
				out.Steps = append(out.Steps, st)
			}
			return out, nil
		})
	}
}
