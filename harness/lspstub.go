package main

import (
	"bytes"
	"context"
	"runtime"
	"strconv"
	"sync"
	"time"

	"go.lsp.dev/protocol"

	"github.com/juev/hledger-lsp/internal/verifhook"
)

// ---- stub LSP client: records what the server sends; can answer workspace/configuration

type pubRec struct {
	Seq   int                   `json:"seq"`
	URI   string                `json:"uri"`
	Diags []protocol.Diagnostic `json:"diags"`
	raw   *protocol.PublishDiagnosticsParams
}

// cfgByGid maps the goroutine running refreshConfiguration to the stub it talks to, so that the
// key-less cfg.done hook can be attributed to the right server when cases run in parallel.
var cfgByGid sync.Map

type stubClient struct {
	cfgDone int
	mu      sync.Mutex
	pubs    []pubRec
	seq     int
	config  func() []interface{} // answer to workspace/configuration (nil => error)
	cfgReqs int
	onPub   func(p *protocol.PublishDiagnosticsParams) // called before the publication is recorded (may block)
	cond    *sync.Cond
	quiet   bool // publications are dropped without touching shared state (no lock: nothing that orders goroutines)
}

func newStubClient() *stubClient {
	c := &stubClient{}
	c.cond = sync.NewCond(&c.mu)
	return c
}

func (c *stubClient) Progress(context.Context, *protocol.ProgressParams) error { return nil }
func (c *stubClient) WorkDoneProgressCreate(context.Context, *protocol.WorkDoneProgressCreateParams) error {
	return nil
}
func (c *stubClient) LogMessage(context.Context, *protocol.LogMessageParams) error { return nil }
func (c *stubClient) PublishDiagnostics(_ context.Context, p *protocol.PublishDiagnosticsParams) error {
	if c.quiet {
		return nil
	}
	if c.onPub != nil {
		c.onPub(p)
	}
	c.mu.Lock()
	c.seq++
	c.pubs = append(c.pubs, pubRec{Seq: c.seq, URI: string(p.URI), Diags: append([]protocol.Diagnostic{}, p.Diagnostics...), raw: p})
	c.cond.Broadcast()
	c.mu.Unlock()
	return nil
}
func (c *stubClient) ShowMessage(context.Context, *protocol.ShowMessageParams) error { return nil }
func (c *stubClient) ShowMessageRequest(context.Context, *protocol.ShowMessageRequestParams) (*protocol.MessageActionItem, error) {
	return nil, nil
}
func (c *stubClient) Telemetry(context.Context, interface{}) error { return nil }
func (c *stubClient) RegisterCapability(context.Context, *protocol.RegistrationParams) error {
	return nil
}
func (c *stubClient) UnregisterCapability(context.Context, *protocol.UnregistrationParams) error {
	return nil
}
func (c *stubClient) ApplyEdit(context.Context, *protocol.ApplyWorkspaceEditParams) (bool, error) {
	return false, nil
}
func (c *stubClient) Configuration(context.Context, *protocol.ConfigurationParams) ([]interface{}, error) {
	cfgByGid.Store(goid(), c) // the cfg.done hook of this goroutine belongs to this client
	c.mu.Lock()
	c.cfgReqs++
	f := c.config
	c.mu.Unlock()
	if f == nil {
		return nil, context.Canceled
	}
	return f(), nil
}
func (c *stubClient) WorkspaceFolders(context.Context) ([]protocol.WorkspaceFolder, error) {
	return nil, nil
}

func (c *stubClient) publications() []pubRec {
	c.mu.Lock()
	defer c.mu.Unlock()
	return append([]pubRec{}, c.pubs...)
}

func (c *stubClient) lastFor(uri string) *pubRec {
	c.mu.Lock()
	defer c.mu.Unlock()
	for i := len(c.pubs) - 1; i >= 0; i-- {
		if c.pubs[i].URI == uri {
			r := c.pubs[i]
			return &r
		}
	}
	return nil
}

// ---- hook router: verifhook.Set is process-global, cases run in parallel, so hook
// calls are routed to the controller registered for the key (document URI / "" for cfg).

type hookFunc func(point, key string, gid int64)

var (
	routerMu   sync.RWMutex
	routes     = map[string]hookFunc{}
	routerOnce sync.Once
)

func goid() int64 {
	var buf [64]byte
	n := runtime.Stack(buf[:], false)
	b := buf[:n]
	b = bytes.TrimPrefix(b, []byte("goroutine "))
	i := bytes.IndexByte(b, ' ')
	if i < 0 {
		return -1
	}
	id, _ := strconv.ParseInt(string(b[:i]), 10, 64)
	return id
}

func installRouter() {
	routerOnce.Do(func() {
		verifhook.Set(func(point, key string) {
			if key == "" {
				if point == "cfg.done" {
					if c, ok := cfgByGid.LoadAndDelete(goid()); ok {
						sc := c.(*stubClient)
						sc.mu.Lock()
						sc.cfgDone++
						sc.mu.Unlock()
					}
				}
				return
			}
			routerMu.RLock()
			f := routes[key]
			routerMu.RUnlock()
			if f != nil {
				f(point, key, goid())
			}
		})
	})
}

func route(key string, f hookFunc) {
	installRouter()
	routerMu.Lock()
	if f == nil {
		delete(routes, key)
	} else {
		routes[key] = f
	}
	routerMu.Unlock()
}

// waitUntil polls cond (cheap predicates only) until true or the deadline passes.
func waitUntil(d time.Duration, cond func() bool) bool {
	deadline := time.Now().Add(d)
	for {
		if cond() {
			return true
		}
		if time.Now().After(deadline) {
			return false
		}
		time.Sleep(200 * time.Microsecond)
	}
}
