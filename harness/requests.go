package main

import (
	"context"
	"encoding/json"
	"fmt"
	"sync"
	"time"

	"go.lsp.dev/protocol"

	"github.com/juev/hledger-lsp/internal/server"
)

// ---- generic request layer: one entry per position-carrying / document feature

var docRequestKinds = []string{"documentSymbol", "foldingRange", "documentLink", "semanticTokensFull", "formatting"}
var posRequestKinds = []string{"hover", "completion", "definition", "references", "prepareRename", "rename", "inlineCompletion"}

func callRequest(ctx context.Context, srv *server.Server, kind string, uri protocol.DocumentURI, line, char uint32) (any, error) {
	td := protocol.TextDocumentIdentifier{URI: uri}
	pos := protocol.Position{Line: line, Character: char}
	tdp := protocol.TextDocumentPositionParams{TextDocument: td, Position: pos}
	switch kind {
	case "hover":
		return srv.Hover(ctx, &protocol.HoverParams{TextDocumentPositionParams: tdp})
	case "completion":
		return srv.Completion(ctx, &protocol.CompletionParams{TextDocumentPositionParams: tdp})
	case "definition":
		return srv.Definition(ctx, &protocol.DefinitionParams{TextDocumentPositionParams: tdp})
	case "references":
		return srv.References(ctx, &protocol.ReferenceParams{TextDocumentPositionParams: tdp, Context: protocol.ReferenceContext{IncludeDeclaration: true}})
	case "referencesNoDecl":
		return srv.References(ctx, &protocol.ReferenceParams{TextDocumentPositionParams: tdp, Context: protocol.ReferenceContext{IncludeDeclaration: false}})
	case "prepareRename":
		return srv.PrepareRename(ctx, &protocol.PrepareRenameParams{TextDocumentPositionParams: tdp})
	case "rename":
		return srv.Rename(ctx, &protocol.RenameParams{TextDocumentPositionParams: tdp, NewName: "renamed:x"})
	case "inlineCompletion":
		raw, _ := json.Marshal(map[string]any{"textDocument": td, "position": pos, "context": map[string]any{"triggerKind": 1}})
		return srv.InlineCompletion(ctx, raw)
	case "documentSymbol":
		return srv.DocumentSymbol(ctx, &protocol.DocumentSymbolParams{TextDocument: td})
	case "workspaceSymbol":
		return srv.WorkspaceSymbol(ctx, &protocol.WorkspaceSymbolParams{Query: ""})
	case "foldingRange":
		return srv.FoldingRanges(ctx, &protocol.FoldingRangeParams{TextDocumentPositionParams: protocol.TextDocumentPositionParams{TextDocument: td}})
	case "documentLink":
		return srv.DocumentLink(ctx, &protocol.DocumentLinkParams{TextDocument: td})
	case "semanticTokensFull":
		r, err := srv.SemanticTokensFull(ctx, &protocol.SemanticTokensParams{TextDocument: td})
		if r != nil {
			return r.Data, err // the result id is a counter, not a function of the text
		}
		return nil, err
	case "semanticTokensRange":
		r, err := srv.SemanticTokensRange(ctx, &protocol.SemanticTokensRangeParams{TextDocument: td, Range: protocol.Range{Start: protocol.Position{Line: line}, End: protocol.Position{Line: line + char}}})
		if r != nil {
			return r.Data, err
		}
		return nil, err
	case "formatting":
		return srv.Format(ctx, &protocol.DocumentFormattingParams{TextDocument: td})
	case "codeAction":
		return srv.CodeAction(ctx, &protocol.CodeActionParams{TextDocument: td})
	}
	return nil, fmt.Errorf("unknown request kind %q", kind)
}

func mustJSON(v any) string {
	b, err := json.Marshal(v)
	if err != nil {
		return "marshal-error:" + err.Error()
	}
	return string(b)
}

// ---- a quiescent in-process server session

type session struct {
	srv        *server.Server
	client     *stubClient
	ctl        *doneCtl
	dir        string
	initResult *protocol.InitializeResult
}

// doneCtl counts background publish jobs per URI so that the harness can wait for quiescence
// on the pd.done hook instead of sleeping.
type doneCtl struct {
	mu      sync.Mutex
	started map[string]int
	done    map[string]int
	cond    *sync.Cond
}

func newDoneCtl() *doneCtl {
	d := &doneCtl{started: map[string]int{}, done: map[string]int{}}
	d.cond = sync.NewCond(&d.mu)
	return d
}

func (d *doneCtl) hook(point, key string, _ int64) {
	switch point {
	case "pd.start":
		d.mu.Lock()
		d.started[key]++
		d.cond.Broadcast()
		d.mu.Unlock()
	case "pd.done":
		d.mu.Lock()
		d.done[key]++
		d.cond.Broadcast()
		d.mu.Unlock()
	}
}

// waitJobs blocks until n background jobs for key have started and all started ones are done.
func (d *doneCtl) waitJobs(key string, n int, deadline time.Duration) bool {
	return waitUntil(deadline, func() bool {
		d.mu.Lock()
		defer d.mu.Unlock()
		return d.started[key] >= n && d.done[key] >= d.started[key]
	})
}

func newSession(dir string, rootDir string, initOpts any, caps bool) (*session, error) {
	return newSessionWith(newStubClient(), dir, rootDir, initOpts, caps)
}

func newSessionWith(client *stubClient, dir string, rootDir string, initOpts any, caps bool) (*session, error) {
	ctx := context.Background()
	installRouter()
	s := &session{srv: server.NewServer(), client: client, ctl: newDoneCtl(), dir: dir}
	s.srv.SetClient(s.client)
	params := &protocol.InitializeParams{InitializationOptions: initOpts}
	if rootDir != "" {
		params.RootURI = fileURI(rootDir) //nolint
	}
	if caps {
		params.Capabilities.Workspace = &protocol.WorkspaceClientCapabilities{Configuration: true}
	}
	res, err := s.srv.Initialize(ctx, params)
	if err != nil {
		return nil, err
	}
	s.initResult = res
	if err := s.srv.Initialized(ctx, &protocol.InitializedParams{}); err != nil {
		return nil, err
	}
	return s, nil
}

var (
	versionsMu sync.Mutex
	versions   = map[*session]map[protocol.DocumentURI]int32{}
)

func (s *session) setVersion(uri protocol.DocumentURI, v int32) {
	versionsMu.Lock()
	defer versionsMu.Unlock()
	if versions[s] == nil {
		versions[s] = map[protocol.DocumentURI]int32{}
	}
	versions[s][uri] = v
}

func (s *session) nextVersion(uri protocol.DocumentURI) int32 {
	versionsMu.Lock()
	defer versionsMu.Unlock()
	if versions[s] == nil {
		versions[s] = map[protocol.DocumentURI]int32{}
	}
	if versions[s][uri] == 0 {
		versions[s][uri] = 1
	}
	versions[s][uri]++
	return versions[s][uri]
}

func (s *session) watch(uri protocol.DocumentURI)   { route(string(uri), s.ctl.hook) }
func (s *session) unwatch(uri protocol.DocumentURI) { route(string(uri), nil) }

func (s *session) open(uri protocol.DocumentURI, text string) error {
	s.ctl.mu.Lock()
	n := s.ctl.started[string(uri)] + 1
	s.ctl.mu.Unlock()
	// the version belongs to the open session: it starts at 1 with every didOpen and grows by one with every didChange
	s.setVersion(uri, 1)
	if err := s.srv.DidOpen(context.Background(), &protocol.DidOpenTextDocumentParams{TextDocument: protocol.TextDocumentItem{URI: uri, Version: 1, Text: text}}); err != nil {
		return err
	}
	if !s.ctl.waitJobs(string(uri), n, 60*time.Second) {
		return fmt.Errorf("background job after didOpen did not finish")
	}
	return nil
}

func (s *session) change(uri protocol.DocumentURI, changes []protocol.TextDocumentContentChangeEvent, wasOpen bool) error {
	s.ctl.mu.Lock()
	n := s.ctl.started[string(uri)]
	s.ctl.mu.Unlock()
	if wasOpen {
		n++
	}
	if err := s.srv.DidChange(context.Background(), &protocol.DidChangeTextDocumentParams{
		TextDocument:   protocol.VersionedTextDocumentIdentifier{TextDocumentIdentifier: protocol.TextDocumentIdentifier{URI: uri}, Version: s.nextVersion(uri)},
		ContentChanges: changes}); err != nil {
		return err
	}
	// a change the server does not act on starts no job at all: that is the caller's business (the mirror text tells),
	// not a failure of the harness
	if !waitUntil(noJobWait, func() bool {
		s.ctl.mu.Lock()
		defer s.ctl.mu.Unlock()
		return s.ctl.started[string(uri)] >= n
	}) {
		return errNoJob
	}
	if !s.ctl.waitJobs(string(uri), n, 60*time.Second) {
		return fmt.Errorf("background job after didChange did not finish")
	}
	return nil
}

var errNoJob = fmt.Errorf("no background job started after didChange")

// how long a didChange may take to start its background job (the job is started before DidChange returns)
var noJobWait = 5 * time.Second
