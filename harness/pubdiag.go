package main

import (
	"encoding/base64"
	"encoding/json"
	"fmt"
	"path/filepath"

	"go.lsp.dev/protocol"
)

// ---- pubdiag: open one document (optionally inside a workspace of files) and report what is published

type pdCase struct {
	ID        string            `json:"id"`
	Files     map[string]string `json:"files"`     // written to disk before the server starts
	Workspace bool              `json:"workspace"` // initialise with the case directory as workspace root
	Doc       string            `json:"doc"`       // relative path of the document to open
	Text      string            `json:"text"`      // its text (may differ from what is on disk)
	B64       string            `json:"b64"`       // the text as base64 when it is not valid UTF-8 (takes precedence)
	Settings  json.RawMessage   `json:"settings"`  // initializationOptions
}

type pdDiag struct {
	SL   uint32 `json:"sl"`
	SC   uint32 `json:"sc"`
	EL   uint32 `json:"el"`
	EC   uint32 `json:"ec"`
	Code string `json:"code"`
	Msg  string `json:"msg"`
	Sev  int    `json:"sev"`
}

func projDiags(ds []protocol.Diagnostic) []pdDiag {
	out := []pdDiag{}
	for _, d := range ds {
		code := ""
		if d.Code != nil {
			code = fmt.Sprint(d.Code)
		}
		out = append(out, pdDiag{d.Range.Start.Line, d.Range.Start.Character, d.Range.End.Line, d.Range.End.Character, code, d.Message, int(d.Severity)})
	}
	return out
}

func init() {
	commands["pubdiag"] = func(args []string) error {
		f := newFlags("pubdiag")
		if err := f.fs.Parse(args); err != nil {
			return err
		}
		absWork, err := filepath.Abs(f.work)
		if err != nil {
			return err
		}
		f.work = absWork
		return runCases(f, func(idx int, raw json.RawMessage, dir string) (any, error) {
			var c pdCase
			if err := json.Unmarshal(raw, &c); err != nil {
				return nil, err
			}
			if err := writeFiles(dir, c.Files); err != nil {
				return nil, err
			}
			if c.B64 != "" {
				raw, err := base64.StdEncoding.DecodeString(c.B64)
				if err != nil {
					return nil, err
				}
				c.Text = string(raw)
			}
			var opts any
			if len(c.Settings) > 0 {
				if err := json.Unmarshal(c.Settings, &opts); err != nil {
					return nil, err
				}
			}
			root := ""
			if c.Workspace {
				root = dir
			}
			sess, err := newSession(dir, root, opts, false)
			if err != nil {
				return nil, err
			}
			doc := c.Doc
			if doc == "" {
				doc = "doc.journal"
			}
			u := fileURI(filepath.Join(dir, filepath.FromSlash(doc)))
			sess.watch(u)
			defer sess.unwatch(u)
			if err := sess.open(u, c.Text); err != nil {
				return nil, err
			}
			last := sess.client.lastFor(string(u))
			res := map[string]any{"id": c.ID, "published": last != nil, "diags": []pdDiag{}}
			if last != nil {
				res["diags"] = projDiags(last.Diags)
			}
			return res, nil
		})
	}
}
