package server

// Verification-only accessors, compiled in through go build -overlay (never part of /repo).

// VerifSettings returns the server's current normalised settings keyed like the fields of
// spec/Settings.tla.
func (s *Server) VerifSettings() map[string]any {
	st := s.getSettings()
	lim := s.loader.VerifLimits()
	minCol := st.Formatting.MinAlignmentColumn
	if minCol < 0 {
		minCol = 0 // any non-positive minimum column means "no minimum"
	}
	return map[string]any{
		"features.hover":                     st.Features.Hover,
		"features.completion":                st.Features.Completion,
		"features.formatting":                st.Features.Formatting,
		"features.diagnostics":               st.Features.Diagnostics,
		"features.semanticTokens":            st.Features.SemanticTokens,
		"features.codeActions":               st.Features.CodeActions,
		"features.foldingRanges":             st.Features.FoldingRanges,
		"features.documentLinks":             st.Features.DocumentLinks,
		"features.workspaceSymbol":           st.Features.WorkspaceSymbol,
		"features.inlineCompletion":          st.Features.InlineCompletion,
		"completion.maxResults":              st.Completion.MaxResults,
		"completion.fuzzyMatching":           st.Completion.FuzzyMatching,
		"completion.showCounts":              st.Completion.ShowCounts,
		"diagnostics.undeclaredAccounts":     st.Diagnostics.UndeclaredAccounts,
		"diagnostics.undeclaredCommodities":  st.Diagnostics.UndeclaredCommodities,
		"diagnostics.unbalancedTransactions": st.Diagnostics.UnbalancedTransactions,
		"formatting.indentSize":              st.Formatting.IndentSize,
		"formatting.alignAmounts":            st.Formatting.AlignAmounts,
		"formatting.minAlignmentColumn":      minCol,
		"cli.enabled":                        st.CLI.Enabled,
		"cli.path":                           st.CLI.Path,
		"cli.timeout":                        int(st.CLI.Timeout.Milliseconds()),
		"limits.maxFileSizeBytes":            int(st.Limits.MaxFileSizeBytes),
		"limits.maxIncludeDepth":             st.Limits.MaxIncludeDepth,
		"loader.maxFileSizeBytes":            int(lim.MaxFileSizeBytes),
		"loader.maxIncludeDepth":             lim.MaxIncludeDepth,
	}
}
