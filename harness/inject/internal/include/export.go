package include

// VerifLimits exposes the loader's current limits to the verification harness.
func (l *Loader) VerifLimits() Limits { return l.getLimits() }
