package main

import (
	"encoding/json"
	"fmt"
	"path/filepath"
	"sort"

	"github.com/juev/hledger-lsp/internal/analyzer"
	"github.com/juev/hledger-lsp/internal/include"
	"github.com/juev/hledger-lsp/internal/workspace"
)

// ---- Workspace: C12 (incremental UpdateFile vs fresh Initialize after every step)

type wsOp struct {
	File    string `json:"file"`
	Content string `json:"content"`
}

type wsCase struct {
	ID    string            `json:"id"`
	Files map[string]string `json:"files"`
	Ops   []wsOp            `json:"ops"`
	// Size: limits.maxFileSizeBytes in force for the updated and for the rebuilt workspace (0 = default)
	Size int64 `json:"size"`
}

type wsTpl struct {
	Account   string `json:"account"`
	Amount    string `json:"amount"`
	Commodity string `json:"commodity"`
	Left      bool   `json:"left"`
}

type wsProj struct {
	Root            string                    `json:"root"`
	Members         []string                  `json:"members"`
	Accounts        []string                  `json:"accounts"`
	ByPrefix        map[string][]string       `json:"byprefix"`
	Payees          []string                  `json:"payees"`
	Commodities     []string                  `json:"commodities"`
	Tags            []string                  `json:"tags"`
	TagValues       map[string][]string       `json:"tagvalues"`
	Dates           []string                  `json:"dates"`
	AccountCounts   map[string]int            `json:"accountCounts"`
	PayeeCounts     map[string]int            `json:"payeeCounts"`
	CommodityCounts map[string]int            `json:"commodityCounts"`
	TagCounts       map[string]int            `json:"tagCounts"`
	TagValueCounts  map[string]map[string]int `json:"tagValueCounts"`
	Transactions    map[string][]string       `json:"transactions"` // key -> sorted "file:line" entries
	Templates       map[string][]wsTpl        `json:"templates"`
	DeclAccounts    []string                  `json:"declAccounts"`
	DeclCommodities []string                  `json:"declCommodities"`
	Formats         map[string]string         `json:"formats"`
}

func sortedBoolKeys(m map[string]bool) []string {
	out := []string{}
	for k, v := range m {
		if v {
			out = append(out, k)
		}
	}
	sort.Strings(out)
	return out
}

func projTemplates(m map[string][]analyzer.PostingTemplate) map[string][]wsTpl {
	out := map[string][]wsTpl{}
	for k, v := range m {
		var l []wsTpl
		for _, p := range v {
			l = append(l, wsTpl{p.Account, p.Amount, p.Commodity, p.CommodityLeft})
		}
		out[k] = l
	}
	return out
}

func projectWorkspace(dir string, w *workspace.Workspace) *wsProj {
	p := &wsProj{}
	p.Root = relTo(dir, w.RootJournalPath())
	p.Members = []string{}
	if w.RootJournalPath() != "" {
		p.Members = append(p.Members, p.Root)
	}
	if r := w.GetResolved(); r != nil {
		for k := range r.Files {
			p.Members = append(p.Members, relTo(dir, k))
		}
	}
	sort.Strings(p.Members)
	snap := w.IndexSnapshot()
	if snap.Accounts != nil {
		p.Accounts = append([]string{}, snap.Accounts.All...)
		p.ByPrefix = snap.Accounts.ByPrefix
	}
	p.Payees = snap.Payees
	p.Commodities = snap.Commodities
	p.Tags = snap.Tags
	p.TagValues = snap.TagValues
	p.Dates = snap.Dates
	p.AccountCounts = snap.AccountCounts
	p.PayeeCounts = snap.PayeeCounts
	p.CommodityCounts = snap.CommodityCounts
	p.TagCounts = snap.TagCounts
	p.TagValueCounts = snap.TagValueCounts
	p.Transactions = map[string][]string{}
	for k, entries := range snap.Transactions {
		var l []string
		for _, e := range entries {
			l = append(l, fmt.Sprintf("%s:%d:%s|%s", relTo(dir, e.FilePath), e.Range.Start.Line, e.Payee, e.Description))
		}
		sort.Strings(l)
		p.Transactions[k] = l
	}
	p.Templates = projTemplates(snap.PayeeTemplates)
	p.DeclAccounts = sortedBoolKeys(w.GetDeclaredAccounts())
	p.DeclCommodities = sortedBoolKeys(w.GetDeclaredCommodities())
	p.Formats = map[string]string{}
	for k, f := range w.GetCommodityFormats() {
		p.Formats[k] = fmt.Sprintf("mark=%c sep=%q places=%d has=%v", f.DecimalMark, f.ThousandsSep, f.DecimalPlaces, f.HasDecimal)
	}
	return p
}

type wsStep struct {
	Inc   *wsProj `json:"inc"`
	Fresh *wsProj `json:"fresh"`
}

func init() {
	commands["workspace"] = func(args []string) error {
		f := newFlags("workspace")
		if err := f.fs.Parse(args); err != nil {
			return err
		}
		absWork, err := filepath.Abs(f.work)
		if err != nil {
			return err
		}
		f.work = absWork
		return runCases(f, func(idx int, raw json.RawMessage, dir string) (any, error) {
			var c wsCase
			if err := json.Unmarshal(raw, &c); err != nil {
				return nil, err
			}
			if err := writeFiles(dir, c.Files); err != nil {
				return nil, err
			}
			mkLoader := func() *include.Loader {
				l := include.NewLoader()
				if c.Size > 0 {
					l.SetLimits(include.Limits{MaxFileSizeBytes: c.Size})
				}
				return l
			}
			loader := mkLoader()
			w := workspace.NewWorkspace(dir, loader)
			if err := w.Initialize(); err != nil {
				return nil, err
			}
			fresh := func() (*wsProj, error) {
				fw := workspace.NewWorkspace(dir, mkLoader())
				if err := fw.Initialize(); err != nil {
					return nil, err
				}
				return projectWorkspace(dir, fw), nil
			}
			out := struct {
				ID    string   `json:"id"`
				Steps []wsStep `json:"steps"`
			}{ID: c.ID}
			fp, err := fresh()
			if err != nil {
				return nil, err
			}
			out.Steps = append(out.Steps, wsStep{Inc: projectWorkspace(dir, w), Fresh: fp})
			for _, op := range c.Ops {
				if err := writeFiles(dir, map[string]string{op.File: op.Content}); err != nil {
					return nil, err
				}
				p := filepath.Join(dir, filepath.FromSlash(op.File))
				// what Server.DidChange / DidSave do for a workspace file
				w.UpdateFile(p, op.Content)
				loader.InvalidateFile(p)
				fp, err := fresh()
				if err != nil {
					return nil, err
				}
				out.Steps = append(out.Steps, wsStep{Inc: projectWorkspace(dir, w), Fresh: fp})
			}
			return out, nil
		})
	}
}
