package main

import (
	"encoding/base64"
	"encoding/json"

	"github.com/juev/hledger-lsp/internal/parser"
)

// ---- parse: C03 / C07 — parser.Parse on rendered journals, projected to the abstract vocabulary

type parseCase struct {
	ID   string `json:"id"`
	Text string `json:"text"`
	B64  string `json:"b64"` // the text as base64 when it is not valid UTF-8 (takes precedence)
}

func init() {
	commands["parse"] = func(args []string) error {
		f := newFlags("parse")
		if err := f.fs.Parse(args); err != nil {
			return err
		}
		return runCases(f, func(idx int, raw json.RawMessage, dir string) (any, error) {
			var c parseCase
			if err := json.Unmarshal(raw, &c); err != nil {
				return nil, err
			}
			if c.B64 != "" {
				raw, err := base64.StdEncoding.DecodeString(c.B64)
				if err != nil {
					return nil, err
				}
				c.Text = string(raw)
			}
			j, errs := parser.Parse(c.Text)
			return map[string]any{"id": c.ID, "errs": projErrs(errs), "entries": projectJournal(j)}, nil
		})
	}
}
