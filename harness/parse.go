package main

import (
	"encoding/json"

	"github.com/juev/hledger-lsp/internal/parser"
)

// ---- parse: C03 / C07 — parser.Parse on rendered journals, projected to the abstract vocabulary

type parseCase struct {
	ID   string `json:"id"`
	Text string `json:"text"`
}

func init() {
	commands["parse"] = func(args []string) error {
		f := newFlags("parse")
		if err := f.fs.Parse(args); err != nil {
			return err
		}
		return runCases(f, func(idx int, raw json.RawMessage, dir string) (any, error) {
			var c parseCase
			if err := json.Unmarshal(raw, &c); err != nil {
				return nil, err
			}
			j, errs := parser.Parse(c.Text)
			return map[string]any{"id": c.ID, "errs": projErrs(errs), "entries": projectJournal(j)}, nil
		})
	}
}
