package main

import (
	"encoding/json"
	"path/filepath"

	"go.lsp.dev/protocol"

	"github.com/juev/hledger-lsp/internal/include"
)

// ---- srvinclude: C11 at server level — histories from IncludeServer.tla

type siOp struct {
	Op      string `json:"op"` // open | change | save | close
	File    string `json:"file"`
	Content string `json:"content"`
}

type siCase struct {
	ID        string            `json:"id"`
	Files     map[string]string `json:"files"`
	Workspace bool              `json:"workspace"`
	Ops       []siOp            `json:"ops"`
}

type siStep struct {
	Op        string   `json:"op"`
	Shared    *incProj `json:"shared,omitempty"` // what the server resolved for the document
	Fresh     *incProj `json:"fresh,omitempty"`  // what a fresh loader resolves from the same contents
	DiagLines []int    `json:"diagLines,omitempty"`
}

func init() {
	commands["srvinclude"] = func(args []string) error {
		f := newFlags("srvinclude")
		if err := f.fs.Parse(args); err != nil {
			return err
		}
		absWork, err := filepath.Abs(f.work)
		if err != nil {
			return err
		}
		f.work = absWork
		return runCases(f, func(idx int, raw json.RawMessage, dir string) (any, error) {
			var c siCase
			if err := json.Unmarshal(raw, &c); err != nil {
				return nil, err
			}
			if err := writeFiles(dir, c.Files); err != nil {
				return nil, err
			}
			root := ""
			if c.Workspace {
				root = dir
			}
			sess, err := newSession(dir, root, nil, false)
			if err != nil {
				return nil, err
			}
			out := struct {
				ID    string   `json:"id"`
				Steps []siStep `json:"steps"`
			}{ID: c.ID}
			watched := map[string]protocol.DocumentURI{}
			defer func() {
				for _, u := range watched {
					sess.unwatch(u)
				}
			}()
			for _, op := range c.Ops {
				p := filepath.Join(dir, filepath.FromSlash(op.File))
				u := fileURI(p)
				if _, ok := watched[op.File]; !ok {
					watched[op.File] = u
					sess.watch(u)
				}
				st := siStep{Op: op.Op}
				analysed := false
				switch op.Op {
				case "open":
					if err := sess.open(u, op.Content); err != nil {
						return nil, err
					}
					analysed = true
				case "change":
					ch := protocol.TextDocumentContentChangeEvent{Range: protocol.Range{End: protocol.Position{Line: 1000000}}, Text: op.Content}
					if err := sess.change(u, []protocol.TextDocumentContentChangeEvent{ch}, true); err != nil {
						return nil, err
					}
					analysed = true
				case "save":
					if err := writeFiles(dir, map[string]string{op.File: op.Content}); err != nil {
						return nil, err
					}
					if err := sess.srv.DidSave(ctxBG, &protocol.DidSaveTextDocumentParams{TextDocument: protocol.TextDocumentIdentifier{URI: u}}); err != nil {
						return nil, err
					}
				case "close":
					if err := sess.srv.DidClose(ctxBG, &protocol.DidCloseTextDocumentParams{TextDocument: protocol.TextDocumentIdentifier{URI: u}}); err != nil {
						return nil, err
					}
				}
				if analysed {
					st.Shared = projectLoad(dir, sess.srv.GetResolved(u), nil)
					if last := sess.client.lastFor(string(u)); last != nil {
						for _, d := range last.Diags {
							if d.Code == nil || d.Code == "" {
								st.DiagLines = append(st.DiagLines, int(d.Range.Start.Line)+1)
							}
						}
					}
					r2, e2 := include.NewLoader().LoadFromContent(p, op.Content)
					st.Fresh = projectLoad(dir, r2, e2)
				}
				out.Steps = append(out.Steps, st)
			}
			return out, nil
		})
	}
}
