package main

import (
	"bufio"
	"encoding/json"
	"flag"
	"fmt"
	"os"
	"path/filepath"
	"runtime"
	"runtime/debug"
	"strconv"
	"sync"
)

type stdFlags struct {
	in, out, work string
	par           int
	fs            *flag.FlagSet
}

func newFlags(name string) *stdFlags {
	f := &stdFlags{fs: flag.NewFlagSet(name, flag.ContinueOnError)}
	f.fs.StringVar(&f.in, "in", "", "cases ndjson")
	f.fs.StringVar(&f.out, "out", "", "results ndjson")
	f.fs.StringVar(&f.work, "work", "", "scratch directory")
	f.fs.IntVar(&f.par, "par", runtime.NumCPU(), "parallel workers")
	return f
}

func readCases(path string) ([]json.RawMessage, error) {
	fh, err := os.Open(path)
	if err != nil {
		return nil, err
	}
	defer fh.Close()
	var out []json.RawMessage
	sc := bufio.NewScanner(fh)
	sc.Buffer(make([]byte, 1<<20), 1<<28)
	for sc.Scan() {
		b := sc.Bytes()
		if len(b) == 0 {
			continue
		}
		out = append(out, append(json.RawMessage(nil), b...))
	}
	return out, sc.Err()
}

// caseDirName: where a case lives is no part of any contract. A case may ask ("dirstyle") for a directory whose name
// holds a blank, a non-ASCII letter, or the glob metacharacters that ordinary folders carry ("Taxes [2024]", "books{old}").
func caseDirName(i int, raw json.RawMessage) string {
	var st struct {
		DirStyle int `json:"dirstyle"`
	}
	_ = json.Unmarshal(raw, &st)
	n := strconv.Itoa(i)
	switch st.DirStyle {
	case 1:
		return "my ledger " + n
	case 2:
		return "бухгалтерия" + n
	case 3:
		return "taxes [" + n + "]"
	case 4:
		return "books{" + n + "}"
	case 5:
		return "R&D 2024+25 @home=" + n
	}
	return "c" + n
}

// runCases runs fn over all cases with a worker pool; results keep input order.
// fn gets a private, empty directory.  A panic inside fn is reported as the
// result {"panic": "..."} of that case (it is an observation, not a harness failure).
func runCases(f *stdFlags, fn func(idx int, raw json.RawMessage, dir string) (any, error)) error {
	cases, err := readCases(f.in)
	if err != nil {
		return err
	}
	results := make([][]byte, len(cases))
	var wg sync.WaitGroup
	var mu sync.Mutex
	var firstErr error
	ch := make(chan int)
	par := f.par
	if par < 1 {
		par = 1
	}
	for w := 0; w < par; w++ {
		wg.Add(1)
		go func() {
			defer wg.Done()
			for i := range ch {
				dir := filepath.Join(f.work, caseDirName(i, cases[i]))
				_ = os.MkdirAll(dir, 0o755)
				res, err := safeCall(fn, i, cases[i], dir)
				_ = os.RemoveAll(dir)
				if err != nil {
					mu.Lock()
					if firstErr == nil {
						firstErr = fmt.Errorf("case %d: %w", i, err)
					}
					mu.Unlock()
					continue
				}
				b, err := json.Marshal(res)
				if err != nil {
					mu.Lock()
					if firstErr == nil {
						firstErr = fmt.Errorf("case %d: marshal: %w", i, err)
					}
					mu.Unlock()
					continue
				}
				results[i] = b
			}
		}()
	}
	for i := range cases {
		ch <- i
	}
	close(ch)
	wg.Wait()
	if firstErr != nil {
		return firstErr
	}
	fh, err := os.Create(f.out)
	if err != nil {
		return err
	}
	w := bufio.NewWriter(fh)
	for _, b := range results {
		w.Write(b)
		w.WriteByte('\n')
	}
	if err := w.Flush(); err != nil {
		return err
	}
	return fh.Close()
}

func safeCall(fn func(int, json.RawMessage, string) (any, error), i int, raw json.RawMessage, dir string) (res any, err error) {
	defer func() {
		if r := recover(); r != nil {
			res = map[string]any{"panic": fmt.Sprint(r), "stack": string(debug.Stack())}
			err = nil
		}
	}()
	return fn(i, raw, dir)
}

func writeFiles(dir string, files map[string]string) error {
	for rel, content := range files {
		p := filepath.Join(dir, rel)
		if err := os.MkdirAll(filepath.Dir(p), 0o755); err != nil {
			return err
		}
		if err := os.WriteFile(p, []byte(content), 0o644); err != nil {
			return err
		}
	}
	return nil
}
