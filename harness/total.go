package main

import (
	"bufio"
	"context"
	"encoding/base64"
	"encoding/json"
	"fmt"
	"os"
	"path/filepath"
	"runtime/debug"
	"strings"
	"time"

	"go.lsp.dev/protocol"

	"github.com/juev/hledger-lsp/internal/parser"
)

// ---- total: C06 — every request on arbitrary content returns, in time; tokenisation makes progress.
//
// Cases are processed one after the other in this process and every result line is flushed as soon
// as the case is finished, so that a crash of the process (a panic on a goroutine the server started)
// identifies the case that caused it: the orchestrator restarts after it.

type totCase struct {
	ID       string `json:"id"`
	B64      string `json:"b64"`
	Requests bool   `json:"requests"` // also issue every request at every position
	Lex      bool   `json:"lex"`      // record the token stream
}

type totTok struct {
	T string `json:"t"`
	P int    `json:"p"`
	Q int    `json:"q"`
}

type totResult struct {
	ID        string   `json:"id"`
	Len       int      `json:"len"`
	Tokens    []totTok `json:"tokens,omitempty"`
	LexCapped bool     `json:"lexCapped,omitempty"` // the token cap 2*len+2 was reached without EOF
	Problems  []string `json:"problems,omitempty"`  // "panic:<kind>@l:c: ..." | "timeout:<kind>@l:c after ..ms" | "no-publication"
	Requests  int      `json:"requests"`
	MaxMs     float64  `json:"maxMs"`
	MaxWhat   string   `json:"maxWhat,omitempty"`
}

var totalKinds = []string{"hover", "completion", "definition", "references", "prepareRename", "rename", "inlineCompletion"}
var totalDocKinds = []string{"documentSymbol", "foldingRange", "documentLink", "semanticTokensFull", "formatting", "workspaceSymbol"}

func deadlineFor(n int) time.Duration {
	return time.Second + time.Duration(n)*2*time.Millisecond
}

// timed runs f on its own goroutine and waits at most d. A panic inside f is returned as problem text.
func timed(d time.Duration, f func()) (elapsed time.Duration, problem string) {
	done := make(chan string, 1)
	t0 := time.Now()
	go func() {
		defer func() {
			if r := recover(); r != nil {
				done <- "panic: " + fmt.Sprint(r) + " | " + firstFrames(string(debug.Stack()))
				return
			}
			done <- ""
		}()
		f()
	}()
	select {
	case p := <-done:
		return time.Since(t0), p
	case <-time.After(d):
		return time.Since(t0), "timeout"
	}
}

func firstFrames(stack string) string {
	lines := strings.Split(stack, "\n")
	var keep []string
	for _, l := range lines {
		if strings.Contains(l, "hledger-lsp/internal") {
			keep = append(keep, strings.TrimSpace(l))
			if len(keep) >= 4 {
				break
			}
		}
	}
	return strings.Join(keep, " <- ")
}

func init() {
	commands["total"] = func(args []string) error {
		f := newFlags("total")
		start := f.fs.Int("start", 0, "index of the first case to process")
		if err := f.fs.Parse(args); err != nil {
			return err
		}
		absWork, err := filepath.Abs(f.work)
		if err != nil {
			return err
		}
		cases, err := readCases(f.in)
		if err != nil {
			return err
		}
		fh, err := os.OpenFile(f.out, os.O_CREATE|os.O_WRONLY|os.O_APPEND, 0o644)
		if err != nil {
			return err
		}
		defer fh.Close()
		w := bufio.NewWriter(fh)
		dir := filepath.Join(absWork, "total")
		_ = os.MkdirAll(dir, 0o755)
		sess, err := newSession(dir, "", nil, false)
		if err != nil {
			return err
		}
		ctx := context.Background()
		hung := 0 // requests abandoned after their deadline (their goroutines may still be spinning)
		for i := *start; i < len(cases); i++ {
			var c totCase
			if err := json.Unmarshal(cases[i], &c); err != nil {
				return err
			}
			raw, err := base64.StdEncoding.DecodeString(c.B64)
			if err != nil {
				return err
			}
			text := string(raw)
			res := totResult{ID: c.ID, Len: len(text)}
			// announce the case before touching it: a crash leaves this line as the last one
			fmt.Fprintf(w, "{\"begin\":%q}\n", c.ID)
			w.Flush()

			if c.Lex {
				capTok := 2*len(text) + 2
				_, p := timed(deadlineFor(len(text)), func() {
					lx := parser.NewLexer(text)
					for n := 0; ; n++ {
						if n >= capTok {
							res.LexCapped = true
							return
						}
						tok := lx.Next()
						res.Tokens = append(res.Tokens, totTok{tok.Type.String(), tok.Pos.Offset, tok.End.Offset})
						if tok.Type == parser.TokenEOF {
							return
						}
					}
				})
				if p != "" {
					res.Problems = append(res.Problems, "lexer@0:0: "+p)
					if p == "timeout" {
						res.LexCapped = true // Lexer.Next did not return: the same loop would spin inside every request
						hung++
					}
				}
			}
			if hung >= 6 {
				// several abandoned requests may still be spinning in this process: stop it, the orchestrator carries on
				res.Problems = append(res.Problems, "skipped: too many abandoned requests in this process")
				b, _ := json.Marshal(res)
				w.Write(b)
				w.WriteByte('\n')
				w.Flush()
				fh.Close()
				os.Exit(3)
			}
			if res.LexCapped {
				// the lexer does not terminate on this text: the parser would spin forever inside every request
				b, _ := json.Marshal(res)
				w.Write(b)
				w.WriteByte('\n')
				w.Flush()
				continue
			}

			u := fileURI(filepath.Join(dir, fmt.Sprintf("t%d.journal", i)))
			sess.watch(u)
			d := deadlineFor(len(text))
			el, p := timed(d+2*time.Second, func() {
				sess.ctl.mu.Lock()
				n := sess.ctl.started[string(u)] + 1
				sess.ctl.mu.Unlock()
				_ = sess.srv.DidOpen(ctx, &protocol.DidOpenTextDocumentParams{TextDocument: protocol.TextDocumentItem{URI: u, Version: 1, Text: text}})
				if !sess.ctl.waitJobs(string(u), n, d) {
					panic("no-publication within the deadline")
				}
			})
			note := func(kind string, l, ch uint32, el time.Duration, p string) {
				ms := float64(el.Microseconds()) / 1000
				if ms > res.MaxMs {
					res.MaxMs = ms
					res.MaxWhat = fmt.Sprintf("%s@%d:%d", kind, l, ch)
				}
				if p != "" {
					res.Problems = append(res.Problems, fmt.Sprintf("%s@%d:%d: %s (%.0f ms, deadline %.0f ms)", kind, l, ch, p, ms, float64(d.Milliseconds())))
					if p == "timeout" {
						hung++
					}
				}
			}
			note("didOpen+publish", 0, 0, el, p)
			if sess.client.lastFor(string(u)) == nil && p == "" {
				res.Problems = append(res.Problems, "didOpen+publish@0:0: nothing was published")
			}

			if c.Requests {
				lines := docLines(text)
				for _, kind := range totalDocKinds {
					k := kind
					el, p := timed(d, func() { _, _ = callRequest(ctx, sess.srv, k, u, 0, 0) })
					res.Requests++
					note(k, 0, 0, el, p)
				}
				for li, ln := range lines {
					if len(res.Problems) >= 3 {
						break // enough is known about this text; do not spend the whole budget on it
					}
					cols := u16Cols(ln)
					cols = append(cols, cols[len(cols)-1]+1)
					for _, cc := range cols {
						if len(res.Problems) >= 3 {
							break
						}
						for _, kind := range totalKinds {
							k, l, ch := kind, uint32(li), cc
							el, p := timed(d, func() { _, _ = callRequest(ctx, sess.srv, k, u, l, ch) })
							res.Requests++
							note(k, l, ch, el, p)
						}
					}
				}
				// one position past the last line
				for _, kind := range totalKinds {
					k, l := kind, uint32(len(lines))
					el, p := timed(d, func() { _, _ = callRequest(ctx, sess.srv, k, u, l, 0) })
					res.Requests++
					note(k, l, 0, el, p)
				}
			}
			_ = sess.srv.DidClose(ctx, &protocol.DidCloseTextDocumentParams{TextDocument: protocol.TextDocumentIdentifier{URI: u}})
			sess.unwatch(u)
			b, err := json.Marshal(res)
			if err != nil {
				return err
			}
			w.Write(b)
			w.WriteByte('\n')
			w.Flush()
		}
		return nil
	}
}
