package main

import (
	"encoding/json"
	"fmt"
	"os"
	"path/filepath"
	"regexp"
	"strconv"
	"sync"
	"time"

	"github.com/juev/hledger-lsp/internal/include"
)

// ---- LoaderRace: C11/C14 — behaviours of spec/LoaderRace.tla replayed on one real include.Loader. A load is a goroutine
// that the yield point ld.read parks between reading b.journal and caching its parse; an edit rewrites b.journal and
// calls InvalidateFile, as the notification handlers of the server do.

type lrEvent struct {
	E    string `json:"e"` // begin | read | store | hit | edit
	ID   int    `json:"id"`
	Ver  int    `json:"ver"`
	Disk int    `json:"disk"`
}

type lrCase struct {
	ID     string    `json:"id"`
	Events []lrEvent `json:"h"`
}

type lrResult struct {
	ID     string `json:"id"`
	Hits   []int  `json:"hits"`  // for every "hit" event: the version of b.journal the load served
	Final  int    `json:"final"` // version served by one more load after the schedule
	Fresh  int    `json:"fresh"` // version a fresh loader serves then
	Stuck  string `json:"stuck,omitempty"`
	Parked int    `json:"parked"` // loads that stopped at ld.read
}

var lrVerRe = regexp.MustCompile(`version (\d+)`)

func lrServed(r *include.ResolvedJournal) int {
	if r == nil {
		return -1
	}
	for _, j := range r.Files {
		for _, tx := range j.Transactions {
			if m := lrVerRe.FindStringSubmatch(tx.Description); m != nil {
				v, _ := strconv.Atoi(m[1])
				return v
			}
		}
	}
	return 0
}

func init() {
	commands["loaderrace"] = func(args []string) error {
		f := newFlags("loaderrace")
		if err := f.fs.Parse(args); err != nil {
			return err
		}
		absWork, err := filepath.Abs(f.work)
		if err != nil {
			return err
		}
		f.work = absWork
		return runCases(f, func(idx int, raw json.RawMessage, dir string) (any, error) {
			var c lrCase
			if err := json.Unmarshal(raw, &c); err != nil {
				return nil, err
			}
			mainP := filepath.Join(dir, "main.journal")
			bP := filepath.Join(dir, "b.journal")
			write := func(v int) error {
				return os.WriteFile(bP, []byte(fmt.Sprintf("2024-01-01 version %d\n    a:b  1\n    c:d\n", v)), 0o644)
			}
			if err := os.WriteFile(mainP, []byte("include b.journal\n"), 0o644); err != nil {
				return nil, err
			}
			if err := write(1); err != nil {
				return nil, err
			}
			l := include.NewLoader()
			res := lrResult{ID: c.ID, Hits: []int{}}
			type parked struct {
				at   chan struct{} // closed when the goroutine stands at ld.read
				goOn chan struct{} // closed to let it cache and finish
				done chan int
			}
			var mu sync.Mutex
			byGid := map[int64]*parked{}
			gated := true
			route(bP, func(point, key string, gid int64) {
				if point != "ld.read" {
					return
				}
				mu.Lock()
				p := byGid[gid]
				g := gated
				mu.Unlock()
				if p == nil || !g {
					return
				}
				close(p.at)
				<-p.goOn
			})
			defer route(bP, nil)
			loads := map[int]*parked{}
			start := func() *parked {
				p := &parked{at: make(chan struct{}), goOn: make(chan struct{}), done: make(chan int, 1)}
				ready := make(chan struct{})
				go func() {
					mu.Lock()
					byGid[goid()] = p
					mu.Unlock()
					close(ready)
					r, _ := l.Load(mainP)
					p.done <- lrServed(r)
				}()
				<-ready
				return p
			}
			for _, ev := range c.Events {
				switch ev.E {
				case "begin":
					p := start()
					loads[ev.ID] = p
					select {
					case <-p.at:
						res.Parked++
					case v := <-p.done:
						// the implementation served this load from its cache although the model's cache is empty
						p.done <- v
					case <-time.After(20 * time.Second):
						res.Stuck = fmt.Sprintf("load %d neither reached ld.read nor finished", ev.ID)
						return res, nil
					}
				case "read":
					// the read happened on the way to ld.read
				case "store":
					p := loads[ev.ID]
					close(p.goOn)
					select {
					case <-p.done:
					case <-time.After(20 * time.Second):
						res.Stuck = fmt.Sprintf("load %d did not finish after ld.read", ev.ID)
						return res, nil
					}
				case "hit":
					mu.Lock()
					gated = false
					mu.Unlock()
					r, _ := l.Load(mainP)
					res.Hits = append(res.Hits, lrServed(r))
					mu.Lock()
					gated = true
					mu.Unlock()
				case "edit":
					if err := write(ev.Ver); err != nil {
						return nil, err
					}
					l.InvalidateFile(bP)
				}
			}
			mu.Lock()
			gated = false
			mu.Unlock()
			r, _ := l.Load(mainP)
			res.Final = lrServed(r)
			r2, _ := include.NewLoader().Load(mainP)
			res.Fresh = lrServed(r2)
			return res, nil
		})
	}
}
