--------------------------- MODULE MCIncludeGraphs ---------------------------
(***************************************************************************)
(* C10: every include graph on N files as an initial state.  No behaviour: *)
(* the invariant evaluates the contract, checks its theorems and prints    *)
(* one JSON test case per graph for replay into include.Loader.            *)
(*  Mode "sets"   : disk[f] = the targets of f in ascending order, one     *)
(*                  plain directive each (all 2^(N*N) edge sets)           *)
(*  Mode "lists"  : ordered directive lists of length <= 2 over 0..N       *)
(*                  (order, duplicates, dangling targets)                  *)
(*  Mode "depth"  : edge sets x depth limit 1..MaxLim                      *)
(***************************************************************************)
EXTENDS Include, TLC, Json, SequencesExt

CONSTANTS Mode, MaxLim,
          EmitMod, EmitSeed   \* print a case iff Hash(disk) % EmitMod = EmitSeed % EmitMod (EmitMod = 1: all)

VARIABLES stage,  \* 0: only the root's edges chosen; 1: complete graph
          disk,   \* file -> sequence of directives (each a sequence of targets)
          pats,   \* file -> sequence of pattern kinds, same shape: how the directive is spelled
          lim

SetToSeq1(S) == SetToSortSeq(S, <)
Plain(S)     == [i \in 1..Cardinality(S) |-> <<SetToSeq1(S)[i]>>]
PlainPat(s)  == [i \in 1..Len(s) |-> "plain"]

ShortLists == {<<>>} \cup { <<(<<a>>)>> : a \in Targets } \cup { << <<a>>, <<b>> >> : a \in Targets, b \in Targets }

(* Directory layout used for glob directives: files 1,2 in the root directory, 3,4 in sub/.
   "same" = *.journal, "all" = <->/*.journal (recursive), "sub" = sub/*.journal,
   "none" = a pattern matching nothing.  The including file itself is never a match. *)
InSub(f) == f >= 3
GlobMatches(f, p) ==
    LET S == CASE p = "same" -> { g \in Files : InSub(g) = InSub(f) }
               [] p = "all"  -> IF InSub(f) THEN { g \in Files : InSub(g) } ELSE Files
               [] p = "sub"  -> IF InSub(f) THEN {} ELSE { g \in Files : InSub(g) }
               [] OTHER      -> {}
    IN SetToSeq1(S \ {f})

GlobPats == {"same", "all", "sub", "none"}

(* Two stages so that TLC's workers share the enumeration: Init fixes the root's edges
   (stage 0), Next chooses everything else (stage 1).  Cases are emitted at stage 1. *)
Rest(row1, g) == [f \in Files |-> IF f = 1 THEN row1 ELSE g[f]]

Init ==
    /\ stage = 0
    /\ pats = <<>>
    /\ \/ /\ Mode \in {"sets", "glob"}
          /\ \E row1 \in SUBSET Files : disk = <<row1>>
          /\ lim = N + 1
       \/ /\ Mode = "lists"
          /\ \E l \in ShortLists : disk = <<l>>
          /\ lim = N + 1
       \/ /\ Mode = "depth"
          /\ \E row1 \in SUBSET Files : disk = <<row1>>
          /\ lim \in 1..MaxLim

Next ==
    /\ stage = 0
    /\ stage' = 1
    /\ lim' = lim
    /\ \/ /\ Mode \in {"sets", "depth"}
          /\ \E g \in [Files -> SUBSET Files] :
                /\ g[1] = disk[1]
                /\ disk' = [f \in Files |-> Plain(g[f])]
          /\ pats' = [f \in Files |-> PlainPat(disk'[f])]
       \/ /\ Mode = "lists"
          /\ \E d \in [Files -> ShortLists] :
                /\ d[1] = disk[1]
                /\ disk' = d
          /\ pats' = [f \in Files |-> PlainPat(disk'[f])]
       \/ /\ Mode = "glob"     \* one glob directive in one file, before or after its plain directives
          /\ \E g \in [Files -> SUBSET Files], gf \in Files, p \in GlobPats, first \in BOOLEAN :
                /\ g[1] = disk[1]
                /\ disk' = [f \in Files |-> IF f # gf THEN Plain(g[f])
                                            ELSE IF first THEN <<GlobMatches(f, p)>> \o Plain(g[f])
                                                          ELSE Plain(g[f]) \o <<GlobMatches(f, p)>>]
                /\ pats' = [f \in Files |-> IF f # gf THEN PlainPat(Plain(g[f]))
                                            ELSE IF first THEN <<p>> \o PlainPat(Plain(g[f]))
                                                          ELSE PlainPat(Plain(g[f])) \o <<p>>]

ResJson(r) == [loaded |-> SetToSeq1(r.loaded), order |-> r.order, diags |-> SetToSeq(r.diags)]

Case == [ disk |-> disk, pats |-> pats, lim |-> lim, big |-> SetToSeq1(Big),
          a |-> ResJson(Resolve(disk, 1, lim)),
          b |-> ResJson(Resolve(disk, 1, lim + 1)) ]

RECURSIVE SumDirs(_, _), SumFiles(_)
SumDirs(f, i) == IF i = 0 THEN 0
                 ELSE (IF Len(disk[f][i]) > 0 THEN (i + 2) * (disk[f][i][1] + 1) ELSE i) + SumDirs(f, i - 1)
SumFiles(f)   == IF f = 0 THEN 0 ELSE (f * f + 1) * (SumDirs(f, Len(disk[f])) + Len(disk[f])) + SumFiles(f - 1)
Hash == SumFiles(N) + 31 * lim

Emit == (stage = 1 /\ Hash % EmitMod = EmitSeed % EmitMod) => PrintT(ToJson(Case))

Theorems == (stage = 1 /\ lim > N) => ContractOK(disk, 1)
=============================================================================
