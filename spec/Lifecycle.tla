------------------------------ MODULE Lifecycle ------------------------------
(***************************************************************************)
(* C15 / C14 -- answers are a function of the STATE, not of the history.   *)
(*                                                                         *)
(* State of the world: for every document u the version of its file on     *)
(* disk, whether it is open in the editor, and the editor's text (a        *)
(* version; it survives a close: re-opening restores the unsaved buffer,   *)
(* which then differs from the file).  What a request must be answered     *)
(* from is the VIEW                                                        *)
(*      View(u) = IF open[u] THEN ed[u] ELSE disk[u]                       *)
(* Notifications: Change(u) (the editor's text gets a fresh version),      *)
(* Save(u) (the editor's text is written to the file, didSave is sent --   *)
(* for a closed document this is a write by another program that the       *)
(* server is told about), Close(u), Open(u).                               *)
(*                                                                         *)
(* `known[u]` is what the server believes u holds.  Mechanisms (constant   *)
(* Mech):                                                                  *)
(*   "repaired"  every notification brings known[u] to View(u)             *)
(*   "open-ignored"   didOpen does not touch what the workspace knows      *)
(*   "close-ignored"  didClose keeps the discarded buffer                  *)
(* The last two are how the server behaved before a0974db; TLC shows that  *)
(* each violates KnownIsView (so the invariant is not vacuous).            *)
(* Every behaviour of MaxOps notifications is printed and replayed on the  *)
(* real server, serially (each background job is awaited); at the end the  *)
(* server that lived through the history and a fresh server given          *)
(* <<disk, open, ed>> are asked the same requests on every open document.  *)
(***************************************************************************)
EXTENDS Naturals, Sequences, FiniteSets, TLC, Json

CONSTANTS Docs, MaxOps, Mech

VARIABLES disk, open, ed, known, h
vars == <<disk, open, ed, known, h>>

View(u) == IF open[u] THEN ed[u] ELSE disk[u]

Init == /\ disk = [u \in Docs |-> 1] /\ open = [u \in Docs |-> TRUE] /\ ed = [u \in Docs |-> 1]
        /\ known = [u \in Docs |-> 1] /\ h = <<>>

More == Len(h) < MaxOps
Log(e) == h' = Append(h, e)

Change(u) == /\ More /\ open[u]
             /\ ed' = [ed EXCEPT ![u] = @ + 1]
             /\ known' = [known EXCEPT ![u] = ed[u] + 1]
             /\ Log([op |-> "change", uri |-> u]) /\ UNCHANGED <<disk, open>>

Save(u) == /\ More
           /\ disk' = [disk EXCEPT ![u] = ed[u]]
           /\ known' = [known EXCEPT ![u] = ed[u]]          \* open: the buffer it already knows; closed: the file as written
           /\ Log([op |-> "save", uri |-> u]) /\ UNCHANGED <<open, ed>>

Close(u) == /\ More /\ open[u]
            /\ open' = [open EXCEPT ![u] = FALSE]
            /\ known' = IF Mech = "close-ignored" THEN known ELSE [known EXCEPT ![u] = disk[u]]
            /\ Log([op |-> "close", uri |-> u]) /\ UNCHANGED <<disk, ed>>

Open(u) == /\ More /\ ~open[u]
           /\ open' = [open EXCEPT ![u] = TRUE]
           /\ known' = IF Mech = "open-ignored" THEN known ELSE [known EXCEPT ![u] = ed[u]]
           /\ Log([op |-> "open", uri |-> u]) /\ UNCHANGED <<disk, ed>>

Next == \E u \in Docs : Change(u) \/ Save(u) \/ Close(u) \/ Open(u)
Spec == Init /\ [][Next]_vars

(* the contract: after every notification the server knows exactly the view *)
KnownIsView == \A u \in Docs : known[u] = View(u)

TypeOK == \A u \in Docs : disk[u] <= ed[u] /\ ed[u] >= 1

Emit == (Len(h) = MaxOps) => PrintT(ToJson([ops |-> h, disk |-> disk, open |-> open, ed |-> ed]))
=============================================================================
