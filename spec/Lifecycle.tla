------------------------------ MODULE Lifecycle ------------------------------
(***************************************************************************)
(* C15 / C14 -- answers are a function of the STATE, not of the history.   *)
(*                                                                         *)
(* State of the world: for every document u the version of its file on     *)
(* disk, whether it is open in the editor, and the editor's text (a        *)
(* version; it survives a close: re-opening restores the unsaved buffer,   *)
(* which then differs from the file).  What a request must be answered     *)
(* from is the VIEW                                                        *)
(*      View(u) = IF open[u] THEN ed[u] ELSE disk[u]                       *)
(* Notifications: Change(u) (the editor's text gets a fresh version),      *)
(* Save(u) (the editor's text is written to the file, didSave is sent --   *)
(* for a closed document this is a write by another program that the       *)
(* server is told about), Close(u), Open(u).                               *)
(*                                                                         *)
(* The documents form a journal: Root includes a SET of the other          *)
(* documents, and that set is part of Root's text -- `inc` in the editor's *)
(* text, `dinc` in the file.  Link(u) / Unlink(u) are changes of Root that *)
(* add / remove the directive `include u`.  What a request on the journal  *)
(* must be answered from is the view of every document of                  *)
(*      Tree = {Root} \cup (IF open[Root] THEN inc ELSE dinc)              *)
(* A document outside the tree is a journal of its own.                    *)
(*                                                                         *)
(* `known[u]` is what the server's workspace believes u holds; it follows  *)
(* the notifications of MEMBERS of the tree only, and a document that      *)
(* joins the tree is fetched at that moment.  Mechanisms (constant Mech):  *)
(*   "repaired"  every notification brings known[u] to View(u), a joining  *)
(*               document is fetched from its view                         *)
(*   "open-ignored"   didOpen does not touch what the workspace knows      *)
(*   "close-ignored"  didClose keeps the discarded buffer                  *)
(*   "join-reads-file" a joining document is read from its file even when  *)
(*               it is open in the editor with another text                *)
(* The first two are how the server behaved before a0974db, the last how   *)
(* it behaved before the repair of hunt/D/1; TLC shows that each violates  *)
(* KnownIsView (so the invariant is not vacuous).                          *)
(* Every behaviour of MaxOps notifications is printed and replayed on the  *)
(* real server, serially (each background job is awaited); at the end the  *)
(* server that lived through the history and a fresh server given          *)
(* <<disk, open, ed>> are asked the same requests on every open document.  *)
(***************************************************************************)
EXTENDS Naturals, Sequences, FiniteSets, TLC, Json

CONSTANTS Docs, Root, MaxOps, Mech

VARIABLES disk, open, ed, inc, dinc, known, h
vars == <<disk, open, ed, inc, dinc, known, h>>

View(u) == IF open[u] THEN ed[u] ELSE disk[u]
Tree == {Root} \cup (IF open[Root] THEN inc ELSE dinc)

Init == /\ disk = [u \in Docs |-> 1] /\ open = [u \in Docs |-> TRUE] /\ ed = [u \in Docs |-> 1]
        /\ inc = Docs \ {Root} /\ dinc = Docs \ {Root}
        /\ known = [u \in Docs |-> 1] /\ h = <<>>

More == Len(h) < MaxOps
Log(e) == h' = Append(h, e)

(* the workspace follows members only *)
Tell(u, v) == IF u \in Tree THEN [known EXCEPT ![u] = v] ELSE known
(* documents that join the tree by this step (none of them is changed by the step itself) are fetched *)
Fetch(u) == IF Mech = "join-reads-file" THEN disk[u] ELSE View(u)
Joining(k, tree2) == [u \in Docs |-> IF u \in tree2 /\ u \notin Tree THEN Fetch(u) ELSE k[u]]

Change(u) == /\ More /\ open[u]
             /\ ed' = [ed EXCEPT ![u] = @ + 1]
             /\ known' = Tell(u, ed[u] + 1)
             /\ Log([op |-> "change", uri |-> u]) /\ UNCHANGED <<disk, open, inc, dinc>>

(* a change of Root that adds / removes the directive `include u` *)
Link(u) == /\ More /\ open[Root] /\ u # Root /\ u \notin inc
           /\ inc' = inc \cup {u}
           /\ ed' = [ed EXCEPT ![Root] = @ + 1]
           /\ known' = Joining(Tell(Root, ed[Root] + 1), {Root} \cup inc')
           /\ Log([op |-> "link", uri |-> u]) /\ UNCHANGED <<disk, open, dinc>>

Unlink(u) == /\ More /\ open[Root] /\ u \in inc
             /\ inc' = inc \ {u}
             /\ ed' = [ed EXCEPT ![Root] = @ + 1]
             /\ known' = Tell(Root, ed[Root] + 1)
             /\ Log([op |-> "unlink", uri |-> u]) /\ UNCHANGED <<disk, open, dinc>>

Save(u) == /\ More
           /\ disk' = [disk EXCEPT ![u] = ed[u]]
           /\ dinc' = IF u = Root THEN inc ELSE dinc
           \* open: the buffer it already knows; closed: the file as written (for a closed Root the tree becomes the editor's)
           /\ known' = Joining(Tell(u, ed[u]), {Root} \cup (IF u = Root /\ ~open[Root] THEN inc ELSE Tree \ {Root}))
           /\ Log([op |-> "save", uri |-> u]) /\ UNCHANGED <<open, ed, inc>>

Close(u) == /\ More /\ open[u]
            /\ open' = [open EXCEPT ![u] = FALSE]
            /\ known' = IF Mech = "close-ignored" THEN known
                         ELSE Joining(Tell(u, disk[u]), {Root} \cup (IF u = Root THEN dinc ELSE Tree \ {Root}))
            /\ Log([op |-> "close", uri |-> u]) /\ UNCHANGED <<disk, ed, inc, dinc>>

Open(u) == /\ More /\ ~open[u]
           /\ open' = [open EXCEPT ![u] = TRUE]
           /\ known' = IF Mech = "open-ignored" THEN known
                        ELSE Joining(Tell(u, ed[u]), {Root} \cup (IF u = Root THEN inc ELSE Tree \ {Root}))
           /\ Log([op |-> "open", uri |-> u]) /\ UNCHANGED <<disk, ed, inc, dinc>>

Next == \E u \in Docs : Change(u) \/ Save(u) \/ Close(u) \/ Open(u) \/ Link(u) \/ Unlink(u)
Spec == Init /\ [][Next]_vars

(* the contract: after every notification the server knows exactly the view of every document of the journal *)
KnownIsView == \A u \in Tree : known[u] = View(u)

TypeOK == \A u \in Docs : disk[u] <= ed[u] /\ ed[u] >= 1

Emit == (Len(h) = MaxOps) => PrintT(ToJson([ops |-> h, disk |-> disk, open |-> open, ed |-> ed, inc |-> inc, dinc |-> dinc]))
=============================================================================
