--------------------------- MODULE IncludeGlobHist ---------------------------
(***************************************************************************)
(* C11 -- histories in which the SET OF FILES changes under a glob.        *)
(*                                                                         *)
(* f1.journal (the root) says `include sub/*.journal` and `include         *)
(* f2.journal`; f2.journal says `include sub/*.journal` as well (every     *)
(* matched file is reached along two paths).  sub/ holds f3.journal and    *)
(* f4.journal, each of which may or may not exist.  The loader is told     *)
(* about every change of a file (InvalidateFile of that file -- what the   *)
(* server does on didOpen / didSave / didClose), never about directories.  *)
(*                                                                         *)
(* Contract (as in MCIncludeHist): the loader has no observable memory --  *)
(* Load(1) = the root, f2 and exactly the files that exist in sub/ NOW, at *)
(* their current versions.  `globmemo` is the design hazard: a mechanism   *)
(* that remembers what a pattern expanded to must forget it whenever a     *)
(* file the pattern COULD match is invalidated, not only a file it DID     *)
(* match (Mech = "matched-only" violates NoStaleExpansion).                *)
(***************************************************************************)
EXTENDS Naturals, Sequences, FiniteSets, TLC, Json

CONSTANTS MaxOps, Mech

Sub == {3, 4}

VARIABLES present, ver, memo, h
vars == <<present, ver, memo, h>>

SetToSeq(S) == IF 3 \in S THEN (IF 4 \in S THEN <<3, 4>> ELSE <<3>>) ELSE (IF 4 \in S THEN <<4>> ELSE <<>>)

Init == /\ present \in SUBSET Sub /\ ver = [f \in 2..4 |-> 1]
        /\ memo = <<>>                    \* <<>> nothing remembered, or <<S>>: the pattern expanded to S at the last load
        /\ h = << [op |-> "init", present |-> SetToSeq(present)] >>

More == Len(h) <= MaxOps

Expansion == IF Len(memo) = 1 THEN memo[1] ELSE present     \* what a load through the pattern resolves to

Load == /\ More
        /\ h' = Append(h, [op |-> "load", expect |-> SetToSeq(present), versions |-> ver])
        /\ memo' = IF Expansion = {} THEN <<>> ELSE <<Expansion>>
        /\ UNCHANGED <<present, ver>>

Forget(f) == IF Mech = "matched-only" /\ Len(memo) = 1 /\ f \notin memo[1] THEN memo ELSE <<>>

Create(f) == /\ More /\ f \notin present
             /\ present' = present \cup {f} /\ ver' = [ver EXCEPT ![f] = @ + 1]
             /\ memo' = Forget(f)
             /\ h' = Append(h, [op |-> "create", file |-> f, ver |-> ver[f] + 1])

Remove(f) == /\ More /\ f \in present
             /\ present' = present \ {f} /\ memo' = Forget(f)
             /\ h' = Append(h, [op |-> "remove", file |-> f]) /\ UNCHANGED ver

Edit(f) == /\ More /\ (f = 2 \/ f \in present)
           /\ ver' = [ver EXCEPT ![f] = @ + 1] /\ memo' = IF f = 2 THEN memo ELSE Forget(f)
           /\ h' = Append(h, [op |-> "edit", file |-> f, ver |-> ver[f] + 1]) /\ UNCHANGED present

Clear == /\ More /\ memo' = <<>> /\ h' = Append(h, [op |-> "clear"]) /\ UNCHANGED <<present, ver>>

Next == Load \/ Clear \/ \E f \in Sub : Create(f) \/ Remove(f) \/ Edit(f)
        \/ Edit(2)
Spec == Init /\ [][Next]_vars

(* whatever is remembered about the pattern is what the pattern matches now *)
NoStaleExpansion == Len(memo) = 1 => memo[1] = present

Emit == (Len(h) = MaxOps + 1) => PrintT(ToJson([h |-> h]))
=============================================================================
