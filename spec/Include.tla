------------------------------- MODULE Include -------------------------------
(***************************************************************************)
(* Contract for include resolution (properties C10, C11; scope rule used   *)
(* by C09, C18, C20).                                                      *)
(*                                                                         *)
(* Files are 1..N.  disk[f] is the sequence of include directives of file  *)
(* f in source order.  A directive is a sequence of targets: a plain       *)
(* directive has exactly one target, a glob directive has the sorted list  *)
(* of files it matches minus the including file (possibly empty).  Target  *)
(* 0 is a path with no file behind it.                                     *)
(*                                                                         *)
(* Resolve is the canonical depth-first resolution with an ancestor stack: *)
(* the meaning of "a file that is currently being included".               *)
(***************************************************************************)
EXTENDS Naturals, Sequences, FiniteSets

CONSTANTS N,        \* files are 1..N
          Big       \* subset of 1..N : files over the size limit

Files   == 1..N
Targets == 0..N
NoFile  == 0

RangeOf(s) == { s[i] : i \in 1..Len(s) }

EmptyResult == [loaded |-> {}, order |-> <<>>, diags |-> {}]

(* A diagnostic is <<file, directive index, target, kind>>. *)
RECURSIVE Visit(_, _, _, _, _), EachDir(_, _, _, _, _, _), EachTgt(_, _, _, _, _, _, _)

Visit(d, f, stack, st, lim) ==
    EachDir(d, f, 1, Append(stack, f),
            [st EXCEPT !.loaded = @ \cup {f}, !.order = Append(@, f)], lim)

EachDir(d, f, i, stack, st, lim) ==
    IF i > Len(d[f]) THEN st
    ELSE IF Len(d[f][i]) = 0
         THEN EachDir(d, f, i + 1, stack,
                      [st EXCEPT !.diags = @ \cup {<<f, i, NoFile, "nomatch">>}], lim)
         ELSE EachDir(d, f, i + 1, stack, EachTgt(d, f, i, 1, stack, st, lim), lim)

EachTgt(d, f, i, k, stack, st, lim) ==
    IF k > Len(d[f][i]) THEN st ELSE
    LET g == d[f][i][k]
        Diag(kind) == [st EXCEPT !.diags = @ \cup {<<f, i, g, kind>>}]
        next(s) == EachTgt(d, f, i, k + 1, stack, s, lim)
    IN  IF g \in RangeOf(stack)      THEN next(Diag("cycle"))    \* re-enters a file being included
        ELSE IF g \in st.loaded      THEN next(st)               \* second acyclic path: silent, once
        ELSE IF g = NoFile           THEN next(Diag("missing"))
        ELSE IF g \in Big            THEN next(Diag("toolarge"))
        ELSE IF Len(stack) >= lim    THEN next(Diag("depth"))
        ELSE next(Visit(d, g, stack, st, lim))

Resolve(d, r, lim) == Visit(d, r, <<>>, EmptyResult, lim)

(***************************************************************************)
(* Graph notions used to state what Resolve must satisfy.                  *)
(***************************************************************************)
Succ(d, f) == UNION { RangeOf(d[f][i]) : i \in 1..Len(d[f]) } \ {NoFile}

RECURSIVE ReachFrom(_, _, _)
ReachFrom(d, S, ok) ==
    LET S2 == S \cup UNION { Succ(d, f) \cap ok : f \in S }
    IN  IF S2 = S THEN S ELSE ReachFrom(d, S2, ok)

Loadable == Files \ Big

(* Is there a directed cycle through files reachable from r (loadable only)? *)
HasReachableCycle(d, r) ==
    LET R == ReachFrom(d, {r}, Loadable)
    IN  \E f \in R : \E g \in (Succ(d, f) \cap Loadable) : f \in ReachFrom(d, {g}, Loadable)

(***************************************************************************)
(* Theorems about the contract itself, checked by TLC on every graph the   *)
(* configurations enumerate (depth unlimited: lim > N).                    *)
(***************************************************************************)
ContractOK(d, r) ==
    LET res == Resolve(d, r, N + 1)
        cyc == { x \in res.diags : x[4] = "cycle" }
    IN  /\ res.loaded = ReachFrom(d, {r}, Loadable)                 \* exactly the reachable files
        /\ Len(res.order) = Cardinality(res.loaded)                 \* each once
        /\ RangeOf(res.order) = res.loaded
        /\ (cyc # {}) <=> HasReachableCycle(d, r)                   \* cycle verdicts exact
        /\ \A x \in cyc : x[1] \in ReachFrom(d, {x[3]}, Loadable)   \* only on back edges
        /\ \A x \in res.diags : x[4] # "depth"
=============================================================================
