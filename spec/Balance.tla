------------------------------- MODULE Balance -------------------------------
(***************************************************************************)
(* C02: exact unbalanced-transaction verdicts.                             *)
(*                                                                         *)
(* For a transaction choice t (Journal.tla) the contract computes, with    *)
(* exact scaled-integer arithmetic at scale S = 2 (every value this module *)
(* generates has at most two decimals after cost conversion):              *)
(*   Inferred(t)   number of ordinary/bracketed postings without amount    *)
(*   Residual(t)   commodity -> signed sum, costed amounts converted to    *)
(*                 their cost commodity (unit cost multiplies, total cost  *)
(*                 replaces; the posting's sign is kept)                   *)
(*   Verdict(t)    "multi" | "unbalanced" | "ok"                           *)
(* Generated transactions stay inside C02's quantifier: no transaction     *)
(* whose uncosted amounts use exactly two commodities (hledger would infer *)
(* a price), unit-costed postings carry integer quantities (no residual    *)
(* below the written precision), costs are positive.                       *)
(***************************************************************************)
EXTENDS JournalGen

(* the family "bal-threedec" works at scale 3: quantities with exactly three decimals (0.125, -0.125, 1234.567) are where
   number reading is most fragile (one mark followed by three digits) *)
S == IF Family = "bal-threedec" THEN 3 ELSE 2

Counted(t) == SelectSeq(RealPosts(t), LAMBDA p : p.kind \in {"real", "bracket"})
Inferred(t) == Len(SelectSeq(Counted(t), LAMBDA p : Len(p.amt) = 0))

Signed(a) == IF a.neg THEN 0 - a.m ELSE a.m
AtS(m, sc) == m * Pow10(S - sc)                       \* sc <= S for every generated value

(* contribution of one posting: <<commodity symbol, signed value at scale S>> *)
Contribution(p) ==
    LET a == p.amt[1] IN
    IF Len(p.cost) = 0 THEN << AbsAmount(a).comm, AtS(Signed(a), a.sc) >>
    ELSE LET c == p.cost[1].a
             mag == IF p.cost[1].total THEN AtS(c.m, c.sc)
                    ELSE AtS(a.m * c.m, a.sc + c.sc)     \* |quantity| * unit cost
         IN << AbsAmount(c).comm, IF a.neg THEN 0 - mag ELSE mag >>

Contribs(t) == LET ps == SelectSeq(Counted(t), LAMBDA p : Len(p.amt) = 1)
               IN [i \in 1..Len(ps) |-> Contribution(ps[i])]

CommsOfC(cs) == { cs[i][1] : i \in 1..Len(cs) }
CommsOf(t) == CommsOfC(Contribs(t))
RECURSIVE SumFor(_, _, _)
SumFor(cs, c, i) == IF i > Len(cs) THEN 0 ELSE (IF cs[i][1] = c THEN cs[i][2] ELSE 0) + SumFor(cs, c, i + 1)
Residual(t) == LET cs == Contribs(t) IN [c \in CommsOfC(cs) |-> SumFor(cs, c, 1)]

Abs(n) == IF n < 0 THEN 0 - n ELSE n

(* what the diagnostics must say: verdict and commodity -> |residual| as [mant, scale] *)
Expected(t) ==
    LET cs  == Contribs(t)
        inf == Inferred(t)
        nz  == { c \in CommsOfC(cs) : SumFor(cs, c, 1) # 0 }
        v   == IF inf > 1 THEN "multi" ELSE IF inf = 1 THEN "ok" ELSE IF nz # {} THEN "unbalanced" ELSE "ok"
    IN [verdict |-> v,
        residuals |-> IF v = "unbalanced" THEN [c \in nz |-> [mant |-> Abs(SumFor(cs, c, 1)), scale |-> S]] ELSE <<>>]
Verdict(t) == Expected(t).verdict

(* ---- inside the quantifier ------------------------------------------------------------------ *)
UncostedComms(t) == { AbsAmount(p.amt[1]).comm : p \in { Counted(t)[i] : i \in { j \in 1..Len(Counted(t)) : Len(Counted(t)[j].amt) = 1 /\ Len(Counted(t)[j].cost) = 0 } } }
HasCost(t) == \E i \in 1..Len(Counted(t)) : Len(Counted(t)[i].cost) = 1
InQuantifier(t) ==
    /\ \A i \in 1..Len(t.posts) : IsCLine(t.posts[i]) \/
          (LET p == t.posts[i] IN
             /\ Len(p.amt) = 1 => p.amt[1].sc <= S
             /\ Len(p.cost) = 1 => (p.cost[1].a.sc <= S /\ p.cost[1].a.m > 0 /\
                                    (~p.cost[1].total => p.amt[1].sc = 0) /\
                                    AbsAmount(p.cost[1].a).comm # AbsAmount(p.amt[1]).comm))
    /\ ~(Cardinality(UncostedComms(t)) = 2 /\ ~HasCost(t) /\ Inferred(t) = 0)   \* hledger would infer a price
    /\ Cardinality(UncostedComms(t)) <= 3

(* ---- families -------------------------------------------------------------------------------- *)
NegOf(a, delta) ==   \* the exact negation of amount a plus delta units of its last written digit, canonically spelled
    LET v == (0 - Signed(a)) + delta IN
    [neg |-> v < 0, m |-> Abs(v), sc |-> a.sc, n |-> IF a.sc = 3 THEN "exp" ELSE "point", comm |-> a.comm,
     side |-> IF a.comm = 0 THEN "R" ELSE "R", sp |-> a.comm # 0, sgn |-> "before", plus |-> FALSE]

BalAmounts(u) == { a \in AllAmounts(0) : a.sc <= S /\ (Family = "bal-threedec" => a.sc = 3) /\ (a.comm # 0 => CommoditiesX[a.comm].k # "lower") }

NotationKeys(u) == (0..Len(Commodities)) \X {0, 1}
FamNotationPart(key) ==
    { Case(Family, "", << [BaseTx EXCEPT !.posts = << [BaseTx.posts[1] EXCEPT !.amt = <<a>>],
                                                              [BaseTx.posts[2] EXCEPT !.amt = <<NegOf(a, key[2])>>] >>] >>) :
          a \in { x \in BalAmounts(0) : x.comm = key[1] } }

(* 7 does not divide the total cost 300: a rule that goes through a per-unit price (300 / 7) has to round *)
SmallAmts(u) == { [Amt(m, 0, c) EXCEPT !.neg = n] : m \in {1, 2, 7, 150}, c \in {0, 1, 4}, n \in BOOLEAN }
SmallPosts(u) == { [BaseTx.posts[1] EXCEPT !.kind = k, !.amt = a, !.cost = c] :
                   k \in {"real", "paren", "bracket"},
                   a \in {<<>>} \cup { <<x>> : x \in SmallAmts(0) },
                   c \in {<<>>, <<[total |-> FALSE, a |-> Amt(2, 0, 5)]>>, <<[total |-> TRUE, a |-> Amt(300, 0, 5)]>>} }
(* an amount-less parenthesised posting ("(tracking:note)") is not "such a posting": it neither absorbs a remainder nor
   counts as a missing amount *)
GoodSmall(u) == { p \in SmallPosts(0) : Len(p.amt) = 0 => Len(p.cost) = 0 }
(* partitioned by the first posting so that TLC's workers share the enumeration (stage 0 -> 1) *)
SmallKeys(u) == GoodSmall(0)
FamSmallPart(p) ==
    { Case("bal-small", "", << [BaseTx EXCEPT !.posts = ps] >>) : ps \in { <<>>, <<p>> } \cup { <<p, q>> : q \in GoodSmall(0) } }

(* random transactions, half of them closed by an exactly balancing posting *)
ValuesB == { <<1, 0>>, <<5, 0>>, <<100, 0>>, <<2500, 0>>, <<1050, 2>>, <<99, 2>>, <<123456, 2>>, <<1234567, 0>> }
CostVals == { <<2, 0>>, <<15, 1>>, <<99, 2>>, <<1050, 2>> }
QtyVals  == { <<1, 0>>, <<5, 0>>, <<100, 0>>, <<2500, 0>>, <<3, 0>>, <<7, 0>> }
BalComms == {0, 1, 2, 4, 5, 7}

RandBalPost(x, comm) ==
    LET kind == Pick({"real", "real", "real", "bracket", "paren"})
        bare == kind = "paren" /\ Coin(3, x + 2)         \* a third of the parenthesised postings carry no amount
        costed == ~bare /\ Coin(4, x)
        a == RandAmtIn(x, IF costed THEN QtyVals ELSE ValuesB, {comm})
    IN [ind |-> Pick({2, 4}), st |-> Pick({"", "", "*"}), kind |-> kind,
        acct |-> Pick(1..Len(Accounts)), gap |-> 2, amt |-> IF bare THEN <<>> ELSE <<a>>,
        cost |-> IF costed THEN <<[total |-> Coin(2, x), a |-> [RandAmtIn(x + 1, CostVals, BalComms \ {comm, 0}) EXCEPT !.neg = FALSE, !.plus = FALSE]]>> ELSE <<>>,
        asrt |-> <<>>, cmt |-> IF Coin(6, x) THEN <<RandCmt(x)>> ELSE <<>>]

(* Stage 1 draws open transactions plus, for each, how it is to be closed; the draw is stored in the
   state (and thereby fixed).  Stage 2 closes each transaction deterministically from the stored draw:
   with an amount-less posting, with two of them, with the exactly balancing amount, or with an
   amount that is off by a drawn delta. *)
RandOpenTx(x) ==
    LET k  == Pick(0..5)
        c1 == Pick(BalComms)
        c2 == Pick(BalComms)
    IN [tx |-> [BaseTx EXCEPT !.date = RandDate(x), !.desc = Text(Pick(1..Len(Descriptions))),
                              !.posts = [i \in 1..k |-> RandBalPost(x + 7 * i, IF Coin(3, x + i) THEN c2 ELSE c1)]],
        close |-> Pick({"none", "infer", "infer2", "exact", "off"}),
        delta |-> Pick({1, 100, 0 - 7}),
        nota  |-> Pick(Notations)]

CloseTx(o) ==
    LET t0 == o.tx
        cs == Contribs(t0)
        comms == CommsOfC(cs)
        inferred == BaseTx.posts[2]
    IN CASE o.close = "infer"  -> [t0 EXCEPT !.posts = @ \o <<inferred>>]
         [] o.close = "infer2" -> [t0 EXCEPT !.posts = <<inferred>> \o @ \o <<[inferred EXCEPT !.acct = 5]>>]
         [] o.close \in {"exact", "off"} /\ Cardinality(comms) = 1 ->
               LET rc  == CHOOSE c \in comms : TRUE
                   idx == CHOOSE k \in 0..Len(Commodities) : (IF k = 0 THEN "" ELSE CommoditiesX[k].sym) = rc
                   v   == (0 - SumFor(cs, rc, 1)) + (IF o.close = "off" THEN o.delta ELSE 0)
                   nn  == IF NotationOK(Abs(v), S, o.nota) THEN o.nota ELSE "point"
               IN [t0 EXCEPT !.posts = @ \o << [inferred EXCEPT !.amt = << [neg |-> v < 0, m |-> Abs(v), sc |-> S, n |-> nn, comm |-> idx,
                                                                             side |-> "R", sp |-> idx # 0, sgn |-> "before", plus |-> FALSE] >>] >>]
         [] OTHER -> t0

(* ---- one-step behaviour ---------------------------------------------------------------------- *)
Keys(u) == CASE Family \in {"bal-notation", "bal-threedec"} -> NotationKeys(0)
          [] Family = "bal-small"    -> SmallKeys(0)
          [] OTHER                   -> {0}
Part(key) == CASE Family \in {"bal-notation", "bal-threedec"} -> FamNotationPart(key)
               [] Family = "bal-small"    -> { k \in FamSmallPart(key) : InQuantifier(k.es[1]) }
               [] OTHER                   -> {}

BInit == stg = 0 /\ cas \in Keys(0)
BNext == \/ /\ stg = 0 /\ Family # "bal-random"
            /\ stg' = 2
            /\ cas' \in Part(cas)
         \/ /\ stg = 0 /\ Family = "bal-random"
            /\ stg' = 1
            /\ cas' = [open |-> [i \in 1..RandomElement(1..MaxEntries) |-> RandOpenTx(stg + 1000 * i)],
                       eol |-> Pick({"LF", "LF", "CRLF"}), final |-> ~Coin(5, stg)]
         \/ /\ stg = 1
            /\ stg' = 2
            /\ cas' = [fam |-> "bal-random", trig |-> "", eol |-> cas.eol, final |-> cas.final,
                       es |-> SelectSeq([i \in 1..Len(cas.open) |-> CloseTx(cas.open[i])], LAMBDA t : TxOK(t) /\ InQuantifier(t))]

BOut(k) == LET r == Rendered(k.es) IN
           [fam |-> k.fam, trig |-> k.trig, eol |-> k.eol, final |-> k.final, lines |-> r.lines, firsts |-> r.firsts,
            expect |-> [i \in 1..Len(k.es) |-> Expected(k.es[i])],
            inq |-> \A i \in 1..Len(k.es) : InQuantifier(k.es[i])]

BEmit == (stg = 2) => (Len(cas.es) > 0 => PrintT(ToJson(BOut(cas))))

(* theorems about the contract on everything generated: residuals of a balanced transaction are all zero,
   an inferred posting makes any residual irrelevant *)
BTheorems == (stg = 2) => \A i \in 1..Len(cas.es) :
                LET t == cas.es[i] IN
                /\ Verdict(t) = "ok" /\ Inferred(t) = 0 => \A k \in CommsOf(t) : Residual(t)[k] = 0
                /\ Verdict(t) = "unbalanced" => Inferred(t) = 0
=============================================================================
