------------------------------ MODULE Settings ------------------------------
(***************************************************************************)
(* C19: configuration as a total state machine.                            *)
(*                                                                         *)
(* State: one value per documented setting (Fields).  A payload is any     *)
(* JSON value; object payloads carry entries [key, form, cls] where `form` *)
(* is the nested {"group":{"name":v}} or the dotted {"group.name":v}       *)
(* spelling, optionally wrapped in {"hledger": ...}, and `cls` is one of   *)
(* the value classes below.  Contract (next-state function Apply):         *)
(*   recognised key, well-typed value      -> the value takes effect       *)
(*   number <= 0 for a numeric setting     -> the default                  *)
(*   empty string for cli.path             -> the default                  *)
(*   unknown key / ill-typed value         -> previous value unchanged     *)
(*   non-object payload                    -> nothing changes              *)
(* and never a failure.  Initialisation applies its payload to the         *)
(* defaults and fixes the advertised capabilities from features.*.         *)
(***************************************************************************)
EXTENDS Naturals, Sequences, FiniteSets, TLC, Json

CONSTANTS MaxOps, KeySet, Rand, Overlap, Pairs    \* Overlap: two payloads on DIFFERENT fields whose refreshes overlap in time (either order of application gives the same state); Pairs: two payloads that spell the SAME field (the second meets a non-default previous value)

BoolFields == {"features.hover", "features.completion", "features.formatting", "features.diagnostics",
               "features.semanticTokens", "features.codeActions", "features.foldingRanges", "features.documentLinks",
               "features.workspaceSymbol", "features.inlineCompletion", "completion.fuzzyMatching", "completion.showCounts",
               "diagnostics.undeclaredAccounts", "diagnostics.undeclaredCommodities", "diagnostics.unbalancedTransactions",
               "formatting.alignAmounts", "cli.enabled"}
IntFields  == {"completion.maxResults", "formatting.indentSize", "formatting.minAlignmentColumn", "cli.timeout",
               "limits.maxFileSizeBytes", "limits.maxIncludeDepth"}
StrFields  == {"cli.path"}
Fields     == BoolFields \cup IntFields \cup StrFields

(* keys a payload may spell: every field, one documented alias, one unknown key *)
Alias   == "limits.maxFileSize"
Unknown == "bogus.key"
Keys    == Fields \cup {Alias, Unknown}
FieldOf(k) == IF k = Alias THEN "limits.maxFileSizeBytes" ELSE k

Default == [f \in Fields |->
    CASE f = "completion.maxResults"         -> 50
      [] f = "formatting.indentSize"         -> 4
      [] f = "formatting.minAlignmentColumn" -> 0
      [] f = "cli.timeout"                   -> 30000
      [] f = "limits.maxFileSizeBytes"       -> 10485760
      [] f = "limits.maxIncludeDepth"        -> 50
      [] f = "cli.path"                      -> "hledger"
      [] OTHER                               -> TRUE]

(* value classes: the JSON text is what the replay embeds in the payload *)
Classes == {"posint", "zero", "neg", "floatint", "decstr", "junk", "true", "false", "strTRUE", "strfalse", "null", "array", "object", "emptystr",
            "str1", "str0", "strt", "negfloat"}      \* strings that other languages read as booleans; a numeric string / a float that is not positive
JsonOf(c) == CASE c = "posint" -> "70" [] c = "zero" -> "0" [] c = "neg" -> "-3" [] c = "floatint" -> "120.0"
               [] c = "decstr" -> "\"90\"" [] c = "junk" -> "\"abc\"" [] c = "true" -> "true" [] c = "false" -> "false"
               [] c = "strTRUE" -> "\"TRUE\"" [] c = "strfalse" -> "\" false \"" [] c = "null" -> "null"
               [] c = "array" -> "[1]" [] c = "object" -> "{\"a\":1}"
               [] c = "str1" -> "\"1\"" [] c = "str0" -> "\"0\"" [] c = "strt" -> "\"t\"" [] c = "negfloat" -> "-2.0" [] OTHER -> "\"\""

(* the value a field takes when key k carries class c; `old` when the entry must be ignored *)
Effect(f, c, old) ==
    IF f \in BoolFields THEN
        CASE c \in {"true", "strTRUE"}   -> TRUE
          [] c \in {"false", "strfalse"} -> FALSE
          [] OTHER                       -> old
    ELSE IF f \in IntFields THEN
        CASE c = "posint"          -> 70
          [] c = "floatint"        -> 120
          [] c = "decstr"          -> 90
          [] c = "str1"            -> 1
          [] c \in {"zero", "neg", "str0", "negfloat"} -> Default[f]
          [] OTHER                 -> old
    ELSE \* cli.path
        CASE c = "junk"     -> "abc"
          [] c = "decstr"   -> "90"
          [] c = "strTRUE"  -> "TRUE"
          [] c = "strfalse" -> " false "
          [] c = "str1"     -> "1"
          [] c = "str0"     -> "0"
          [] c = "strt"     -> "t"
          [] c = "emptystr" -> Default[f]
          [] OTHER          -> old

Entry == [key : Keys \cap KeySet, form : {"nested", "dotted"}, cls : Classes]

RECURSIVE ApplyEntries(_, _)
ApplyEntries(s, es) ==
    IF Len(es) = 0 THEN s
    ELSE LET e == es[1] IN
         IF e.key = Unknown THEN ApplyEntries(s, Tail(es))
         ELSE LET f == FieldOf(e.key) IN ApplyEntries([s EXCEPT ![f] = Effect(f, e.cls, s[f])], Tail(es))

Shapes == {"object", "number", "string", "array", "null"}
Apply(s, p) == IF p.shape = "object" THEN ApplyEntries(s, p.entries) ELSE s

(* one payload never spells the same field twice (the statement does not say which spelling wins) *)
DistinctFields(es) == \A i, j \in 1..Len(es) : i # j => FieldOf(es[i].key) # FieldOf(es[j].key)

VARIABLES st, caps, h
vars == <<st, caps, h>>

CapsOf(s) == [f \in { g \in BoolFields : SubSeq(g, 1, 9) = "features." } |-> s[f]]

Init == st = Default /\ caps = CapsOf(Default) /\ h = <<>>

Step(p) ==
    /\ Len(h) < MaxOps
    /\ p.shape = "object" => DistinctFields(p.entries)
    /\ st' = Apply(st, p)
    /\ caps' = IF Len(h) = 0 THEN CapsOf(Apply(st, p)) ELSE caps      \* the first payload arrives with initialize
    /\ h' = Append(h, [via |-> IF Len(h) = 0 THEN "init" ELSE "change", payload |-> p, expect |-> Apply(st, p),
                       caps |-> IF Len(h) = 0 THEN CapsOf(Apply(st, p)) ELSE caps])

Payload1 == { [shape |-> "object", wrapper |-> w, entries |-> <<e>>] : w \in BOOLEAN, e \in Entry }
             \cup { [shape |-> s, wrapper |-> FALSE, entries |-> <<>>] : s \in Shapes \ {"object"} }

(* The dummy parameters keep TLC from caching these as constants: each use draws afresh. *)
RandEntry(i) == [key |-> RandomElement(Keys \cap KeySet), form |-> RandomElement({"nested", "dotted"}), cls |-> RandomElement(Classes)]
RandPayload(k) ==
    LET n == RandomElement(0..3) IN
    IF RandomElement(1..8) = 1 THEN [shape |-> RandomElement(Shapes \ {"object"}), wrapper |-> FALSE, entries |-> <<>>]
    ELSE [shape |-> "object", wrapper |-> RandomElement(BOOLEAN), entries |-> [i \in 1..n |-> RandEntry(i + k)]]

(* value classes that move a field away from its default (the first payload of a pair) *)
SetClasses == {"posint", "decstr", "false", "strfalse", "junk", "true"}

VARIABLE drawn
Next == IF Rand THEN /\ drawn' = RandPayload(Len(h))
                     /\ Step(drawn')
        ELSE IF Overlap THEN
             /\ drawn' = drawn
             /\ \E p \in { q \in Payload1 : q.shape = "object" /\ ~q.wrapper /\ q.entries[1].cls \in SetClasses /\ q.entries[1].key # Unknown } :
                   /\ Len(h) = 1 => FieldOf(p.entries[1].key) # FieldOf(h[1].payload.entries[1].key)
                   /\ Step(p)
        ELSE IF Pairs THEN
             /\ drawn' = drawn
             /\ \E p \in { q \in Payload1 : q.shape = "object" /\ ~q.wrapper } :
                   /\ Len(h) = 0 => p.entries[1].cls \in SetClasses
                   /\ Len(h) = 1 => FieldOf(p.entries[1].key) = FieldOf(h[1].payload.entries[1].key)
                   /\ Step(p)
        ELSE /\ drawn' = drawn
             /\ \E p \in Payload1 : Step(p)

Spec == (Init /\ drawn = 0) /\ [][Next]_<<vars, drawn>>

(* ---- algebra of the contract, checked by TLC --------------------------------------- *)
TypeOK == /\ \A f \in BoolFields : st[f] \in BOOLEAN
          /\ \A f \in IntFields : st[f] \in Nat /\ (f # "formatting.minAlignmentColumn" => st[f] > 0)
          /\ st["cli.path"] # ""
(* re-applying the payload just applied changes nothing *)
Idempotent == Len(h) > 0 => Apply(st, h[Len(h)].payload) = st
(* a payload touches only the fields it spells *)
Frame == Len(h) > 1 =>
            LET p == h[Len(h)].payload
                touched == IF p.shape = "object" THEN { FieldOf(p.entries[i].key) : i \in 1..Len(p.entries) } ELSE {}
            IN \A f \in Fields \ touched : st[f] = h[Len(h) - 1].expect[f]

Emit == (Len(h) = MaxOps) => PrintT(ToJson([h |-> h, json |-> [c \in Classes |-> JsonOf(c)]]))
=============================================================================
