------------------------------- MODULE Lexer -------------------------------
(***************************************************************************)
(* C06, tokenisation clause -- a contract MONITOR for token streams        *)
(* recorded from the real lexer (code -> spec direction).                  *)
(*                                                                         *)
(* "Tokens cover the input left to right without overlap, stay inside it   *)
(* and end with end-of-input; tokenisation always makes progress."         *)
(*                                                                         *)
(* State: the length of the input being tokenised, where the previous      *)
(* token ended, whether end-of-input has been delivered, how many tokens   *)
(* were delivered.  A recorded trace is a sequence of events               *)
(*    [e |-> "input", len]      a new input starts (the previous one must  *)
(*                              have ended with end-of-input)              *)
(*    [e |-> "tok", t, p, q]    the next token: type, byte offsets [p, q)  *)
(* The trace is accepted iff every event is a step the contract allows.    *)
(* Many traces are concatenated; "input" doubles as the reset action.      *)
(***************************************************************************)
EXTENDS Integers, Sequences, TLC, Json

CONSTANT TraceFile
Trace == ndJsonDeserialize(TraceFile)

VARIABLES l, inputLen, prevEnd, sawEOF, ntok
vars == <<l, inputLen, prevEnd, sawEOF, ntok>>

Init == l = 1 /\ inputLen = 0 /\ prevEnd = 0 /\ sawEOF = TRUE /\ ntok = 0

Ev == Trace[l]

NewInput ==
    /\ l <= Len(Trace) /\ Ev.e = "input"
    /\ sawEOF                                   \* the previous input was tokenised to its end
    /\ inputLen' = Ev.len /\ prevEnd' = 0 /\ sawEOF' = FALSE /\ ntok' = 0 /\ l' = l + 1

Token ==
    /\ l <= Len(Trace) /\ Ev.e = "tok" /\ Ev.t # "EOF"
    /\ ~sawEOF                                  \* nothing after end-of-input
    /\ Ev.p >= prevEnd                          \* left to right, no overlap
    /\ Ev.p <= Ev.q /\ Ev.q <= inputLen        \* inside the input
    /\ Ev.q > prevEnd                           \* progress: every token consumes something
    /\ ntok < 2 * inputLen + 2                  \* hence a bound on the number of tokens
    /\ prevEnd' = Ev.q /\ ntok' = ntok + 1 /\ l' = l + 1 /\ UNCHANGED <<inputLen, sawEOF>>

EndOfInput ==
    /\ l <= Len(Trace) /\ Ev.e = "tok" /\ Ev.t = "EOF"
    /\ ~sawEOF
    /\ Ev.p = inputLen /\ Ev.q = inputLen      \* end-of-input is AT the end of the input
    /\ Ev.p >= prevEnd
    /\ sawEOF' = TRUE /\ l' = l + 1 /\ UNCHANGED <<inputLen, prevEnd, ntok>>

Next == NewInput \/ Token \/ EndOfInput
Spec == Init /\ [][Next]_vars

TypeOK == l \in 1..(Len(Trace) + 1) /\ prevEnd \in 0..inputLen /\ sawEOF \in BOOLEAN /\ ntok \in Nat
(* high-water mark of consumed events, reported when TLC stops (needs -workers 1) *)
Mark == TLCSet(1, l)
Accepted == /\ PrintT(<<"HIGHWATER", TLCGet(1), Len(Trace)>>)
            /\ TRUE
=============================================================================
