---------------------------- MODULE MCIncludeHist ----------------------------
(***************************************************************************)
(* C11: histories of load / edit+invalidate / clear on ONE shared loader.  *)
(*                                                                         *)
(* Contract: the loader has no observable memory -- Load(r) always returns *)
(* Resolve(disk, r).  The contract state is therefore just the disk.       *)
(* Mechanism variable `cache` (which file versions the loader holds) is    *)
(* carried so that TLC explores the cache states the implementation can be *)
(* in, and to state the design argument for C11: an edit always            *)
(* invalidates, hence a cached entry is never stale (CacheNeverStale).     *)
(*                                                                         *)
(* `h` is the history printed for replay; it is not part of the VIEW in    *)
(* the exhaustive configuration.                                           *)
(***************************************************************************)
EXTENDS Include, TLC, Json, SequencesExt

CONSTANTS Lim,         \* include depth limit the shared loader is configured with (N + 1 = effectively none)
          MaxOps,      \* length of the generated histories
          InitMode,    \* "any" (every disk over Lists) | "menu" (hand-picked shapes)
          EditMode     \* "any" | "menu"

VARIABLES disk, ver, cache, h

vars == <<disk, ver, cache, h>>

SetToSeq1(S) == SetToSortSeq(S, <)
One(a)    == << <<a>> >>
Two(a, b) == << <<a>>, <<b>> >>
Lists == {<<>>} \cup { One(a) : a \in Files } \cup { Two(a, b) : a \in Files, b \in Files }

(* hand-picked shapes on up to 4 files: chain, diamond, cycle, fan *)
Chain   == [f \in Files |-> IF f < N THEN One(f + 1) ELSE <<>>]
Diamond == [f \in Files |-> IF f = 1 THEN Two(2, IF N >= 3 THEN 3 ELSE 2)
                            ELSE IF f \in {2, 3} /\ f < N THEN One(N) ELSE <<>>]
Ring    == [f \in Files |-> One((f % N) + 1)]
MenuDisks == {Chain, Diamond, Ring}
MenuLists(f) == {<<>>, One((f % N) + 1), Two((f % N) + 1, ((f + 1) % N) + 1)}

ResJson(r) == [loaded |-> SetToSeq1(r.loaded), order |-> r.order, diags |-> SetToSeq(r.diags)]

Init == /\ IF InitMode = "any" THEN disk \in [Files -> Lists] ELSE disk \in MenuDisks
        /\ ver = [f \in Files |-> 1]
        /\ cache = [f \in Files |-> 0]
        /\ h = << [op |-> "init", disk |-> disk, lim |-> Lim] >>

More == Len(h) <= MaxOps

(* Load(r): the contract's answer is Resolve on the current disk.  Mechanism: every
   file loaded below the root ends up cached at its current version. *)
Load(r) ==
    /\ More
    /\ LET res == Resolve(disk, r, Lim) IN
       /\ h' = Append(h, [op |-> "load", file |-> r, expect |-> ResJson(res), expect2 |-> ResJson(Resolve(disk, r, Lim + 1))])
       /\ cache' = [f \in Files |-> IF f \in res.loaded \ {r} THEN ver[f] ELSE cache[f]]
    /\ UNCHANGED <<disk, ver>>

(* Edit(f, l): the file is rewritten on disk and the loader is told (InvalidateFile). *)
Edit(f, l) ==
    /\ More
    /\ l # disk[f]
    /\ disk' = [disk EXCEPT ![f] = l]
    /\ ver' = [ver EXCEPT ![f] = @ + 1]
    /\ cache' = [cache EXCEPT ![f] = 0]
    /\ h' = Append(h, [op |-> "edit", file |-> f, list |-> l, ver |-> ver[f] + 1])

Clear ==
    /\ More
    /\ cache' = [f \in Files |-> 0]
    /\ h' = Append(h, [op |-> "clear"])
    /\ UNCHANGED <<disk, ver>>

Next == \/ \E r \in Files : Load(r)
        \/ \E f \in Files : \E l \in (IF EditMode = "any" THEN Lists ELSE MenuLists(f)) : Edit(f, l)
        \/ Clear

Spec == Init /\ [][Next]_vars

CacheNeverStale == \A f \in Files : cache[f] # 0 => cache[f] = ver[f]

Emit == (Len(h) = MaxOps + 1) => PrintT(ToJson(h))
=============================================================================
