------------------------------ MODULE SemTokens ------------------------------
(***************************************************************************)
(* C17 (history part): the semantic-token full / range / delta protocol.   *)
(*                                                                         *)
(* Documents URIs, each holding one of the texts 0..3 (0 = the empty       *)
(* text).  Tok[v] is the token array of text v (abstract stand-ins with    *)
(* the shapes that matter: empty, two arrays of equal length differing in  *)
(* one cell, one longer array).  The client keeps, per document, the array *)
(* it last reconstructed and the result id that came with it, and it       *)
(* remembers every id it has ever seen.                                    *)
(*                                                                         *)
(* Contract: after EVERY reply the client's array for the document equals  *)
(* Tok[current text]  (ClientOK);  a range reply equals the full result    *)
(* restricted to the lines and changes nothing the client holds.           *)
(*                                                                         *)
(* Mechanism (semantic.go): a process-wide counter for result ids and a    *)
(* per-document cache [id, data] written by full and delta requests,       *)
(* untouched by range requests, dropped on close and (repaired code) by    *)
(* the early return for an empty document.  A delta request whose previous id is not   *)
(* the cached id is answered with a full result.                           *)
(***************************************************************************)
EXTENDS Naturals, Sequences, FiniteSets, TLC, Json

CONSTANTS URIs, MaxOps,
          EmptyDropsCache  \* TRUE: the repaired code (an empty document forgets the cached result); FALSE: the pinned code

Texts == 0..3
Tok == [v \in Texts |-> CASE v = 0 -> <<>> [] v = 1 -> <<1, 1>> [] v = 2 -> <<1, 2>> [] v = 3 -> <<1, 1, 3>>]
NoId == 0

VARIABLES text,      \* URI -> current text
          isOpen,    \* URI -> BOOLEAN
          cache,     \* URI -> [id, data]  (id = NoId: nothing cached)
          counter,   \* last result id handed out
          client,    \* URI -> [id, data]  what the client holds
          seen,      \* URI -> set of ids the client has received for that document
          h

vars == <<text, isOpen, cache, counter, client, seen, h>>
view == <<text, isOpen, cache, counter, client, seen>>

None == [id |-> NoId, data |-> <<>>]

Init == /\ text = [u \in URIs |-> 1]
        /\ isOpen = [u \in URIs |-> TRUE]
        /\ cache = [u \in URIs |-> None]
        /\ counter = 0
        /\ client = [u \in URIs |-> None]
        /\ seen = [u \in URIs |-> {}]
        /\ h = <<>>

More == Len(h) < MaxOps
Log(e) == h' = Append(h, e)

Edit(u, v) == /\ More /\ isOpen[u] /\ v # text[u]
              /\ text' = [text EXCEPT ![u] = v]
              /\ Log([op |-> "edit", uri |-> u, text |-> v])
              /\ UNCHANGED <<isOpen, cache, counter, client, seen>>

Close(u) == /\ More /\ isOpen[u]
            /\ isOpen' = [isOpen EXCEPT ![u] = FALSE]
            /\ cache' = [cache EXCEPT ![u] = None]
            /\ client' = [client EXCEPT ![u] = None]      \* a client drops tokens of a closed document
            /\ Log([op |-> "close", uri |-> u])
            /\ UNCHANGED <<text, counter, seen>>

Open(u, v) == /\ More /\ ~isOpen[u]
              /\ isOpen' = [isOpen EXCEPT ![u] = TRUE]
              /\ text' = [text EXCEPT ![u] = v]
              /\ Log([op |-> "open", uri |-> u, text |-> v])
              /\ UNCHANGED <<cache, counter, client, seen>>

(* a full reply: new id, cache and client replaced.  The empty document is answered early. *)
FullReply(u) ==
    IF text[u] = 0
    THEN /\ client' = [client EXCEPT ![u] = None]
         /\ cache' = IF EmptyDropsCache THEN [cache EXCEPT ![u] = None] ELSE cache
         /\ UNCHANGED <<counter, seen>>
    ELSE /\ counter' = counter + 1
         /\ cache' = [cache EXCEPT ![u] = [id |-> counter + 1, data |-> Tok[text[u]]]]
         /\ client' = [client EXCEPT ![u] = [id |-> counter + 1, data |-> Tok[text[u]]]]
         /\ seen' = [seen EXCEPT ![u] = @ \cup {counter + 1}]

Full(u) == /\ More /\ isOpen[u]
           /\ FullReply(u)
           /\ Log([op |-> "full", uri |-> u])
           /\ UNCHANGED <<text, isOpen>>

Range(u) == /\ More /\ isOpen[u]
            /\ Log([op |-> "range", uri |-> u])
            /\ UNCHANGED <<text, isOpen, cache, counter, client, seen>>

(* which previous id the client sends *)
PrevKinds == {"current", "older", "other", "unknown"}
PrevId(u, k) ==
    CASE k = "current" -> client[u].id
      [] k = "older"   -> IF seen[u] \ {client[u].id} = {} THEN NoId ELSE CHOOSE i \in seen[u] \ {client[u].id} : TRUE
      [] k = "other"   -> LET o == CHOOSE w \in URIs : w # u IN client[o].id
      [] OTHER         -> 999

(* client-side application of a delta: the one edit the server ever sends replaces the whole
   array it diffed against; applied to what the CLIENT holds *)
ApplyEdits(held, old, new) == IF old = new THEN held ELSE new \o SubSeq(held, Len(old) + 1, Len(held))

Delta(u, k) ==
    /\ More /\ isOpen[u]
    /\ Cardinality(URIs) > 1 \/ k # "other"
    /\ LET prev == PrevId(u, k) IN
       /\ prev # NoId                                   \* a client without a result id cannot ask for a delta
       /\ IF text[u] = 0 \/ cache[u].id = NoId \/ cache[u].id # prev
          THEN FullReply(u)
          ELSE /\ counter' = counter + 1
               /\ cache' = [cache EXCEPT ![u] = [id |-> counter + 1, data |-> Tok[text[u]]]]
               /\ client' = [client EXCEPT ![u] = [id |-> counter + 1,
                                                    data |-> ApplyEdits(client[u].data, cache[u].data, Tok[text[u]])]]
               /\ seen' = [seen EXCEPT ![u] = @ \cup {counter + 1}]
       /\ Log([op |-> "delta", uri |-> u, prev |-> k])
    /\ UNCHANGED <<text, isOpen>>

Next == \/ \E u \in URIs, v \in Texts : Edit(u, v) \/ Open(u, v)
        \/ \E u \in URIs : Close(u) \/ Full(u) \/ Range(u)
        \/ \E u \in URIs, k \in PrevKinds : Delta(u, k)

Spec == Init /\ [][Next]_vars

(* C17: after every full or delta reply the client's array is the full result for the current text *)
ClientOK ==
    (Len(h) > 0 /\ h[Len(h)].op \in {"full", "delta"}) =>
        LET u == h[Len(h)].uri IN client[u].data = Tok[text[u]]

(* result ids are never reused across documents or contents *)
IdsUnique == \A u, w \in URIs : (u # w /\ cache[u].id # NoId) => cache[u].id # cache[w].id

Emit == (Len(h) = MaxOps) => PrintT(ToJson(h))
=============================================================================
