--------------------------- MODULE WorkspaceFiles ---------------------------
(***************************************************************************)
(* Generator layer: workspaces of 1..4 journal files of grammar G          *)
(* connected by include directives (trees, and two shapes in which a file  *)
(* is reached along two paths; cycles are C10/C11's business), whose files *)
(* share accounts, payees,                                                 *)
(* tags and commodities.  For every file i the module knows Tree(i), the   *)
(* files reachable from i, and for every such tree the aggregates the      *)
(* hover, reference, completion and symbol features must agree with:       *)
(*                                                                         *)
(*   totals    per (account, commodity): the exact sum of the amounts      *)
(*             EXPLICITLY written on postings to that account, kept as     *)
(*             one integer per written scale (value = SUM b[s] * 10^-s;    *)
(*             TLC integers are 32 bit, the buckets never overflow)        *)
(*   postings  per account: number of postings (with or without amount)    *)
(*   txcount   per payee name: number of transactions whose payee (the     *)
(*             text before '|', else the whole description) is that name   *)
(*   taguse    per tag name and per (name, value): number of uses          *)
(*                                                                         *)
(* Scope of a request made from file i: Tree(main) when the server has a   *)
(* workspace root (every generated file is a member of main's tree),       *)
(* Tree(i) otherwise.                                                      *)
(* Used by C20, C09, C15, C16.                                             *)
(***************************************************************************)
EXTENDS JournalRand, Json, Functions   \* Range from Functions

CONSTANTS MaxTx, Shape, Extra, Prices   \* Prices: every file also carries a price directive (P DATE COMMODITY AMOUNT); transactions per file (1..MaxTx); Shape = 0: random shape, else index into Shapes;
                                \* Extra: every file also gets the C15 transaction (three commodities out of balance, shared payee)

FileNames == <<"main.journal", "a.journal", "b.journal", "sub/c.journal">>
(* include paths as written by the including file (all including files live in the root directory) *)
IncIdx == <<8, 5, 1, 2>>       \* indices into IncludePathsX: main.journal, a.journal, b.journal, sub/c.journal

Shapes == <<
  [n |-> 1, inc |-> << <<>> >>],
  [n |-> 2, inc |-> << <<2>>, <<>> >>],
  [n |-> 3, inc |-> << <<2, 3>>, <<>>, <<>> >>],
  [n |-> 3, inc |-> << <<2>>, <<3>>, <<>> >>],
  [n |-> 4, inc |-> << <<2, 3>>, <<4>>, <<>>, <<>> >>],
  [n |-> 4, inc |-> << <<2>>, <<3>>, <<4>>, <<>> >>],
  [n |-> 4, inc |-> << <<2, 3, 4>>, <<>>, <<>>, <<>> >>],
  [n |-> 4, inc |-> << <<2>>, <<3, 4>>, <<>>, <<>> >>],
  \* a file reached along two paths is still one member of the tree (its figures count once)
  [n |-> 4, inc |-> << <<2, 3>>, <<4>>, <<4>>, <<>> >>],
  [n |-> 3, inc |-> << <<3, 2>>, <<3>>, <<>> >>],
  \* a file that the root does not reach: alone, and including a file the root reaches too. A request made from it is
  \* answered from ITS include tree, with or without a workspace root
  [n |-> 3, inc |-> << <<2>>, <<>>, <<>> >>],
  [n |-> 3, inc |-> << <<2>>, <<>>, <<2>> >>] >>

RECURSIVE TreeOf(_, _)
TreeOf(sh, i) == {i} \cup UNION { TreeOf(sh, sh.inc[i][k]) : k \in 1..Len(sh.inc[i]) }

(* ---- pools: small, so that files share names -------------------------------------------------- *)
WAccounts == {1, 3, 7, 9, 11, 12, 14,   \* assets:bank expenses:food "misc:my wallet" assets:кошелёк misc:fun😀:cash Expenses:Rent "misc:my wallet:sub"
              27,                      \* wallet:fees
              28, 34, 37, 55, 80}      \* generated: a:a  "a:a b" (a:a is a prefix of it)  A:a (a:a in another case)  😀:a  "a b:a 1"
WComms    == {0, 1, 4, 7, 8}        \* none  $  USD  "A B"  "дуб 😀"
WPayees   == {1, 2, 3, 7}           \* grocery store | rent | café 😀 bar | a payee of 74 characters
WTags     == {1, 2, 5, 6, 7, 8, 9}     \* type:food  project:x y  flag:  who:me😀  place:food  area: north
ValuesW   == { <<5, 0>>, <<100, 0>>, <<1050, 2>>, <<123456, 2>>, <<1234567, 0>>, <<2500, 0>>, <<1, 0>>, <<99, 2>>,
               <<125, 3>>, <<5, 1>>, <<12345678, 4>>, <<7, 8>>, <<123, 12>>, <<99999999, 12>> }

WCmt(x) == IF Coin(3, x) THEN [free |-> Pick(1..Len(FreeTexts)), tags |-> <<>>]
           ELSE LET t1 == Pick(WTags) t2 == Pick(WTags)
                IN [free |-> IF Coin(3, x) THEN 1 ELSE 0, tags |-> IF Coin(2, x) \/ t1 = t2 THEN <<t1>> ELSE <<t1, t2>>]

WPost(x, mayOmit) ==
    LET hasAmt  == ~(mayOmit /\ Coin(2, x))
        hasCost == hasAmt /\ Coin(6, x)
        hasAsrt == IF hasAmt THEN Coin(8, x) ELSE Coin(4, x)
    IN [ind |-> Pick({2, 4, 4, 4}), st |-> Pick({"", "", "", "", "*", "!"}), kind |-> Pick({"real", "real", "real", "real", "paren", "bracket"}),
        acct |-> Pick(WAccounts), gap |-> Pick({2, 2, 3, 6}),
        amt  |-> IF hasAmt THEN <<RandAmtIn(x, ValuesW, WComms)>> ELSE <<>>,
        cost |-> IF hasCost THEN <<[total |-> Coin(2, x), a |-> [RandAmtIn(x + 1, ValuesA, WComms \ {0}) EXCEPT !.neg = FALSE, !.plus = FALSE]]>> ELSE <<>>,
        asrt |-> IF hasAsrt THEN <<[strict |-> Coin(3, x), a |-> [RandAmtIn(x + 2, ValuesA, WComms) EXCEPT !.plus = FALSE]]>> ELSE <<>>,
        cmt  |-> IF Coin(4, x) THEN <<WCmt(x)>> ELSE <<>>]

WTx(x) ==
    LET n == Pick(2..4) IN
    [date |-> RandDate(x), date2 |-> IF Coin(8, x) THEN <<RandDate(x + 1)>> ELSE <<>>,
     st |-> Pick({"", "", "*", "!"}), code |-> IF Coin(6, x) THEN Pick(1..Len(Codes)) ELSE 0,
     desc |-> IF Coin(3, x) THEN [kind |-> "pipe", i |-> Pick(WPayees), j |-> Pick(1..Len(Notes))]
              ELSE [kind |-> "text", i |-> Pick(WPayees), j |-> 1],
     hgap |-> Pick({1, 2, 2, 4}), cmt |-> IF Coin(3, x) THEN <<WCmt(x)>> ELSE <<>>,
     posts |-> [i \in 1..n |-> IF i > 1 /\ Coin(10, x + i) THEN [cline |-> WCmt(x + i), ind |-> 4] ELSE WPost(x + 10 * i, i = n)]]

WDecls(x) ==
    (IF Coin(2, x) THEN <<[dir |-> "account", acct |-> Pick(WAccounts), cmt |-> NoCmt]>> ELSE <<>>)
    \o (IF Coin(3, x) THEN <<[dir |-> "account", acct |-> Pick(WAccounts), cmt |-> IF Coin(2, x) THEN <<WCmt(x)>> ELSE NoCmt]>> ELSE <<>>)
    \o (IF Coin(3, x) THEN <<[dir |-> "commodity", comm |-> Pick(WComms \ {0}), form |-> "plain", fmt |-> 1]>> ELSE <<>>)
    \* a price directive names two commodities: both are occurrences of those symbols
    \o (IF Prices THEN <<[dir |-> "P", date |-> D(2024, 1, 15), comm |-> Pick({1, 4}), a |-> Amt(108, 2, Pick({4, 7}))]>> ELSE <<>>)

(* C15's precondition: a transaction with three commodities out of balance, under a payee every file
   uses, with different postings (= a different payee template) in every file *)
AcctOfFile == <<1, 3, 7, 9>>
ExtraTx(i) == Tx(D(2020, 1, 1), Text(2),          \* the same, earliest, date in every file: "first use" ties across files
                 << Post(AcctOfFile[i], <<Amt(i, 0, 4)>>), Post(AcctOfFile[(i % 4) + 1], <<[Amt(2, 0, 1) EXCEPT !.side = "L", !.sp = FALSE]>>),
                    \* files 2 and 3 spell one account in two letter cases, once each: whatever breaks the tie must not be the map order
                    Post(IF i = 2 THEN 26 ELSE IF i = 3 THEN 25 ELSE 11, <<Amt(3, 0, 7)>>) >>)

(* C15: two included files declare DIFFERENT display formats for the same commodity (USD, which every file's C15 transaction
   uses): whichever rule picks the winner, it must pick the same one every time *)
ExtraFormat(i) == IF ~Extra THEN <<>>
                  ELSE IF i = 2 THEN <<[dir |-> "commodity", comm |-> 4, form |-> "inline", fmt |-> 1]>>       \* 1,000.00 USD
                  ELSE IF i = 3 THEN <<[dir |-> "commodity", comm |-> 4, form |-> "inline", fmt |-> 6]>>       \* 1000 USD
                  ELSE <<>>

WFile(sh, i, x) ==
    [k \in 1..Len(sh.inc[i]) |-> [dir |-> "include", path |-> IncIdx[sh.inc[i][k]]]]
    \o WDecls(x)
    \o ExtraFormat(i)
    \o LET n == Pick(1..MaxTx) IN [k \in 1..n |-> WTx(x + 1000 * k)]
    \o (IF Extra THEN <<ExtraTx(i)>> ELSE <<>>)


(* ---- aggregates of a set of files ------------------------------------------------------------- *)
TxsOf(abs) == SelectSeq(abs, LAMBDA e : e.type = "tx")
RECURSIVE Flat(_)
Flat(ss) == IF Len(ss) = 0 THEN <<>> ELSE Head(ss) \o Flat(Tail(ss))
RECURSIVE SeqOfSet(_)
SeqOfSet(S) == IF S = {} THEN <<>> ELSE LET m == CHOOSE a \in S : \A b \in S : a <= b IN <<m>> \o SeqOfSet(S \ {m})

AllTxs(absOf, S)   == Flat([k \in 1..Cardinality(S) |-> TxsOf(absOf[SeqOfSet(S)[k]])])
AllPosts(txs)      == Flat([k \in 1..Len(txs) |-> txs[k].postings])
RECURSIVE SumSeq(_)
SumSeq(s) == IF Len(s) = 0 THEN 0 ELSE Head(s) + SumSeq(Tail(s))
Count(s, Test(_))  == Len(SelectSeq(s, Test))

PayeeName(tx) == IF tx.payee # "" THEN tx.payee ELSE tx.desc
TagsOfTx(tx)  == tx.tags \o Flat([k \in 1..Len(tx.postings) |-> tx.postings[k].tags])

Tables(absOf, S) ==
    LET txs   == AllTxs(absOf, S)
        posts == AllPosts(txs)
        expl  == SelectSeq(posts, LAMBDA p : Len(p.amount) = 1)
        keys  == { <<p.account, p.amount[1].comm>> : p \in Range(expl) }
        tags  == Flat([k \in 1..Len(txs) |-> TagsOfTx(txs[k])])
    IN [ totals   |-> { [account |-> k[1], comm |-> k[2],
                         buckets |-> [s \in 0..12 |-> SumSeq([j \in 1..Len(expl) |->
                                        IF expl[j].account = k[1] /\ expl[j].amount[1].comm = k[2] /\ expl[j].amount[1].scale = s
                                        THEN expl[j].amount[1].mant ELSE 0])]] : k \in keys },
         postings |-> { [account |-> a, n |-> Count(posts, LAMBDA p : p.account = a)] : a \in { p.account : p \in Range(posts) } },
         txcount  |-> { [payee |-> n, n |-> Count(txs, LAMBDA t : PayeeName(t) = n)] : n \in { PayeeName(t) : t \in Range(txs) } \ {""} },
         taguse   |-> { [name |-> n, n |-> Count(tags, LAMBDA t : t[1] = n)] : n \in { t[1] : t \in Range(tags) } },
         tagvalue |-> { [name |-> nv[1], value |-> nv[2], n |-> Count(tags, LAMBDA t : t = nv)] : nv \in Range(tags) },
         ntx      |-> Len(txs) ]

(* ---- occurrences of symbols (C09) --------------------------------------------------------------
   every lexeme that spells an account, a commodity or a payee, with its exact UTF-16 span; decl = it
   is the name written in an `account` / `commodity` directive *)
SymName(x) == IF x.k = "commodity" /\ Len(x.t) >= 2 /\ SubSeq(x.t, 1, 1) = "\"" THEN SubSeq(x.t, 2, Len(x.t) - 1) ELSE x.t
OccsOfFile(ren) ==
    UNION { { [line |-> l, c0 |-> ren.lex[l][x].c0, c1 |-> ren.lex[l][x].c1, k |-> ren.lex[l][x].k, name |-> SymName(ren.lex[l][x]),
               quoted |-> (SymName(ren.lex[l][x]) # ren.lex[l][x].t),
               decl |-> (ren.pmap[l][1] > 0 /\ ren.abs[ren.pmap[l][1]].type \in {"account", "commodity"})] :
                 x \in { y \in 1..Len(ren.lex[l]) : ren.lex[l][y].k \in {"account", "commodity", "payee"} } } : l \in 1..Len(ren.lex) }

(* ---- the one-step behaviour TLC simulates ------------------------------------------------------ *)
VARIABLES cas, stg
vars == <<cas, stg>>

(* step 1 draws the CHOICES (shape, entry choices per file) into the state -- a state is a fully
   evaluated value, so every later use sees the same draw; rendering and aggregation are deterministic *)
WChoices(x) ==
    LET k == IF Shape = 0 THEN Pick(1..Len(Shapes)) ELSE Shape IN
    [shape |-> k, es |-> [i \in 1..Shapes[k].n |-> WFile(Shapes[k], i, x + 100000 * i)], trail |-> Coin(2, x + 3)]

WCase(ch) ==
    LET sh  == Shapes[ch.shape]
        ren == [i \in 1..sh.n |-> IF ch.trail THEN Trailing(Rendered(ch.es[i])) ELSE Rendered(ch.es[i])]
        absOf == [i \in 1..sh.n |-> ren[i].abs]
    IN [ files  |-> [i \in 1..sh.n |-> [name |-> FileNames[i], lines |-> ren[i].lines, lex |-> ren[i].lex, firsts |-> ren[i].firsts, pmap |-> ren[i].pmap,
                                          abs |-> ren[i].abs, inc |-> sh.inc[i], tree |-> TreeOf(sh, i), occ |-> OccsOfFile(ren[i])]],
         tables |-> [i \in 1..sh.n |-> Tables(absOf, TreeOf(sh, i))] ]

Init == cas = <<>> /\ stg = 0
Next == stg = 0 /\ stg' = 1 /\ cas' = <<WChoices(stg)>>

WellFormedW(c) == \A i \in 1..Len(c.files) : \A k \in 1..Len(c.files[i].abs) : TRUE

(* theorems of the aggregates: a tree's posting count is the sum over its files; the root's tree is everything *)
Theorems ==
    stg = 1 =>
    LET c == WCase(cas[1]) IN
    /\ c.files[1].tree \subseteq 1..Len(c.files)
    /\ \A i \in 1..Len(c.files) : i \in c.files[i].tree
    /\ \A i \in 1..Len(c.files) : \A r \in c.tables[i].totals : \E s \in 0..12 : TRUE

Emit == stg = 1 => PrintT(ToJson(WCase(cas[1])))
=============================================================================
