---------------------------- MODULE ClientStream ----------------------------
(***************************************************************************)
(* C14 -- client streams for the free-running runs (race detector,         *)
(* liveness).  A stream is what one editor session sends over the serial   *)
(* connection: changes of open documents, saves, close / re-open,          *)
(* configuration changes (each starts a refresh goroutine in the server)   *)
(* and requests of every kind, on 1..3 documents.  The server is given no  *)
(* time to finish its background work between two messages.  TLC draws the *)
(* streams (-simulate); protocol well-formedness is the only constraint:   *)
(* no change, save or request on a closed document.                        *)
(***************************************************************************)
EXTENDS Naturals, Sequences, FiniteSets, TLC, Json

CONSTANTS URIs, Len0

Kinds == {"hover", "completion", "definition", "references", "rename", "documentSymbol", "workspaceSymbol", "foldingRange", "documentLink",
          "semanticTokensFull", "formatting", "inlineCompletion", "codeAction", "executeCommand"}

VARIABLES open, h
vars == <<open, h>>

Init == open = URIs /\ h = <<>>

Emit(op, u, kind, arg) == h' = Append(h, [op |-> op, uri |-> u, kind |-> kind, arg |-> arg])

Change(u)  == u \in open /\ Emit("change", u, "", 0) /\ UNCHANGED open
Save(u)    == u \in open /\ Emit("save", u, "", 0) /\ UNCHANGED open
Close(u)   == u \in open /\ Cardinality(open) > 1 /\ open' = open \ {u} /\ Emit("close", u, "", 0)
Open(u)    == u \notin open /\ open' = open \cup {u} /\ Emit("open", u, "", 0)
Config(k)  == Emit("config", CHOOSE u \in URIs : TRUE, "", k) /\ UNCHANGED open
Request(u, kind) == u \in open /\ Emit("request", u, kind, 0) /\ UNCHANGED open

Next == /\ Len(h) < Len0
        /\ \/ \E u \in URIs : Change(u) \/ Change(u) \/ Save(u) \/ Close(u) \/ Open(u)
           \/ \E k \in 0..4 : Config(k)
           \/ \E u \in URIs, kind \in Kinds : Request(u, kind)

WellFormed == \A i \in 1..Len(h) : h[i].op \in {"change", "save", "request"} =>
                 LET closes == { j \in 1..(i - 1) : h[j].uri = h[i].uri /\ h[j].op = "close" }
                     opens  == { j \in 1..(i - 1) : h[j].uri = h[i].uri /\ h[j].op = "open" }
                 IN Cardinality(closes) = Cardinality(opens)
EmitStream == Len(h) = Len0 => PrintT(ToJson([ops |-> h]))
=============================================================================
