----------------------------- MODULE JournalGen -----------------------------
(***************************************************************************)
(* Enumeration and random generation of journal cases over Journal.tla.    *)
(*                                                                         *)
(* A case is [fam, trig, es, eol, final]: family name, the single trigger  *)
(* tag it carries ("" = clean region), the entry choices, the line-end     *)
(* style and whether the file ends with a line end.  TLC prints for every  *)
(* case the rendered lines, the abstract entries and (WithLex) the lexeme  *)
(* table.                                                                  *)
(*                                                                         *)
(* Families (constant Family):                                             *)
(*   "amounts"   baseline transaction x every amount spelling of G         *)
(*   "headers"   every header spelling (dates, secondary date, status,     *)
(*               code, description kinds incl. the trigger descriptions,   *)
(*               header comment)                                           *)
(*   "postings"  every posting spelling (indent, status, virtual kinds,    *)
(*               account, gap, cost, assertion, comment, comment lines)    *)
(*   "pairs"     every ordered pair of entries from a menu of constructs   *)
(*   "lexicon"   generated accounts (72 two-segment names) and quoted        *)
(*               commodities (19) in every position                        *)
(*   "desc-chars" every description of <= 3 characters over 22 character   *)
(*               classes, after a bare date, a status and a code           *)
(*   "random"    RandomElement-drawn journals of 1..MaxEntries entries     *)
(***************************************************************************)
EXTENDS JournalRand, Json

CONSTANTS Family, MaxEntries, WithLex

(* ---- baseline (the choice-record helpers D, Amt, Post, Cmt, Tx, Text live in Journal.tla) ----- *)
BaseTx == Tx(D(2024, 1, 15), Text(1), << Post(3, <<Amt(1050, 2, 4)>>), Post(2, <<>>) >>)

(* ---- value menus ---------------------------------------------------------------------------- *)
Values == { <<5, 0>>, <<100, 0>>, <<1050, 2>>, <<15, 1>>, <<123456, 2>>, <<1234567, 0>>, <<123456789, 2>>,
            <<2500, 0>>, <<1, 0>>, <<12345678, 4>>, <<7, 8>>, <<123, 12>>, <<100000, 0>>, <<1000, 3>>, <<125, 3>>, <<5, 1>>, <<1234567, 3>> }

AllAmounts(u) ==
    { a \in [neg : BOOLEAN, m : {v[1] : v \in Values}, sc : {v[2] : v \in Values}, n : Notations, comm : 0..Len(Commodities),
             side : {"L", "R"}, sp : BOOLEAN, sgn : {"before", "after"}, plus : BOOLEAN] :
        <<a.m, a.sc>> \in Values /\ AmountOK(a) }

(* The large enumerations take a dummy parameter so that TLC does not pre-evaluate them as constants
   (it would do so once per worker at start-up). *)
(* ---- families ------------------------------------------------------------------------------- *)
Case(fam, trig, es) == [fam |-> fam, trig |-> trig, es |-> es, eol |-> "LF", final |-> TRUE, tight |-> FALSE, trail |-> FALSE]

FamAmounts(u) ==
    { Case("amounts", "", << [BaseTx EXCEPT !.posts[1].amt = <<a>>] >>) : a \in AllAmounts(0) }
    \cup { Case("amounts-cost", "", << [BaseTx EXCEPT !.posts[1].cost = <<[total |-> t, a |-> a]>>] >>) :
             t \in BOOLEAN, a \in { x \in AllAmounts(0) : ~x.neg /\ ~x.plus /\ x.m \in {15, 1050} /\ x.comm \in {1, 5, 7} } }
    \cup { Case("amounts-assert", "", << [BaseTx EXCEPT !.posts[1].asrt = <<[strict |-> t, a |-> a]>>] >>) :
             t \in BOOLEAN, a \in { x \in AllAmounts(0) : ~x.plus /\ x.m \in {100, 1050} /\ x.comm \in {0, 1, 4, 8} } }

Dates == { [y |-> 2024, m |-> m, d |-> d, sep |-> s, pad |-> p] : m \in {1, 12}, d \in {5, 31}, s \in {"-", "/", "."}, p \in BOOLEAN }
DescKinds == { [kind |-> "text", i |-> i, j |-> 1] : i \in 1..Len(Descriptions) }
              \cup { [kind |-> "pipe", i |-> i, j |-> j] : i \in {1, 3}, j \in 1..Len(Notes) }
              \cup { [kind |-> "none", i |-> 1, j |-> 1] }
TrigDescs == { [kind |-> "trigger", i |-> i, j |-> 1] : i \in 1..Len(TriggerDescriptions) }
HComments == { NoCmt, Cmt(1, <<>>), Cmt(0, <<1>>), Cmt(0, <<1, 2>>), Cmt(4, <<3>>), Cmt(3, <<>>), Cmt(0, <<5, 6>>) }

FamHeaders(u) ==
    { Case("headers-date", "", << [BaseTx EXCEPT !.date = d, !.date2 = d2] >>) :
          d \in Dates, d2 \in {<<>>} \cup { <<x>> : x \in { y \in Dates : y.m = 12 /\ y.d = 5 } } }
    \cup { Case("headers", "", << [BaseTx EXCEPT !.st = s, !.code = c, !.desc = k, !.cmt = hc, !.hgap = g] >>) :
          s \in {"", "*", "!"}, c \in 0..Len(Codes), k \in DescKinds, hc \in HComments, g \in {1, 2} }
    \cup { Case("headers-trigger", TriggerDescriptions[k.i].trig, << [BaseTx EXCEPT !.st = s, !.desc = k] >>) :
          s \in {"", "*"}, k \in TrigDescs }
    \* a header WITHOUT description, then a posting whose commodity is a lower-case word (the lexer's plain-text token
    \* outside a header): whatever the tokenizer remembers from the header line must not leak into the next line
    \cup { Case("headers-bare", "", << [BaseTx EXCEPT !.st = s, !.code = c, !.desc = [kind |-> "none", i |-> 1, j |-> 1], !.cmt = hc, !.date2 = d2,
                                                      !.posts[1].amt = <<[Amt(5, 0, 9) EXCEPT !.neg = ng]>>] >>) :
          s \in {"", "*", "!"}, c \in {0, 1}, hc \in {NoCmt, Cmt(1, <<>>), Cmt(0, <<1>>)}, d2 \in {<<>>, <<D(2024, 1, 20)>>}, ng \in BOOLEAN }
    \* ... and then a directive whose argument is plain text for the lexer (a lower-case commodity, a format sub-directive,
    \* an account), with postings that have no such token in between
    \cup { Case("headers-bare", "", << [Tx(D(2024, 1, 15), [kind |-> "none", i |-> 1, j |-> 1], << Post(3, <<Amt(5, 0, 1)>>), Post(2, <<>>) >>) EXCEPT !.st = s, !.code = c], dr >>) :
          s \in {"", "*"}, c \in {0, 1},
          dr \in { [dir |-> "commodity", comm |-> 9, form |-> "plain", fmt |-> 1], [dir |-> "commodity", comm |-> 4, form |-> "sub", fmt |-> 1],
                   [dir |-> "commodity", comm |-> 5, form |-> "sub", fmt |-> 2], [dir |-> "account", acct |-> 1, cmt |-> <<>>],
                   [dir |-> "P", date |-> D(2024, 1, 20), comm |-> 9, a |-> Amt(15, 1, 4)] } }

(* every description of <= MaxEntries (at most 3) characters over DescAlphabet, after a bare date, a status and a code *)
RECURSIVE CSeqs(_, _)
CSeqs(k, n) == IF n = 0 THEN {<<>>} ELSE LET S == CSeqs(k, n - 1) IN S \cup { Append(x, i) : x \in { y \in S : Len(y) = n - 1 }, i \in 1..k }
FamDescChars(u) ==
    { Case("desc-chars", "", << [BaseTx EXCEPT !.st = s, !.code = c, !.desc = [kind |-> "chars", cs |-> cs, i |-> 1, j |-> 1]] >>) :
          s \in {"", "*"}, c \in {0, 1}, cs \in { x \in CSeqs(Len(DescAlphabet), IF MaxEntries > 3 THEN 3 ELSE MaxEntries) : DescCharsOK(x) } }

(* every generated account as a real / parenthesised / bracketed posting with and without an amount; every generated quoted
   commodity on either side of the quantity, as amount, as cost and as assertion *)
GenBase == Len(Accounts) + Len(AccountsExtra)
FamLexicon(u) ==
    { Case("acct-gen", "", << [BaseTx EXCEPT !.posts[1].acct = GenBase + k, !.posts[1].kind = kd, !.posts[2].acct = GenBase + ((k % Len(AccountsGen)) + 1),
                                            !.posts[2].kind = kd2] >>) :
          k \in 1..Len(AccountsGen), kd \in {"real", "paren", "bracket"}, kd2 \in {"real", "bracket"} }
    \cup { Case("comm-gen", "", << [BaseTx EXCEPT !.posts[1].amt = <<[Amt(5, 0, Len(Commodities) + k) EXCEPT !.side = sd, !.sp = TRUE]>>] >>) :
             k \in 1..Len(CommoditiesGen), sd \in {"L", "R"} }
    \cup { Case("comm-gen", "", << [BaseTx EXCEPT !.posts[1].cost = <<[total |-> t, a |-> [Amt(15, 1, Len(Commodities) + k) EXCEPT !.side = sd, !.sp = TRUE]]>>] >>) :
             k \in 1..Len(CommoditiesGen), sd \in {"L", "R"}, t \in BOOLEAN }
    \cup { Case("comm-gen", "", << [BaseTx EXCEPT !.posts[1].asrt = <<[strict |-> FALSE, a |-> [Amt(100, 0, Len(Commodities) + k) EXCEPT !.side = sd, !.sp = TRUE]]>>] >>) :
             k \in 1..Len(CommoditiesGen), sd \in {"L", "R"} }
    \cup { Case("comm-gen", "", << [dir |-> "commodity", comm |-> Len(Commodities) + k, form |-> "plain", fmt |-> 1], BaseTx >>) : k \in 1..Len(CommoditiesGen) }
    \cup { Case("acct-gen", "", << [dir |-> "account", acct |-> GenBase + k, cmt |-> NoCmt], BaseTx >>) : k \in 1..Len(AccountsGen) }

PCosts == { <<>>, <<[total |-> FALSE, a |-> Amt(15, 1, 2)]>>, <<[total |-> TRUE, a |-> [Amt(1050, 2, 1) EXCEPT !.side = "L", !.sp = FALSE]]>> }
PAsrts == { <<>>, <<[strict |-> FALSE, a |-> Amt(100, 0, 4)]>>, <<[strict |-> TRUE, a |-> [Amt(100, 0, 1) EXCEPT !.side = "L", !.sp = FALSE, !.neg = TRUE]]>> }
PComments == { NoCmt, Cmt(1, <<>>), Cmt(0, <<1>>), Cmt(0, <<2, 4>>), Cmt(2, <<>>) }

FamPostings(u) ==
    { Case("postings", "", << [BaseTx EXCEPT !.posts[1] = [ind |-> i, st |-> s, kind |-> k, acct |-> a, gap |-> g,
                                                           amt |-> <<Amt(1050, 2, 4)>>, cost |-> c, asrt |-> b, cmt |-> pc]] >>) :
          i \in {0, 1, 2, 4, 8}, s \in {"", "*", "!"}, k \in {"real", "paren", "bracket"}, a \in 1..Len(Accounts), g \in {2, 5, 0},
          c \in PCosts, b \in PAsrts, pc \in PComments }
    \cup { Case("postings-trigger", "lower-commodity-before-operator",
                 << [BaseTx EXCEPT !.posts[1].amt = <<Amt(150, 1, 9)>>, !.posts[1].cost = cb[1], !.posts[1].asrt = cb[2]] >>) :
             cb \in { x \in PCosts \X PAsrts : x[1] # <<>> \/ x[2] # <<>> } }
    \cup { Case("postings-trigger", "lower-commodity-before-operator",
                 << [BaseTx EXCEPT !.posts[1].cost = <<[total |-> t, a |-> Amt(15, 1, 9)]>>, !.posts[1].asrt = <<[strict |-> FALSE, a |-> Amt(100, 0, 4)]>>] >>) :
             t \in BOOLEAN }
    \cup { Case("postings-acct-amount", "", << [BaseTx EXCEPT !.posts[1].acct = a, !.posts[1].gap = g, !.posts[1].amt = <<x>>] >>) :
             a \in 1..Len(Accounts), g \in {2, 3, 4},
             x \in { y \in AllAmounts(0) : y.m = 5 /\ y.sc = 0 /\ y.n = "point" /\ ~y.plus /\ y.comm \in {0, 1, 4, 7, 9} } }
    \cup { Case("postings-noamount", "", << [BaseTx EXCEPT !.posts[2] = [ind |-> i, st |-> s, kind |-> k, acct |-> a, gap |-> 2,
                                                           amt |-> <<>>, cost |-> <<>>, asrt |-> <<>>, cmt |-> pc]] >>) :
          i \in {0, 2, 4}, s \in {"", "*"}, k \in {"real", "paren", "bracket"}, a \in 1..Len(Accounts), pc \in PComments }
    \cup { Case("postings-assert-only", "", << [BaseTx EXCEPT !.posts[2] = [ind |-> i, st |-> s, kind |-> k, acct |-> a, gap |-> g,
                                                           amt |-> <<>>, cost |-> <<>>, asrt |-> b, cmt |-> pc]] >>) :
          i \in {0, 4}, s \in {"", "*"}, k \in {"real", "paren", "bracket"}, a \in 1..Len(Accounts), g \in {2, 4, 0}, b \in PAsrts \ {<<>>}, pc \in PComments }
    \cup { Case("postings-cline", "", << [BaseTx EXCEPT !.posts = ps] >>) :
          ps \in { << [cline |-> c[1], ind |-> i] >> \o BaseTx.posts : c \in PComments \ {NoCmt}, i \in {2, 4} }
                 \cup { << BaseTx.posts[1], [cline |-> c[1], ind |-> i], BaseTx.posts[2] >> : c \in PComments \ {NoCmt}, i \in {2, 4} }
                 \cup { BaseTx.posts \o << [cline |-> c[1], ind |-> i] >> : c \in PComments \ {NoCmt}, i \in {2, 4} } }

(* menu of constructs for neighbour pairs *)
Constructs == <<
  BaseTx,
  [BaseTx EXCEPT !.posts = <<>>],
  [BaseTx EXCEPT !.st = "*", !.code = 2, !.desc = [kind |-> "pipe", i |-> 3, j |-> 2], !.cmt = Cmt(0, <<1, 2>>)],
  [BaseTx EXCEPT !.posts = BaseTx.posts \o << [cline |-> [free |-> 1, tags |-> <<>>], ind |-> 4] >>],
  [BaseTx EXCEPT !.posts[1].cost = <<[total |-> FALSE, a |-> Amt(15, 1, 2)]>>, !.posts[1].asrt = <<[strict |-> FALSE, a |-> Amt(100, 0, 4)]>>, !.posts[2].cmt = Cmt(0, <<1>>)],
  [BaseTx EXCEPT !.date2 = <<D(2024, 1, 20)>>, !.desc = [kind |-> "none", i |-> 1, j |-> 1]],
  [dir |-> "account", acct |-> 1, cmt |-> NoCmt],
  [dir |-> "account", acct |-> 7, cmt |-> Cmt(0, <<1>>)],
  [dir |-> "commodity", comm |-> 4, form |-> "plain", fmt |-> 1],
  [dir |-> "commodity", comm |-> 1, form |-> "plain", fmt |-> 1],
  [dir |-> "commodity", comm |-> 7, form |-> "plain", fmt |-> 1],
  [dir |-> "commodity", comm |-> 4, form |-> "sub", fmt |-> 1],
  [dir |-> "commodity", comm |-> 4, form |-> "inline", fmt |-> 2],
  [dir |-> "commodity", comm |-> 1, form |-> "inline", fmt |-> 3],
  [dir |-> "commodity", comm |-> 2, form |-> "sub", fmt |-> 4],
  [dir |-> "include", path |-> 1],
  [dir |-> "include", path |-> 3],
  [dir |-> "include", path |-> 4],
  [dir |-> "include", path |-> 1, cmt |-> Cmt(1, <<>>)],
  [dir |-> "include", path |-> 10],
  [dir |-> "include", path |-> 11, cmt |-> Cmt(0, <<1>>)],
  [dir |-> "P", date |-> D(2024, 1, 15), comm |-> 6, a |-> [Amt(18950, 2, 1) EXCEPT !.side = "L", !.sp = FALSE]],
  [dir |-> "P", date |-> D(2024, 1, 15), comm |-> 2, a |-> Amt(108, 2, 4)],
  [dir |-> "Y", y |-> 2024, word |-> "Y"],
  [dir |-> "Y", y |-> 2023, word |-> "year"],
  [dir |-> "D", fmt |-> 3],
  [dir |-> "D", fmt |-> 2],
  [dir |-> "comment", c |-> [free |-> 1, tags |-> <<>>]],
  [dir |-> "comment", c |-> [free |-> 0, tags |-> <<1>>]],
  [dir |-> "blank"] >>

FamPairs(u) ==
    { Case("single", "", << Constructs[i] >>) : i \in 1..Len(Constructs) }
    \cup { Case("pairs", "", << Constructs[i], Constructs[j] >>) : i \in 1..Len(Constructs), j \in 1..Len(Constructs) }
    \cup { Case("triples", "", << Constructs[i], Constructs[j], Constructs[1] >>) : i \in 1..Len(Constructs), j \in 1..Len(Constructs) }

(* ---- random journals: the Rand* operators live in JournalRand.tla ---------------------------- *)
RandJournal(x) == RandJournalN(x, MaxEntries)

(* a third of the random journals are laid out tightly: no blank line between entries *)
RandCase(x) == [fam |-> "random", trig |-> "", es |-> RandJournal(x), eol |-> Pick({"LF", "LF", "CRLF"}), final |-> ~Coin(4, x), tight |-> Coin(3, x), trail |-> Coin(3, x + 5)]

(* ---- the one-step behaviour that TLC enumerates / simulates --------------------------------- *)
VARIABLES cas, stg
vars == <<cas, stg>>

FamilySet(u) == CASE Family = "amounts"  -> FamAmounts(0)
               [] Family = "headers"  -> FamHeaders(0)
               [] Family = "postings" -> FamPostings(0)
               [] Family = "pairs"    -> FamPairs(0)
               [] Family = "desc-chars" -> FamDescChars(0)
               [] Family = "lexicon"    -> FamLexicon(0)
               [] OTHER               -> {}

Init == IF Family = "random" THEN cas = <<>> /\ stg = 0 ELSE cas \in FamilySet(0) /\ stg = 1
Next == /\ Family = "random" /\ stg = 0
        /\ stg' = 1
        /\ cas' = RandCase(stg)

Out(k) == LET r == IF k.trail THEN Trailing(RenderedT(k.es, k.tight)) ELSE RenderedT(k.es, k.tight) IN
          [fam |-> k.fam, trig |-> k.trig, eol |-> k.eol, final |-> k.final, tight |-> k.tight, lines |-> r.lines, firsts |-> r.firsts, abs |-> r.abs,
           lex |-> IF WithLex THEN r.lex ELSE <<>>, u16 |-> IF WithLex THEN r.u16 ELSE <<>>, runes |-> IF WithLex THEN r.runes ELSE <<>>,
           es |-> IF WithLex THEN k.es ELSE <<>>]

WellFormed(k) == \A i \in 1..Len(k.es) : IsTx(k.es[i]) => TxOK(k.es[i])

Emit == (stg = 1) => (WellFormed(cas) => PrintT(ToJson(Out(cas))))
=============================================================================
