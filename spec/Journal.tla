------------------------------- MODULE Journal -------------------------------
(***************************************************************************)
(* Generator layer: journals of grammar G (DESIGN.md 4.2) with ground      *)
(* truth.  An entry is described by a record of CHOICES (which lexicon     *)
(* member, which spelling, which spacing).  From the choices the module    *)
(* derives                                                                 *)
(*   Abs*   the abstract content (what the text means, by construction),   *)
(*   Ren*   the rendered lines together with the lexeme table: for every   *)
(*          lexeme its kind, its UTF-16 span [c0, c1) and its rune span    *)
(*          [r0, r1) on its line.                                          *)
(* TLC strings are Java strings, so Len counts UTF-16 code units -- the    *)
(* LSP unit; every lexicon member carries its number of astral characters  *)
(* (a), hence runes = Len - a.                                             *)
(* Used by C02 C03 C04 C05 C07 C08 C09 C16 C17 C18 C20.                    *)
(***************************************************************************)
EXTENDS Integers, Sequences, FiniteSets, TLC, SequencesExt

P(s, a) == [s |-> s, a |-> a]           \* a piece of text with its astral-character count
P0(s)   == [s |-> s, a |-> 0]

(* ---- lexicon (clean region; trigger members are listed separately) ---------------------- *)
Accounts == <<
  P0("assets:bank"), P0("assets:cash"), P0("expenses:food"), P0("expenses:food:épicerie"),
  P0("income:salary"), P0("equity:opening balances"), P0("misc:my wallet"), P0("misc:acct 2"),
  P0("assets:кошелёк"), P0("expenses:銀行"), P("misc:fun😀:cash", 1), P0("Expenses:Rent") >>
(* accounts used only by modules that name them by index (Declarations, WorkspaceFiles, ...); the
   families of JournalGen range over 1..Len(Accounts) and never see them *)
AccountsExtra == <<
  P0("misc"), P0("misc:my wallet:sub"), P0("misc:my wallet2"), P0("INCOME:bonus"), P0("liabilities:card"),
  P0("revenues:sales"), P0("assetsx:foo"), P0("кошелёк:a"), P("reserve:fund😀", 1), P("reserve:fund😀:x", 1),
  P0("reserve:fund"), P0("reserve"),
  P0("misc:reserve"), P0("Misc:Reserve"),
  P0("wallet:fees") >>                               \* 27: its first segment is the last WORD of the parent "misc:my wallet"      \* 25, 26: one name in two letter cases (ranking ties, case-exact indexes)

(* commodities: sym = the symbol the parser should report, txt = how it is written *)
Commodities == <<
  [sym |-> "$",     txt |-> P0("$"),            k |-> "symbol"],
  [sym |-> "€",     txt |-> P0("€"),            k |-> "symbol"],
  [sym |-> "₽",     txt |-> P0("₽"),            k |-> "symbol"],
  [sym |-> "USD",   txt |-> P0("USD"),          k |-> "word"],
  [sym |-> "EUR",   txt |-> P0("EUR"),          k |-> "word"],
  [sym |-> "AAPL",  txt |-> P0("AAPL"),         k |-> "word"],
  [sym |-> "A B",   txt |-> P0("\"A B\""),      k |-> "quoted"],
  [sym |-> "дуб 😀", txt |-> P("\"дуб 😀\"", 1), k |-> "quoted"],
  [sym |-> "hours", txt |-> P0("hours"),        k |-> "lower"],
  [sym |-> "401k",  txt |-> P0("\"401k\""),     k |-> "quoted"] >>      \* letters and digits, a digit first: needs its quotes (10 401k reads as a number)

(* generated members of the lexicon (reached only by the families that name them): every account <first>:<second> over
   segment menus within G (letters, digits, blanks inside, non-ASCII, non-BMP), and quoted commodities over what a
   quoted symbol may hold *)
SegFirst  == << P0("a"), P0("A"), P0("é"), P("😀", 1), P0("a1"), P0("a b"), P0("Ab"), P0("銀") >>
SegSecond == << P0("a"), P0("1"), P0("12"), P0("1a"), P0("é"), P("😀", 1), P0("a b"), P0("a 1"), P0("b2 c") >>
AccountsGen == [k \in 1..(Len(SegFirst) * Len(SegSecond)) |->
                  LET i == ((k - 1) \div Len(SegSecond)) + 1  j == ((k - 1) % Len(SegSecond)) + 1
                  IN [s |-> SegFirst[i].s \o ":" \o SegSecond[j].s, a |-> SegFirst[i].a + SegSecond[j].a]]
AccountsX == Accounts \o AccountsExtra \o AccountsGen       \* generated names start at index Len(Accounts) + Len(AccountsExtra) + 1
QuotedGen == << P0("a b"), P0("a1"), P0("1a"), P0("x$"), P0("$x"), P0("a-b"), P0("a.b"), P0("é"), P("😀", 1), P0("1"), P0("-"), P0("US$"),
               \* symbols that read as ONE commodity only with their quotes on at least one side of the number: a lower-case or
               \* mixed-case word on the left, a currency sign the lexer does not list
               P0("eur"), P0("Chf"), P0("руб"), P0("₹"),
               \* upper-case words outside ASCII: the lexer reads an unquoted commodity on the left of a number only over A-Z, so
               \* these need their quotes there although they look like USD (seeded change C05-L dropped them)
               P0("РУБ"), P0("É"), P0("ΔΡΧ") >>
CommoditiesGen == [k \in 1..Len(QuotedGen) |-> [sym |-> QuotedGen[k].s, txt |-> [s |-> "\"" \o QuotedGen[k].s \o "\"", a |-> QuotedGen[k].a], k |-> "quoted"]]
CommoditiesX == Commodities \o CommoditiesGen

Descriptions == << P0("grocery store"), P0("rent"), P("café 😀 bar", 1), P0("покупка"), P0("lunch at joe's"), P0("x"),
                   P0("the annual general meeting of the allotment garden society of the old town") >>   \* 74 characters
TriggerDescriptions == <<
  [p |-> P0("ATM withdrawal"), trig |-> "desc-first-word-all-caps"],
  [p |-> P0("7eleven"),        trig |-> "desc-leading-digit"],
  [p |-> P0("note: x"),        trig |-> "desc-contains-colon"],
  [p |-> P0("$5 lunch"),       trig |-> "desc-leading-currency"],
  [p |-> P0("Whole Foods"),    trig |-> "desc-capitalised-words"],
  [p |-> P0("a (b) c"),        trig |-> "desc-contains-parens"],
  [p |-> P0("fee = 2"),        trig |-> "desc-contains-equals"] >>
Notes  == << P0("weekly"), P0("déjeuner"), P("pour 😀", 1), P0("7 apples"), P0("USD note"), P0("a: b") >>
Codes  == << P0("123"), P0("INV-7"), P0("é1") >>
Tags   == << [n |-> "type", v |-> P0("food")], [n |-> "project", v |-> P0("x y")], [n |-> "date", v |-> P0("2024-01-02")],
             [n |-> "memo", v |-> P0("été")], [n |-> "flag", v |-> P0("")], [n |-> "who", v |-> P("me😀", 1)],
             [n |-> "time", v |-> P0("12:30")],          \* a value may contain colons: the name ends at the FIRST colon
             [n |-> "place", v |-> P0("food")],          \* the same value under two names (type:food, place:food)
             [n |-> "area", v |-> P0("north"), gap |-> 1],     \* a blank after the colon: "area: north"
             [n |-> "url", v |-> P0("http://a.b/c?d=1")], [n |-> "q", v |-> P0("\"quoted\"")], [n |-> "eq", v |-> P0("a=b (c) [d] @ 5")],
             [n |-> "a-b", v |-> P0("1")], [n |-> "A_1", v |-> P0("x")],
             [n |-> "поездка", v |-> P0("рим")] >>      \* a name that is not ASCII   \* names with a hyphen, an underscore, a capital and a digit
FreeTexts == << P0("note"), P0(" spaced  text "), P("😀", 1), P0("paid in cash") >>

(* ---- numbers ------------------------------------------------------------------------------- *)
RECURSIVE Pow10(_)
Pow10(n) == IF n = 0 THEN 1 ELSE 10 * Pow10(n - 1)

RECURSIVE ZeroPad(_, _)
ZeroPad(s, w) == IF Len(s) >= w THEN s ELSE ZeroPad("0" \o s, w)

RECURSIVE Group3(_, _)
Group3(n, sep) == IF n < 1000 THEN ToString(n) ELSE Group3(n \div 1000, sep) \o sep \o ZeroPad(ToString(n % 1000), 3)
RECURSIVE Group2(_, _)
Group2(n, sep) == IF n < 100 THEN ToString(n) ELSE Group2(n \div 100, sep) \o sep \o ZeroPad(ToString(n % 100), 2)
Indian(n, sep) == IF n < 1000 THEN ToString(n) ELSE Group2(n \div 1000, sep) \o sep \o ZeroPad(ToString(n % 1000), 3)

Notations == {"point", "comma", "gcp", "gpc", "gsc", "gsp", "indian", "trail", "trailc", "exp", "expp", "expd", "expdc"}

(* spelling of the non-negative decimal m * 10^-sc in notation n; extra = written trailing zeros *)
Spell(m, sc, n) ==
    LET ip   == IF sc >= 10 THEN 0 ELSE m \div Pow10(sc)     \* TLC integers are 32 bit: m < 10^9 <= 10^sc
        fp   == IF sc >= 10 THEN m ELSE m % Pow10(sc)
        frac == ZeroPad(ToString(fp), sc)
        dec(mark) == IF sc = 0 THEN "" ELSE mark \o frac
    IN CASE n = "point"  -> ToString(ip) \o dec(".")
         [] n = "comma"  -> ToString(ip) \o dec(",")
         [] n = "gcp"    -> Group3(ip, ",") \o dec(".")
         [] n = "gpc"    -> Group3(ip, ".") \o dec(",")
         [] n = "gsc"    -> Group3(ip, " ") \o dec(",")
         [] n = "gsp"    -> Group3(ip, " ") \o dec(".")
         [] n = "indian" -> Indian(ip, ",") \o dec(".")
         [] n = "trail"  -> ToString(ip) \o "."
         [] n = "trailc" -> ToString(ip) \o ","
         [] n = "exp"    -> ToString(m) \o (IF sc = 0 THEN "E0" ELSE "e-" \o ToString(sc))
         [] n = "expp"   -> ToString(m) \o "E+0"
         \* scientific: one digit, the mark, the other digits, the exponent without a sign when it is not negative ("1.5E3", "2,5E1")
         [] n \in {"expd", "expdc"} ->
                LET ds == ToString(m)  e == (Len(ds) - 1) - sc IN
                SubSeq(ds, 1, 1) \o (IF n = "expd" THEN "." ELSE ",") \o SubSeq(ds, 2, Len(ds)) \o (IF e >= 0 THEN "E" \o ToString(e) ELSE "e-" \o ToString(0 - e))
         [] OTHER        -> ToString(ip) \o dec(".")

(* which (value, notation) pairs are in G: notations that do not change the value, are not the
   ambiguous "one mark + exactly three digits" spelling, and show what they are meant to show *)
NotationOK(m, sc, n) ==
    LET ip == IF sc >= 10 THEN 0 ELSE m \div Pow10(sc) IN
    CASE n \in {"point", "comma"}   -> sc # 3 \/ ip = 0        \* 0.125 / 0,125 cannot be a digit group
      [] n \in {"gcp", "gpc"}       -> ip >= 1000 /\ (sc > 0 \/ ip >= 1000000) /\ sc # 3
      [] n \in {"gsc", "gsp"}       -> ip >= 1000                \* blanks are the group marks: the one point/comma is the decimal mark
      [] n = "indian"               -> ip >= 100000 /\ sc # 3
      [] n \in {"trail", "trailc"}  -> sc = 0
      [] n = "exp"                  -> TRUE
      [] n = "expp"                 -> sc = 0
      [] n \in {"expd", "expdc"}   -> m >= 10 /\ m <= 999                \* one or two digits after the mark
      [] OTHER                      -> FALSE

(* ---- rendering state ----------------------------------------------------------------------- *)
Empty == [s |-> "", a |-> 0, lex |-> <<>>]

Put(st, p, kind) ==
    [s |-> st.s \o p.s, a |-> st.a + p.a,
     lex |-> IF kind = "" THEN st.lex
             ELSE Append(st.lex, [k |-> kind, c0 |-> Len(st.s), c1 |-> Len(st.s) + Len(p.s),
                                  r0 |-> Len(st.s) - st.a, r1 |-> Len(st.s) + Len(p.s) - st.a - p.a, t |-> p.s])]

RECURSIVE Blanks(_)
Blanks(n) == IF n = 0 THEN "" ELSE " " \o Blanks(n - 1)
Sp(st, n) == Put(st, P0(Blanks(n)), "")
Lit(st, s, kind) == Put(st, P0(s), kind)

(* ---- amounts --------------------------------------------------------------------------------
   choice record: [neg, m, sc, n, comm (0 = none), side "L"/"R", sp (blank between commodity and
   number), sgn "before"/"after" (of a left commodity), plus (explicit + on a positive amount)] *)
AbsAmount(a) == [mant |-> IF a.neg THEN 0 - a.m ELSE a.m, scale |-> a.sc,
                 comm |-> IF a.comm = 0 THEN "" ELSE CommoditiesX[a.comm].sym,
                 side |-> IF a.comm = 0 THEN "" ELSE a.side]

SignStr(a) == IF a.neg THEN "-" ELSE IF a.plus THEN "+" ELSE ""

RenAmount(st, a, kind) ==
    LET num == P0(Spell(a.m, a.sc, a.n))
        sg  == SignStr(a)
        start == Len(st.s)
        rstart == Len(st.s) - st.a
        body ==
          IF a.comm = 0 THEN Put(Lit(st, sg, ""), num, "number")
          ELSE LET c == CommoditiesX[a.comm].txt IN
            IF a.side = "L"
            THEN IF a.sgn = "before"
                 THEN Put(Sp(Put(Lit(st, sg, ""), c, "commodity"), IF a.sp THEN 1 ELSE 0), num, "number")
                 ELSE Put(Lit(Sp(Put(st, c, "commodity"), IF a.sp THEN 1 ELSE 0), sg, ""), num, "number")
            ELSE Put(Sp(Put(Lit(st, sg, ""), num, "number"), IF a.sp THEN 1 ELSE 0), c, "commodity")
    IN [body EXCEPT !.lex = Append(@, [k |-> kind, c0 |-> start, c1 |-> Len(body.s), r0 |-> rstart,
                                         r1 |-> Len(body.s) - body.a, t |-> SubSeq(body.s, start + 1, Len(body.s))])]

(* amounts that G contains *)
AmountOK(a) ==
    /\ NotationOK(a.m, a.sc, a.n)
    /\ a.neg => ~a.plus
    /\ a.comm = 0 => (a.side = "R" /\ ~a.sp /\ a.sgn = "before")
    /\ a.comm # 0 =>
         /\ (a.side = "R" /\ CommoditiesX[a.comm].k # "symbol") => a.sp    \* blank mandatory before a word/quoted commodity
         /\ (a.side = "L" /\ CommoditiesX[a.comm].k = "lower") => FALSE     \* a lower-case word is only written on the right
         /\ a.side = "R" => a.sgn = "before"
         /\ (a.side = "L" /\ a.n \in {"gsc", "gsp"} /\ ~a.sp) => TRUE

(* ---- comments and tags ---------------------------------------------------------------------
   choice record: [free (0 = none), tags (sequence of tag indices)]; rendered "; free, n:v, n:v" *)
AbsTags(c) == [i \in 1..Len(c.tags) |-> <<Tags[c.tags[i]].n, Tags[c.tags[i]].v.s>>]
RECURSIVE RenTags(_, _, _)
RenTags(st, tags, i) ==
    IF i > Len(tags) THEN st
    ELSE LET t  == Tags[tags[i]]
             s1 == IF i = 1 THEN st ELSE Lit(st, ", ", "")
             s2 == Lit(s1, t.n \o ":", "tagname")
             \* blanks between the colon and the value belong to neither ("area: north")
             s3 == IF t.v.s = "" THEN s2 ELSE Put(IF "gap" \in DOMAIN t THEN Sp(s2, t.gap) ELSE s2, t.v, "tagvalue")
         IN RenTags(s3, tags, i + 1)
RenComment(st, c) ==
    LET start == Len(st.s)
        rstart == Len(st.s) - st.a
        s0 == Lit(st, ";", "")
        s1 == IF c.free = 0 THEN Sp(s0, 1) ELSE Put(Sp(s0, 1), FreeTexts[c.free], "")
        s2 == IF Len(c.tags) = 0 THEN s1
              ELSE RenTags(IF c.free = 0 THEN s1 ELSE Lit(s1, ", ", ""), c.tags, 1)
    IN [s2 EXCEPT !.lex = Append(@, [k |-> "comment", c0 |-> start, c1 |-> Len(s2.s), r0 |-> rstart, r1 |-> Len(s2.s) - s2.a,
                                      t |-> SubSeq(s2.s, start + 1, Len(s2.s))])]
(* the comment text as the parser should report it: everything after the semicolon *)
CommentText(c) == LET r == RenComment(Empty, c) IN SubSeq(r.s, 2, Len(r.s))

(* ---- postings ------------------------------------------------------------------------------
   choice record: [ind (number of blanks; 0 = TAB), st, kind, acct, gap, amt <<>>|<<a>>,
                   cost <<>>|<<[total, a]>>, asrt <<>>|<<[strict, a]>>, cmt <<>>|<<c>>] *)
AbsPosting(p) ==
    [status |-> p.st, kind |-> p.kind, account |-> AccountsX[p.acct].s,
     amount |-> IF Len(p.amt) = 0 THEN <<>> ELSE <<AbsAmount(p.amt[1])>>,
     cost   |-> IF Len(p.cost) = 0 THEN <<>> ELSE <<[total |-> p.cost[1].total, amount |-> AbsAmount(p.cost[1].a)]>>,
     assert |-> IF Len(p.asrt) = 0 THEN <<>> ELSE <<[strict |-> p.asrt[1].strict, amount |-> AbsAmount(p.asrt[1].a)]>>,
     comment |-> IF Len(p.cmt) = 0 THEN "" ELSE CommentText(p.cmt[1]),
     tags |-> IF Len(p.cmt) = 0 THEN <<>> ELSE AbsTags(p.cmt[1])]

Gap(st, g) == IF g = 0 THEN Lit(st, "\t", "") ELSE Sp(st, g)
RenPosting(p) ==
    LET s0 == IF p.ind = 0 THEN Lit(Empty, "\t", "") ELSE Sp(Empty, p.ind)
        s1 == IF p.st = "" THEN s0 ELSE Sp(Lit(s0, p.st, "status"), 1)
        open  == IF p.kind = "paren" THEN "(" ELSE IF p.kind = "bracket" THEN "[" ELSE ""
        close == IF p.kind = "paren" THEN ")" ELSE IF p.kind = "bracket" THEN "]" ELSE ""
        s2 == Lit(Put(Lit(s1, open, ""), AccountsX[p.acct], "account"), close, "")
        \* the separator between account and amount: p.gap blanks (at least two), or one TAB (p.gap = 0)
        s3 == IF Len(p.amt) = 0 THEN s2 ELSE RenAmount(Gap(s2, p.gap), p.amt[1], "amount")
        s4 == IF Len(p.cost) = 0 THEN s3
              ELSE RenAmount(Sp(Lit(Sp(s3, 1), IF p.cost[1].total THEN "@@" ELSE "@", "operator"), 1), p.cost[1].a, "costamount")
        \* a balance assertion may follow the account directly (no amount): then two or more blanks separate them
        s5 == IF Len(p.asrt) = 0 THEN s4
              ELSE RenAmount(Sp(Lit(IF Len(p.amt) = 0 THEN Gap(s4, p.gap) ELSE Sp(s4, 1), IF p.asrt[1].strict THEN "==" ELSE "=", "operator"), 1), p.asrt[1].a, "assertamount")
        s6 == IF Len(p.cmt) = 0 THEN s5 ELSE RenComment(Sp(s5, 2), p.cmt[1])
    IN s6

PostingOK(p) ==
    /\ Len(p.amt) = 0 => Len(p.cost) = 0              \* a cost needs an amount; an assertion does not
    /\ Len(p.amt) = 1 => AmountOK(p.amt[1])
    /\ Len(p.cost) = 1 => (AmountOK(p.cost[1].a) /\ ~p.cost[1].a.neg /\ ~p.cost[1].a.plus)
    /\ Len(p.asrt) = 1 => AmountOK(p.asrt[1].a)
    /\ (p.gap >= 2 \/ p.gap = 0)

(* ---- dates ----------------------------------------------------------------------------------
   choice record: [y, m, d, sep, pad] *)
Two(n, pad) == IF pad THEN ZeroPad(ToString(n), 2) ELSE ToString(n)
DateStr(d) == ToString(d.y) \o d.sep \o Two(d.m, d.pad) \o d.sep \o Two(d.d, d.pad)
AbsDate(d) == <<d.y, d.m, d.d>>

(* ---- transactions ---------------------------------------------------------------------------
   choice record: [date, date2 <<>>|<<d>>, st, code (0 none), desc [kind "text"|"pipe"|"none"|"trigger", i, j],
                   hgap (blanks before a header comment), cmt <<>>|<<c>>, posts (sequence of posting
                   choices or standalone comment choices [cline |-> c, ind])] *)
IsCLine(x) == "cline" \in DOMAIN x

(* desc kind "chars": the description is any string over DescAlphabet (t.desc.cs: sequence of indexes) -- the systematic
   counterpart of the hand-picked trigger descriptions: every first character the lexer dispatches on, every pair and triple *)
DescAlphabet == << P0("a"), P0("A"), P0("1"), P0(" "), P0(":"), P0("$"), P0("("), P0(")"), P0("="), P0("-"), P0("*"), P0("."),
                   P0(","), P0("@"), P0("é"), P("😀", 1), P0("\""), P0("["), P0("/"), P0("!"), P0("E"), P0("]") >>
RECURSIVE CharsP(_)
CharsP(cs) == IF Len(cs) = 0 THEN P0("") ELSE LET r == CharsP(Tail(cs)) h == DescAlphabet[Head(cs)] IN [s |-> h.s \o r.s, a |-> h.a + r.a]
(* a description cannot begin with what the header grammar reads as a status or a code, nor begin or end with a blank *)
DescCharsOK(cs) == /\ Len(cs) >= 1
                   /\ DescAlphabet[cs[1]].s \notin {" ", "(", "*", "!"}
                   /\ DescAlphabet[cs[Len(cs)]].s # " "

DescText(t) ==
    CASE t.desc.kind = "text"    -> Descriptions[t.desc.i].s
      [] t.desc.kind = "chars"   -> CharsP(t.desc.cs).s
      [] t.desc.kind = "trigger" -> TriggerDescriptions[t.desc.i].p.s
      [] t.desc.kind = "pipe"    -> Descriptions[t.desc.i].s \o " | " \o Notes[t.desc.j].s
      [] OTHER                   -> ""

RealPosts(t) == SelectSeq(t.posts, LAMBDA x : ~IsCLine(x))
CLines(t)    == SelectSeq(t.posts, LAMBDA x : IsCLine(x))

(* number of real postings among the first k elements of posts *)
RealBefore(t, k) == Len(SelectSeq(SubSeq(t.posts, 1, k), LAMBDA x : ~IsCLine(x)))
(* tags of the comment lines that follow real posting number i (i = 0: before the first posting) *)
RECURSIVE CLineTagsFrom(_, _, _)
CLineTagsFrom(t, i, k) ==
    IF k > Len(t.posts) THEN <<>>
    ELSE (IF IsCLine(t.posts[k]) /\ RealBefore(t, k) = i THEN AbsTags(t.posts[k].cline) ELSE <<>>) \o CLineTagsFrom(t, i, k + 1)
CLineTags(t, i) == CLineTagsFrom(t, i, 1)

AbsTx(t) ==
    [type |-> "tx", date |-> AbsDate(t.date), date2 |-> IF Len(t.date2) = 0 THEN <<>> ELSE AbsDate(t.date2[1]),
     status |-> t.st, code |-> IF t.code = 0 THEN "" ELSE Codes[t.code].s,
     desc |-> DescText(t),
     payee |-> IF t.desc.kind = "pipe" THEN Descriptions[t.desc.i].s ELSE "",
     note  |-> IF t.desc.kind = "pipe" THEN Notes[t.desc.j].s ELSE "",
     comments |-> (IF Len(t.cmt) = 0 THEN <<>> ELSE <<CommentText(t.cmt[1])>>),
     \* comment lines before the first posting belong to the transaction, later ones to the posting above them
     tags |-> (IF Len(t.cmt) = 0 THEN <<>> ELSE AbsTags(t.cmt[1])) \o CLineTags(t, 0),
     postings |-> [i \in 1..Len(RealPosts(t)) |->
                     [AbsPosting(RealPosts(t)[i]) EXCEPT !.tags = @ \o CLineTags(t, i)]] ]

RenHeader(t) ==
    LET s0 == Lit(Empty, DateStr(t.date), "date")
        s1 == IF Len(t.date2) = 0 THEN s0 ELSE Lit(Lit(s0, "=", "operator"), DateStr(t.date2[1]), "date2")
        s2 == IF t.st = "" THEN s1 ELSE Lit(Sp(s1, 1), t.st, "status")
        s3 == IF t.code = 0 THEN s2 ELSE Lit(Put(Lit(Sp(s2, 1), "(", ""), Codes[t.code], "codetext"), ")", "")
        s3b == IF t.code = 0 THEN s3
               ELSE [s3 EXCEPT !.lex = Append(@, [k |-> "code", c0 |-> Len(s2.s) + 1, c1 |-> Len(s3.s), r0 |-> Len(s2.s) + 1 - s2.a,
                                                    r1 |-> Len(s3.s) - s3.a, t |-> SubSeq(s3.s, Len(s2.s) + 2, Len(s3.s))])]
        s4 == CASE t.desc.kind = "text"    -> Put(Sp(s3b, 1), Descriptions[t.desc.i], "payee")
                [] t.desc.kind = "chars"   -> Put(Sp(s3b, 1), CharsP(t.desc.cs), "payee")
                [] t.desc.kind = "trigger" -> Put(Sp(s3b, 1), TriggerDescriptions[t.desc.i].p, "payee")
                [] t.desc.kind = "pipe"    -> Put(Sp(Lit(Sp(Put(Sp(s3b, 1), Descriptions[t.desc.i], "payee"), 1), "|", "pipe"), 1), Notes[t.desc.j], "note")
                [] OTHER                   -> s3b
        s5 == IF Len(t.cmt) = 0 THEN s4 ELSE RenComment(Sp(s4, t.hgap), t.cmt[1])
    IN s5

RenTx(t) ==
    <<RenHeader(t)>> \o [i \in 1..Len(t.posts) |->
        IF IsCLine(t.posts[i]) THEN RenComment(Sp(Empty, t.posts[i].ind), t.posts[i].cline)
        ELSE RenPosting(t.posts[i])]

TxOK(t) == /\ \A i \in 1..Len(t.posts) : IsCLine(t.posts[i]) \/ PostingOK(t.posts[i])
           /\ (t.desc.kind = "none" /\ Len(t.cmt) = 1) => t.hgap >= 1
           /\ Len(t.cmt) = 1 => t.hgap >= 1
           /\ t.desc.kind = "chars" => DescCharsOK(t.desc.cs)

(* ---- directives -----------------------------------------------------------------------------
   [dir |-> "account", acct, cmt <<>>|<<c>>]
   [dir |-> "commodity", comm, form "plain"|"sub"|"inline", fmt]     fmt: index into Formats
   [dir |-> "include", path]   [dir |-> "P", date, comm, a]   [dir |-> "Y", y, word]   [dir |-> "D", fmt]
   [dir |-> "comment", c]      [dir |-> "blank"] *)
Formats == <<
  [comm |-> 4, txt |-> "1,000.00 USD",   mark |-> ".", group |-> ",", places |-> 2],
  [comm |-> 5, txt |-> "1.000,00 EUR",   mark |-> ",", group |-> ".", places |-> 2],
  [comm |-> 1, txt |-> "$1,000.00",      mark |-> ".", group |-> ",", places |-> 2],
  [comm |-> 2, txt |-> "€1 000,000",     mark |-> ",", group |-> " ", places |-> 3],
  [comm |-> 6, txt |-> "1000.0000 AAPL", mark |-> ".", group |-> "",  places |-> 4],
  [comm |-> 4, txt |-> "1000 USD",       mark |-> ".", group |-> "",  places |-> 0],
  [comm |-> 3, txt |-> "₽1.000,00000000", mark |-> ",", group |-> ".", places |-> 8],
  [comm |-> 5, txt |-> "1 000,00 EUR",   mark |-> ",", group |-> " ", places |-> 2],
  [comm |-> 4, txt |-> "1,000. USD",     mark |-> ".", group |-> ",", places |-> 0],
  [comm |-> 2, txt |-> "€1.000,",        mark |-> ",", group |-> ".", places |-> 0],
  [comm |-> 1, txt |-> "$1000.0",        mark |-> ".", group |-> "",  places |-> 1],
  [comm |-> 6, txt |-> "1,000.000000 AAPL", mark |-> ".", group |-> ",", places |-> 6] >>

IncludePaths == << "b.journal", "sub/c.journal", "*.journal", "sub/<->/*.journal" >>
IncludePathsX == IncludePaths \o << "a.journal", "s.journal", "x.journal", "main.journal", "sub/d.journal",
                                   "Q4 report.journal", "2024 taxes.journal" >>      \* 10, 11: a path is free text, blanks included

AbsDir(d) ==
    CASE d.dir = "account"   -> [type |-> "account", name |-> AccountsX[d.acct].s,
                                 comment |-> IF Len(d.cmt) = 0 THEN "" ELSE CommentText(d.cmt[1])]
      [] d.dir = "commodity" -> [type |-> "commodity", symbol |-> CommoditiesX[IF d.form = "plain" THEN d.comm ELSE Formats[d.fmt].comm].sym,
                                 format |-> IF d.form = "plain" THEN "" ELSE Formats[d.fmt].txt]
      [] d.dir = "include"   -> [type |-> "include", path |-> IncludePathsX[d.path]]
      [] d.dir = "P"         -> [type |-> "P", date |-> AbsDate(d.date), symbol |-> CommoditiesX[d.comm].sym, amount |-> AbsAmount(d.a)]
      [] d.dir = "Y"         -> [type |-> "Y", year |-> d.y]
      [] d.dir = "D"         -> [type |-> "D", symbol |-> CommoditiesX[Formats[d.fmt].comm].sym, format |-> Formats[d.fmt].txt]
      [] d.dir = "comment"   -> [type |-> "comment", text |-> CommentText(d.c)]
      [] OTHER               -> [type |-> "blank"]

RenDir(d) ==
    CASE d.dir = "account"   -> << LET s == Put(Sp(Lit(Empty, "account", "directive"), 1), AccountsX[d.acct], "account")
                                   IN IF Len(d.cmt) = 0 THEN s ELSE RenComment(Sp(s, 2), d.cmt[1]) >>
      [] d.dir = "commodity" ->
            IF d.form = "plain" THEN << Put(Sp(Lit(Empty, "commodity", "directive"), 1), CommoditiesX[d.comm].txt, "commodity") >>
            ELSE IF d.form = "inline" THEN << Lit(Sp(Lit(Empty, "commodity", "directive"), 1), Formats[d.fmt].txt, "format") >>
            ELSE << Put(Sp(Lit(Empty, "commodity", "directive"), 1), CommoditiesX[Formats[d.fmt].comm].txt, "commodity"),
                    Lit(Sp(Lit(Sp(Empty, 2), "format", ""), 1), Formats[d.fmt].txt, "format") >>
      [] d.dir = "include"   -> << LET s == Lit(Sp(Lit(Empty, "include", "directive"), 1), IncludePathsX[d.path], "incpath")
                                   IN IF "cmt" \in DOMAIN d /\ Len(d.cmt) = 1 THEN RenComment(Sp(s, 2), d.cmt[1]) ELSE s >>
      [] d.dir = "P"         -> << RenAmount(Sp(Put(Sp(Lit(Sp(Lit(Empty, "P", "directive"), 1), DateStr(d.date), "date"), 1),
                                                    CommoditiesX[d.comm].txt, "commodity"), 1), d.a, "amount") >>
      [] d.dir = "Y"         -> << Lit(Sp(Lit(Empty, d.word, "directive"), 1), ToString(d.y), "year") >>
      [] d.dir = "D"         -> << Lit(Sp(Lit(Empty, "D", "directive"), 1), Formats[d.fmt].txt, "format") >>
      [] d.dir = "comment"   -> << RenComment(Empty, d.c) >>
      [] OTHER               -> << Empty >>

(* ---- journals ---------------------------------------------------------------------------------
   a journal choice is a sequence of entries: transaction choices ("tx" field present) or directive
   choices.  G separates a transaction from the next entry by a blank line; the renderer inserts it. *)
IsTx(e) == "posts" \in DOMAIN e

RenEntry(e) == IF IsTx(e) THEN RenTx(e) ELSE RenDir(e)
AbsEntry(e) == IF IsTx(e) THEN AbsTx(e) ELSE AbsDir(e)

(* what each rendered line of entry i is: <<i, 0>> a header / directive line, <<i, k>> the k-th real
   posting of the transaction, <<i, -1>> a comment line inside the transaction *)
LineMap(e, i) ==
    IF IsTx(e) THEN <<<<i, 0>>>> \o [k \in 1..Len(e.posts) |-> IF IsCLine(e.posts[k]) THEN <<i, 0 - 1>> ELSE <<i, RealBefore(e, k)>>]
    ELSE [k \in 1..Len(RenDir(e)) |-> <<i, 0>>]

(* lines of the journal with, for each entry, its first line (1-based) *)
(* tight = no blank line is written between entries: an unindented line ends the transaction above it *)
RECURSIVE Layout(_, _, _, _, _, _)
Layout(es, i, lines, firsts, pmap, tight) ==
    IF i > Len(es) THEN [lines |-> lines, firsts |-> firsts, pmap |-> pmap]
    ELSE LET r == RenEntry(es[i])
             sep == IF ~tight /\ i > 1 /\ (IsTx(es[i - 1]) \/ IsTx(es[i])) THEN <<Empty>> ELSE <<>>
         IN Layout(es, i + 1, lines \o sep \o r, Append(firsts, Len(lines) + Len(sep) + 1),
                   pmap \o (IF Len(sep) = 0 THEN <<>> ELSE <<<<0, 0>>>>) \o LineMap(es[i], i), tight)

RenderedT(es, tight) ==
    LET lay == Layout(es, 1, <<>>, <<>>, <<>>, tight) IN
    [ lines  |-> [i \in 1..Len(lay.lines) |-> lay.lines[i].s],
      lex    |-> [i \in 1..Len(lay.lines) |-> lay.lines[i].lex],
      u16    |-> [i \in 1..Len(lay.lines) |-> Len(lay.lines[i].s)],
      runes  |-> [i \in 1..Len(lay.lines) |-> Len(lay.lines[i].s) - lay.lines[i].a],
      firsts |-> lay.firsts,
      pmap   |-> lay.pmap,
      abs    |-> [i \in 1..Len(es) |-> AbsEntry(es[i])] ]
Rendered(es) == RenderedT(es, FALSE)

(* trailing blanks: a spacing variant that no lexeme owns.  Every non-empty line whose number is 1 modulo 3 gets two of them
   (an empty line is left alone: a line of nothing but blanks inside a transaction is a construct of its own) *)
Trailing(r) ==
    LET hit(i) == /\ r.lines[i] # "" /\ i % 3 = 1
                  \* blanks after a comment are part of the comment: such a line is left as it is
                  /\ (Len(r.lex[i]) = 0 \/ r.lex[i][Len(r.lex[i])].k # "comment")
        n(i) == IF i % 6 = 1 THEN 1 ELSE 2            \* one blank or two: a name ends before either
        \* an empty line BETWEEN entries (the first line of the file, or the second of two empty lines: whatever came before
        \* has ended) may hold blanks an editor left behind; it is still an empty line
        between(i) == r.lines[i] = "" /\ (i = 1 \/ r.lines[i - 1] = "")
        add(i) == IF hit(i) THEN n(i) ELSE IF between(i) THEN 2 ELSE 0
    IN
    [r EXCEPT !.lines = [i \in 1..Len(r.lines) |-> IF hit(i) THEN r.lines[i] \o (IF n(i) = 1 THEN " " ELSE "  ")
                                                    ELSE IF between(i) THEN (IF i % 2 = 0 THEN "  " ELSE " \t") ELSE r.lines[i]],
              !.u16   = [i \in 1..Len(r.lines) |-> r.u16[i] + add(i)],
              !.runes = [i \in 1..Len(r.lines) |-> r.runes[i] + add(i)]]

(* ---- helpers for writing choice records ----------------------------------------------------- *)
D(y, m, d) == [y |-> y, m |-> m, d |-> d, sep |-> "-", pad |-> TRUE]
Amt(m, sc, comm) == [neg |-> FALSE, m |-> m, sc |-> sc, n |-> "point", comm |-> comm, side |-> "R", sp |-> TRUE, sgn |-> "before", plus |-> FALSE]
Post(acct, amt) == [ind |-> 4, st |-> "", kind |-> "real", acct |-> acct, gap |-> 2, amt |-> amt, cost |-> <<>>, asrt |-> <<>>, cmt |-> <<>>]
NoCmt == <<>>
Cmt(free, tags) == <<[free |-> free, tags |-> tags]>>
Tx(date, desc, posts) == [date |-> date, date2 |-> <<>>, st |-> "", code |-> 0, desc |-> desc, hgap |-> 2, cmt |-> NoCmt, posts |-> posts]
Text(i) == [kind |-> "text", i |-> i, j |-> 1]
=============================================================================
