-------------------------------- MODULE Diag --------------------------------
(***************************************************************************)
(* C13 (and the schedule supply for C14): background publication of        *)
(* diagnostics.                                                            *)
(*                                                                         *)
(* The client stream is serial: Deliver(u) is a didOpen/didChange of       *)
(* document u; it bumps the document's version and starts one background   *)
(* job carrying that version.  A job runs (Step) and eventually reaches    *)
(* its publish point (AtPublish), where it either publishes or skips.      *)
(*                                                                         *)
(* Contract (what C13 allows): any behaviour in which, once the stream has *)
(* stopped and no job is left, the last publication for every document is  *)
(* the one computed from its latest version:  Converged.                   *)
(*                                                                         *)
(* Mechanism (constant Guard):                                             *)
(*   "none"    the pinned code: every job publishes unconditionally        *)
(*   "latest"  the repaired code: at the publish point, under the publish  *)
(*             lock, a job whose version is no longer the document's       *)
(*             latest skips                                                *)
(* TLC shows "none" violates Converged (shortest schedule: D1 D2 P2 P1)    *)
(* and "latest" satisfies it for every interleaving.                       *)
(***************************************************************************)
EXTENDS Naturals, Sequences, FiniteSets, TLC, Json

CONSTANTS URIs,        \* documents
          MaxChanges,  \* total number of deliveries in the burst
          Guard,       \* "none" | "latest"
          Split,       \* FALSE: check+send is one atomic step (publish lock held across both);
                       \* TRUE: the decision (Check) and the delivery to the client (Send) are separate steps
          MaxCloses    \* how many times a document may be closed in the burst (a delivery to a closed document re-opens it)

VARIABLES ver,         \* URI -> latest delivered version (0 = never opened)
          jobs,        \* set of [uri, ver, pc]   pc \in {"run", "pub"}
          published,   \* URI -> version of the last publication (0 = none)
          delivered,   \* number of deliveries so far
          closed,      \* documents that are closed right now (after having been open)
          ncloses,
          h            \* schedule printed for replay (hidden by VIEW)

vars == <<ver, jobs, published, delivered, closed, ncloses, h>>
view == <<ver, jobs, published, delivered, closed, ncloses>>

Init == /\ ver = [u \in URIs |-> 0]
        /\ jobs = {}
        /\ published = [u \in URIs |-> 0]
        /\ delivered = 0
        /\ closed = {} /\ ncloses = 0
        /\ h = <<>>

Deliver(u) ==
    /\ delivered < MaxChanges
    /\ delivered' = delivered + 1
    /\ ver' = [ver EXCEPT ![u] = @ + 1]
    /\ jobs' = jobs \cup {[uri |-> u, ver |-> ver[u] + 1, pc |-> "run"]}
    /\ h' = Append(h, [e |-> "deliver", uri |-> u, ver |-> ver[u] + 1])
    /\ closed' = closed \ {u}                      \* a delivery to a closed document is its didOpen
    /\ UNCHANGED <<published, ncloses>>

(* didClose: nothing is started, jobs under way go on; what they publish for a closed document is nobody's concern,
   but after a re-open the last word must again be the latest version's *)
Close(u) ==
    /\ ncloses < MaxCloses /\ ver[u] > 0 /\ u \notin closed /\ delivered < MaxChanges
    /\ closed' = closed \cup {u} /\ ncloses' = ncloses + 1
    /\ h' = Append(h, [e |-> "close", uri |-> u, ver |-> ver[u]])
    /\ UNCHANGED <<ver, jobs, published, delivered>>

(* the job finishes loading/analysing and stands at its publish point *)
Step(j) ==
    /\ j \in jobs /\ j.pc = "run"
    /\ jobs' = (jobs \ {j}) \cup {[j EXCEPT !.pc = "pub"]}
    /\ UNCHANGED <<ver, published, delivered, closed, ncloses, h>>

(* the publish point: one atomic step (the repaired code holds a lock across check+publish) *)
AtPublish(j) ==
    /\ ~Split
    /\ j \in jobs /\ j.pc = "pub"
    /\ jobs' = jobs \ {j}
    /\ LET stale == j.ver # ver[j.uri]
           skip  == Guard = "latest" /\ stale
       IN /\ published' = IF skip THEN published ELSE [published EXCEPT ![j.uri] = j.ver]
          /\ h' = Append(h, [e |-> "publish", uri |-> j.uri, ver |-> j.ver])
    /\ UNCHANGED <<ver, delivered, closed, ncloses>>

(* Split mechanism: the staleness decision and the delivery of the notification are two steps;
   another job may run in between.  With Guard = "latest" this is exactly the defect of checking
   outside the critical section; TLC finds  D1 check(1) D2 check(2) send(2) send(1). *)
Check(j) ==
    /\ Split
    /\ j \in jobs /\ j.pc = "pub"
    /\ LET skip == Guard = "latest" /\ j.ver # ver[j.uri]
       IN jobs' = IF skip THEN jobs \ {j} ELSE (jobs \ {j}) \cup {[j EXCEPT !.pc = "send"]}
    /\ h' = Append(h, [e |-> "check", uri |-> j.uri, ver |-> j.ver])
    /\ UNCHANGED <<ver, published, delivered, closed, ncloses>>

Send(j) ==
    /\ Split
    /\ j \in jobs /\ j.pc = "send"
    /\ jobs' = jobs \ {j}
    /\ published' = [published EXCEPT ![j.uri] = j.ver]
    /\ h' = Append(h, [e |-> "send", uri |-> j.uri, ver |-> j.ver])
    /\ UNCHANGED <<ver, delivered, closed, ncloses>>

Next == \/ \E u \in URIs : Deliver(u) \/ Close(u)
        \/ \E j \in jobs : Step(j) \/ AtPublish(j) \/ Check(j) \/ Send(j)

Fairness == \A u \in URIs, v \in 1..MaxChanges :
               /\ WF_vars(Step([uri |-> u, ver |-> v, pc |-> "run"]))
               /\ WF_vars(AtPublish([uri |-> u, ver |-> v, pc |-> "pub"]))
               /\ WF_vars(Check([uri |-> u, ver |-> v, pc |-> "pub"]))
               /\ WF_vars(Send([uri |-> u, ver |-> v, pc |-> "send"]))
Spec == Init /\ [][Next]_vars /\ Fairness

TypeOK == /\ ver \in [URIs -> 0..MaxChanges]
          /\ published \in [URIs -> 0..MaxChanges]
          /\ \A j \in jobs : j.ver <= ver[j.uri]

Quiescent == delivered = MaxChanges /\ jobs = {}

(* C13 *)
Converged == Quiescent => \A u \in URIs : (ver[u] > 0 /\ u \notin closed) => published[u] = ver[u]

(* no job is ever lost or stuck: whenever the client pauses, the jobs drain *)
JobsDrain == []<>(jobs = {})

Emit == Quiescent => PrintT(ToJson([schedule |-> h, final |-> [u \in URIs |-> IF u \in closed THEN 0 ELSE ver[u]]]))
=============================================================================
