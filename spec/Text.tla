-------------------------------- MODULE Text --------------------------------
(***************************************************************************)
(* Names as text: segments of an account name, ASCII case folding, prefix  *)
(* and subsequence matching.  TLC strings are sequences of UTF-16 code     *)
(* units; only ASCII letters are case-folded (the generators never flip    *)
(* the case of anything else).                                             *)
(***************************************************************************)
EXTENDS Integers, Sequences

RECURSIVE SplitAt(_, _, _, _)
SplitAt(s, i, cur, acc) ==
    IF i > Len(s) THEN Append(acc, cur)
    ELSE IF SubSeq(s, i, i) = ":" THEN SplitAt(s, i + 1, "", Append(acc, cur))
    ELSE SplitAt(s, i + 1, cur \o SubSeq(s, i, i), acc)
Segs(s) == SplitAt(s, 1, "", <<>>)

UpperL == <<"A","B","C","D","E","F","G","H","I","J","K","L","M","N","O","P","Q","R","S","T","U","V","W","X","Y","Z">>
LowerL == <<"a","b","c","d","e","f","g","h","i","j","k","l","m","n","o","p","q","r","s","t","u","v","w","x","y","z">>
LowerCh(c) == IF \E i \in 1..26 : UpperL[i] = c THEN LowerL[CHOOSE i \in 1..26 : UpperL[i] = c] ELSE c
RECURSIVE LowerStr(_, _)
LowerStr(s, i) == IF i > Len(s) THEN "" ELSE LowerCh(SubSeq(s, i, i)) \o LowerStr(s, i + 1)


LowerCh2(c) == LowerCh(c)
UpperCh(c) == IF \E i \in 1..26 : LowerL[i] = c THEN UpperL[CHOOSE i \in 1..26 : LowerL[i] = c] ELSE c
RECURSIVE UpperStr(_, _)
UpperStr(s, i) == IF i > Len(s) THEN "" ELSE UpperCh(SubSeq(s, i, i)) \o UpperStr(s, i + 1)

(* q is a prefix of n, ASCII case ignored *)
IsPrefixCI(q, n) == Len(q) <= Len(n) /\ LowerStr(SubSeq(n, 1, Len(q)), 1) = LowerStr(q, 1)

(* q is a subsequence of n (its characters occur in n in order), ASCII case ignored *)
RECURSIVE SubseqFrom(_, _, _, _)
SubseqFrom(q, i, n, j) ==
    IF i > Len(q) THEN TRUE
    ELSE IF j > Len(n) THEN FALSE
    ELSE IF SubSeq(q, i, i) = SubSeq(n, j, j) THEN SubseqFrom(q, i + 1, n, j + 1)
    ELSE SubseqFrom(q, i, n, j + 1)
IsSubseqCI(q, n) == SubseqFrom(LowerStr(q, 1), 1, LowerStr(n, 1), 1)

(* every other character of the first k characters of s *)
RECURSIVE EveryOther(_, _, _)
EveryOther(s, i, k) == IF i > Len(s) \/ i > k THEN "" ELSE SubSeq(s, i, i) \o EveryOther(s, i + 2, k)
=============================================================================
