----------------------------- MODULE DiagTrace -----------------------------
(***************************************************************************)
(* C13 / C14 -- trace validation (code -> spec) of FREE-RUNNING            *)
(* executions: the events recorded from the real server while client       *)
(* streams are fired at it without waiting (C14's stress runs) are checked *)
(* against the contract of Diag.tla / Concurrency.tla.                     *)
(*                                                                         *)
(* Events, in the total order of the recorder (one mutex-protected         *)
(* sequence):                                                              *)
(*   deliver u v     the client stream hands version v of document u to    *)
(*                   the server (didOpen / didChange)                      *)
(*   close u, open u v                                                     *)
(*   hook p u g      background job g (goroutine id) of document u passes  *)
(*                   the yield point p: start, loaded, publish, done       *)
(*   pub u v g       the client receives a publication for u computed      *)
(*                   from version v, sent by goroutine g                   *)
(*   quiesce         the stream has ended and every job has finished       *)
(* What the contract demands of a trace:                                   *)
(*   - every job exists because of a delivery (one job per delivery), and  *)
(*     passes its yield points in order: start [loaded publish] done;      *)
(*   - a publication is sent by a live job, for its own document, from a   *)
(*     version that has been delivered;                                    *)
(*   - at quiescence no job is left, none is owed, and for every OPEN      *)
(*     document the last publication is that of its latest version         *)
(*     (Converged of Diag.tla).                                            *)
(* Several traces are concatenated; "reset" starts the next one.           *)
(***************************************************************************)
EXTENDS Integers, Sequences, FiniteSets, TLC, Json

CONSTANT TraceFile
Trace == ndJsonDeserialize(TraceFile)

VARIABLES l, ver, isOpen, owed, jobs, published
vars == <<l, ver, isOpen, owed, jobs, published>>

Docs == {"u1", "u2", "u3"}

Init == /\ l = 1
        /\ ver = [u \in Docs |-> 0] /\ isOpen = [u \in Docs |-> FALSE] /\ owed = [u \in Docs |-> 0]
        /\ jobs = <<>>                       \* function goroutine id -> [u, pc]
        /\ published = [u \in Docs |-> 0]

Ev == Trace[l]
Is(e) == l <= Len(Trace) /\ Ev.e = e
Step == l' = l + 1

Reset == Is("reset") /\ Step
         /\ ver' = [u \in Docs |-> 0] /\ isOpen' = [u \in Docs |-> FALSE] /\ owed' = [u \in Docs |-> 0]
         /\ jobs' = <<>> /\ published' = [u \in Docs |-> 0]

Deliver == Is("deliver") /\ Step
           /\ Ev.v >= ver[Ev.u]
           /\ ver' = [ver EXCEPT ![Ev.u] = Ev.v] /\ isOpen' = [isOpen EXCEPT ![Ev.u] = TRUE]
           /\ owed' = [owed EXCEPT ![Ev.u] = @ + 1]
           /\ UNCHANGED <<jobs, published>>

Close == Is("close") /\ Step /\ isOpen' = [isOpen EXCEPT ![Ev.u] = FALSE] /\ UNCHANGED <<ver, owed, jobs, published>>
Open  == Is("open") /\ Step /\ Ev.v >= ver[Ev.u]
         /\ ver' = [ver EXCEPT ![Ev.u] = Ev.v] /\ isOpen' = [isOpen EXCEPT ![Ev.u] = TRUE] /\ owed' = [owed EXCEPT ![Ev.u] = @ + 1]
         /\ UNCHANGED <<jobs, published>>

Known(g) == g \in DOMAIN jobs

HookStart == Is("hook") /\ Ev.p = "start" /\ Step
             /\ ~Known(Ev.g) /\ owed[Ev.u] > 0                       \* a job is started by a delivery
             /\ owed' = [owed EXCEPT ![Ev.u] = @ - 1]
             /\ jobs' = [g \in DOMAIN jobs \cup {Ev.g} |-> IF g = Ev.g THEN [u |-> Ev.u, pc |-> "start"] ELSE jobs[g]]
             /\ UNCHANGED <<ver, isOpen, published>>

Advance(p, from) == Is("hook") /\ Ev.p = p /\ Step
             /\ Known(Ev.g) /\ jobs[Ev.g].u = Ev.u /\ jobs[Ev.g].pc \in from
             /\ jobs' = [jobs EXCEPT ![Ev.g].pc = p]
             /\ UNCHANGED <<ver, isOpen, owed, published>>

HookDone == Is("hook") /\ Ev.p = "done" /\ Step
             /\ Known(Ev.g) /\ jobs[Ev.g].u = Ev.u
             /\ jobs' = [g \in DOMAIN jobs \ {Ev.g} |-> jobs[g]]
             /\ UNCHANGED <<ver, isOpen, owed, published>>

Pub == Is("pub") /\ Step
       /\ Known(Ev.g) /\ jobs[Ev.g].u = Ev.u                         \* sent by a live job of that document
       /\ jobs[Ev.g].pc \in {"start", "publish"}                      \* either the early "diagnostics off" answer or at the publish point
       /\ Ev.v <= ver[Ev.u]                                           \* from a version that exists
       /\ published' = [published EXCEPT ![Ev.u] = Ev.v]
       /\ UNCHANGED <<ver, isOpen, owed, jobs>>

Quiesce == Is("quiesce") /\ Step
           /\ DOMAIN jobs = {}
           /\ \A d \in Docs : owed[d] = 0 /\ (isOpen[d] => published[d] = ver[d])      \* Converged
           /\ UNCHANGED <<ver, isOpen, owed, jobs, published>>

Next == Reset \/ Deliver \/ Close \/ Open \/ HookStart \/ Advance("loaded", {"start"}) \/ Advance("publish", {"loaded"}) \/ HookDone \/ Pub \/ Quiesce
Spec == Init /\ [][Next]_vars

Mark == TLCSet(1, l)
Accepted == PrintT(<<"HIGHWATER", TLCGet(1), Len(Trace)>>)
=============================================================================
