------------------------------- MODULE Damage -------------------------------
(***************************************************************************)
(* C07 (and the broken-input part of C04/C05) -- damages of one entry.     *)
(*                                                                         *)
(* A case is a journal of G (drawn by JournalRand, clean region) and, for  *)
(* every transaction or directive e of it, EVERY damage of the kinds the   *)
(* property lists, applied to the rendered lines of e only:                *)
(*                                                                         *)
(*   trunc l c     line l cut after c UTF-16 units (every proper prefix)   *)
(*   del l  dup l  line l deleted / written twice                          *)
(*   swap l        lines l and l+1 exchanged                               *)
(*   ins l c j     junk j inserted at column c, c ranging over the         *)
(*                 boundaries of the lexemes of line l (stray operators,   *)
(*                 brackets, quotes, marks; control bytes, invalid UTF-8,  *)
(*                 an unterminated quote, nested parentheses, a huge       *)
(*                 exponent, a 1 KiB run)                                  *)
(*   dropc l c     the closing ) ] or quote at column c removed            *)
(*                                                                         *)
(* The model knows what must be unaffected: every other entry keeps its    *)
(* abstract content; entries after e move by (new line count - old line    *)
(* count); syntax errors may only lie on the lines e now occupies.         *)
(* Damages that would legitimately couple e with a neighbour are not       *)
(* generated: G separates a transaction from its neighbours by a blank     *)
(* line, and the first line of a two-line directive is not deleted or      *)
(* swapped away when the previous entry is an adjacent directive (the      *)
(* orphaned sub-line could be read as belonging to that directive).        *)
(*                                                                         *)
(* Junk that a TLA+ string cannot hold is written as a private-use         *)
(* character and substituted by the check: U+E000 = bytes 01 7F,           *)
(* U+E001 = bytes FF FE (invalid UTF-8), U+E002 = 1 KiB of 'a'.            *)
(***************************************************************************)
EXTENDS JournalRand, Json

CONSTANTS MaxEntries

Junk == << "@", "@@", "=", "==", "(", ")", "[", "]", "\"", "|", ";", "*", "!", "-", "+", ":", ",", ".",
           "", "", "", "\"unterminated", "((((", "1E99999999",
           " lunch with Bob", " {$150.00}", " 5 EUR" >>      \* text the posting grammar has no slot for: a note without its semicolon, a lot price, a second amount

DropLine(s, l) == SubSeq(s, 1, l - 1) \o SubSeq(s, l + 1, Len(s))

Apply(lines, d) ==
    CASE d.k = "trunc" -> [lines EXCEPT ![d.l] = SubSeq(@, 1, d.c)]
      [] d.k = "del"   -> DropLine(lines, d.l)
      [] d.k = "dup"   -> SubSeq(lines, 1, d.l) \o SubSeq(lines, d.l, Len(lines))
      [] d.k = "swap"  -> [lines EXCEPT ![d.l] = lines[d.l + 1], ![d.l + 1] = lines[d.l]]
      [] d.k = "ins"   -> [lines EXCEPT ![d.l] = SubSeq(@, 1, d.c) \o Junk[d.j] \o SubSeq(@, d.c + 1, Len(@))]
      [] d.k = "dropc" -> [lines EXCEPT ![d.l] = SubSeq(@, 1, d.c) \o SubSeq(@, d.c + 2, Len(@))]
      [] OTHER         -> lines

Boundaries(line, lex) == {0, Len(line)} \cup { lex[x].c0 : x \in 1..Len(lex) } \cup { lex[x].c1 : x \in 1..Len(lex) }
Closers(line) == { c \in 0..(Len(line) - 1) : SubSeq(line, c + 1, c + 1) \in {")", "]", "\""} }

(* all damages of an entry whose rendered lines are `lines` (strings) with lexeme tables `lex`;
   coupled = the entry is a two-line directive directly preceded by a directive line *)
DamagesOf(lines, lex, coupled) ==
    LET n == Len(lines) IN
    UNION { { [k |-> "trunc", l |-> l, c |-> c, j |-> 0] : c \in 0..(Len(lines[l]) - 1) } : l \in 1..n }
    \cup { [k |-> "del", l |-> l, c |-> 0, j |-> 0] : l \in (IF coupled THEN 2..n ELSE 1..n) }
    \cup { [k |-> "dup", l |-> l, c |-> 0, j |-> 0] : l \in 1..n }
    \cup { [k |-> "swap", l |-> l, c |-> 0, j |-> 0] : l \in (IF coupled THEN 2..(n - 1) ELSE 1..(n - 1)) }
    \* junk that begins with a blank is not put at the very beginning of a line: an indented line belongs to the entry ABOVE it
    \cup UNION { { d \in { [k |-> "ins", l |-> l, c |-> c, j |-> j] : c \in Boundaries(lines[l], lex[l]), j \in 1..Len(Junk) } :
                        d.c > 0 \/ SubSeq(Junk[d.j], 1, 1) # " " } : l \in 1..n }
    \cup UNION { { [k |-> "dropc", l |-> l, c |-> c, j |-> 0] : c \in Closers(lines[l]) } : l \in 1..n }

IsTarget(e) == IsTx(e) \/ e.dir \in {"account", "commodity", "include", "P", "Y", "D"}

(* entry i directly follows a line of entry i-1 (no blank line between them) *)
Adjacent(r, es, i) == i > 1 /\ r.firsts[i] = r.firsts[i - 1] + Len(RenEntry(es[i - 1])) /\ ~(~IsTx(es[i - 1]) /\ es[i - 1].dir = "blank")

CaseOf(ch) ==
    LET es == ch.es
        r == RenderedT(es, ch.tight)
        cnt(i) == Len(RenEntry(es[i]))
    IN [ lines |-> r.lines, firsts |-> r.firsts, abs |-> r.abs, tight |-> ch.tight,
         counts |-> [i \in 1..Len(es) |-> cnt(i)],
         targets |-> { i \in 1..Len(es) : IsTarget(es[i]) },
         damages |-> [i \in 1..Len(es) |->
             IF ~IsTarget(es[i]) THEN {}
             ELSE LET f == r.firsts[i]
                      ls == SubSeq(r.lines, f, f + cnt(i) - 1)
                      lx == SubSeq(r.lex, f, f + cnt(i) - 1)
                      coupled == cnt(i) >= 2 /\ Adjacent(r, es, i)
                  IN { [d |-> d, new |-> Apply(ls, d)] : d \in DamagesOf(ls, lx, coupled) } ] ]

VARIABLES cas, stg
vars == <<cas, stg>>

Init == cas = <<>> /\ stg = 0
Next == stg = 0 /\ stg' = 1 /\ cas' = [es |-> RandJournalN(stg, MaxEntries), tight |-> Coin(2, stg)]

Usable == Len(cas.es) >= 2 /\ \E i \in 1..Len(cas.es) : IsTarget(cas.es[i])
WellFormed == \A i \in 1..Len(cas.es) : IsTx(cas.es[i]) => TxOK(cas.es[i])

(* theorems about the damage operator itself *)
Theorems ==
    (stg = 1 /\ Usable /\ WellFormed) =>
    LET c == CaseOf(cas) IN
    \A i \in c.targets : \A x \in c.damages[i] :
        /\ x.new # SubSeq(c.lines, c.firsts[i], c.firsts[i] + c.counts[i] - 1) \/ x.d.k \in {"swap", "dup"}
        /\ Len(x.new) \in { c.counts[i] - 1, c.counts[i], c.counts[i] + 1 }
        /\ (x.d.k = "del") = (Len(x.new) = c.counts[i] - 1)

Emit == (stg = 1 /\ Usable /\ WellFormed) => PrintT(ToJson(CaseOf(cas)))
=============================================================================
