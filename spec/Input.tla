------------------------------- MODULE Input -------------------------------
(***************************************************************************)
(* C06 -- small-scope enumeration of ARBITRARY content.                    *)
(*                                                                         *)
(* "chars":   every string of length <= MaxLen over 28 representatives of  *)
(*            the character classes the lexer dispatches on (digit, lower, *)
(*            upper, the exponent letter, blank, TAB, LF, CR, the          *)
(*            punctuation the grammar gives meaning to, a non-ASCII BMP    *)
(*            character, a non-BMP character, a control byte and a byte    *)
(*            that is invalid UTF-8), placed at the start of a line, after *)
(*            an indent, as a posting line under a transaction header and  *)
(*            as an indented line under a directive.                       *)
(* "lexemes": every sequence of <= MaxLen hostile lexemes (huge exponents, *)
(*            40-digit numbers, unterminated quotes, nested parentheses,   *)
(*            valid and impossible dates, operators, directive keywords,   *)
(*            10 KiB runs), laid out on one line, as a posting line, one   *)
(*            lexeme per line, and each as the amount of a posting of one  *)
(*            transaction (so that the balance arithmetic meets them).     *)
(* Bytes a TLA+ string cannot hold are private-use characters substituted  *)
(* by the check: U+E000 = 01 7F, U+E001 = FF FE, U+E003 = 10 KiB of 'a',   *)
(* U+E004 = 10 KiB of "1,", U+E005 = NUL.                                  *)
(***************************************************************************)
EXTENDS Integers, Sequences, TLC, Json

CONSTANTS Family, MaxLen

Chars == << "1", "a", "A", "E", " ", "\t", "\n", "\r", ";", ":", "(", ")", "[", "]", "\"", "@", "=", "-", "+", ".", ",", "|", "*", "$",
            "é", "😀", "", "" >>

Lexemes == << "1E99999999", "9999999999999999999999999999999999999999", "1e-99999999", "\"", "((", "2024-01-01", "2024-13-99", "=", "@@",
              "", "", "include", "commodity", "Y", "99999", ";a:", ",", ":", "", "" >>

RECURSIVE Cat(_, _)
Cat(ss, sep) == IF Len(ss) = 0 THEN "" ELSE IF Len(ss) = 1 THEN ss[1] ELSE ss[1] \o sep \o Cat(Tail(ss), sep)

(* all sequences of length <= n over 1..k, as index sequences *)
RECURSIVE Seqs(_, _)
Seqs(k, n) == IF n = 0 THEN {<<>>} ELSE LET S == Seqs(k, n - 1) IN S \cup { Append(s, i) : s \in { x \in S : Len(x) = n - 1 }, i \in 1..k }

Placements == {"start", "indent", "posting", "sub"}
Layouts == {"line", "posting", "lines", "amounts", "sub"}

TextOfChars(s, pl) ==
    LET body == Cat([i \in 1..Len(s) |-> Chars[s[i]]], "") IN
    CASE pl = "start"   -> body
      [] pl = "indent"  -> "    " \o body
      [] pl = "sub"     -> "account a:b\n  " \o body            \* an indented line under a directive (its "subdirectives"); no final newline
      [] OTHER          -> "2024-01-01 x\n    " \o body

TextOfLexemes(s, lay) ==
    LET ws == [i \in 1..Len(s) |-> Lexemes[s[i]]] IN
    CASE lay = "line"    -> Cat(ws, " ")
      [] lay = "posting" -> "2024-01-01 x\n    " \o Cat(ws, "  ")
      [] lay = "sub"     -> "commodity $\n  " \o Cat(ws, " ")
      [] lay = "amounts" -> "2024-01-01 x\n" \o Cat([i \in 1..Len(ws) |-> "    a:b  " \o ws[i]], "\n") \o "\n    c:d  1 USD\n"
      [] OTHER           -> Cat(ws, "\n")

(* "comments": a comment whose text is any string of <= MaxLen characters over what matters inside comments (tag syntax):
   letters ASCII / non-ASCII / non-BMP, colon, comma, blank -- as a top-level comment, a header comment and a posting comment *)
CChars == << "a", "é", "😀", ":", ",", " ", "1" >>
CPlacements == {"top", "header", "posting"}
TextOfComment(s, pl) ==
    LET body == Cat([i \in 1..Len(s) |-> CChars[s[i]]], "") IN
    CASE pl = "top"    -> ";" \o body
      [] pl = "header" -> "2024-01-01 x  ;" \o body \o "\n    a:b  1\n    c:d"
      [] OTHER         -> "2024-01-01 x\n    a:b  1  ;" \o body \o "\n    c:d"

VARIABLES par, stg
vars == <<par, stg>>

Init == /\ stg = 0
        /\ par \in IF Family = "chars" THEN { <<s, pl>> : s \in Seqs(Len(Chars), MaxLen), pl \in Placements }
                    ELSE IF Family = "chars-start" THEN { <<s, "start">> : s \in Seqs(Len(Chars), MaxLen) }     \* one placement: a third of the states
                    ELSE IF Family = "comments" THEN { <<s, pl>> : s \in Seqs(Len(CChars), MaxLen), pl \in CPlacements }
                    ELSE { <<s, lay>> : s \in Seqs(Len(Lexemes), MaxLen), lay \in Layouts }
Next == stg = 0 /\ stg' = 1 /\ UNCHANGED par

TextOf(p) == IF Family \in {"chars", "chars-start"} THEN TextOfChars(p[1], p[2]) ELSE IF Family = "comments" THEN TextOfComment(p[1], p[2]) ELSE TextOfLexemes(p[1], p[2])

(* theorem of the enumeration itself: the number of cases is sum_{i<=MaxLen} k^i times the placements *)
Emit == stg = 1 => PrintT(ToJson([t |-> TextOf(par), n |-> Len(par[1]), w |-> par[2]]))
=============================================================================
