------------------------------ MODULE DiagDeps ------------------------------
(***************************************************************************)
(* C13 -- the last word about a document depends on MORE than its own text.*)
(*                                                                         *)
(* Diag.tla treats the diagnostics of a document as a function of that     *)
(* document's version.  They are a function of the versions of every       *)
(* document it depends on as well: main.journal includes decl.journal, and *)
(* which postings of main are warned about follows what decl declares.     *)
(*                                                                         *)
(* State: ver[u] the version of every open document; pending = documents   *)
(* for which an analysis is still owed; pub[u] = the versions of ALL       *)
(* documents that the last publication for u was computed from (an         *)
(* analysis reads the world when it runs).  Dep = pairs <<u, d>>: u's      *)
(* diagnostics depend on d.                                                *)
(* Mechanisms (constant Mech):                                             *)
(*   "own-job-only"          a change of d starts an analysis of d         *)
(*   "reanalyse-dependents"  ... and of every open document that depends   *)
(*                           on d                                          *)
(* Contract ConvergedDeps: once nothing is owed, the last publication of   *)
(* every document was computed from the CURRENT version of the document    *)
(* and of everything it depends on.  TLC: "own-job-only" violates it       *)
(* (Change(decl) after main was analysed), "reanalyse-dependents" keeps    *)
(* it.  The server implements "own-job-only": every history is replayed    *)
(* serially and the client's last publications are compared with those of  *)
(* a fresh server given the final texts; the difference is the known       *)
(* finding C13/dependents-not-analysed-again.                              *)
(***************************************************************************)
EXTENDS Naturals, Sequences, FiniteSets, TLC, Json

CONSTANTS Docs, Dep, MaxChanges, Mech

VARIABLES ver, pending, pub, h
vars == <<ver, pending, pub, h>>

DepsOf(u) == {u} \cup { p[2] : p \in { q \in Dep : q[1] = u } }
Dependents(d) == { p[1] : p \in { q \in Dep : q[2] = d } }

Init == /\ ver = [u \in Docs |-> 1]
        /\ pending = {}
        /\ pub = [u \in Docs |-> [d \in Docs |-> 1]]       \* every document was opened and analysed in the initial world
        /\ h = <<>>

Change(u) == /\ Len(h) < MaxChanges
             /\ ver' = [ver EXCEPT ![u] = @ + 1]
             /\ pending' = pending \cup {u} \cup (IF Mech = "reanalyse-dependents" THEN Dependents(u) ELSE {})
             /\ h' = Append(h, [op |-> "change", uri |-> u, ver |-> ver[u] + 1])
             /\ UNCHANGED pub

(* the analysis owed for u runs: it reads the world as it is now and publishes *)
Run(u) == /\ u \in pending
          /\ pending' = pending \ {u}
          /\ pub' = [pub EXCEPT ![u] = ver]
          /\ UNCHANGED <<ver, h>>

Next == \E u \in Docs : Change(u) \/ Run(u)
Spec == Init /\ [][Next]_vars

ConvergedDeps == pending = {} => \A u \in Docs : \A d \in DepsOf(u) : pub[u][d] = ver[d]

Emit == (Len(h) = MaxChanges /\ pending = {}) => PrintT(ToJson([h |-> h, final |-> ver]))
=============================================================================
