------------------------------ MODULE DocSync ------------------------------
(***************************************************************************)
(* C01: the reference LSP client buffer.  Also the edit semantics used to  *)
(* apply TextEdits/WorkspaceEdits in C04, C05, C09 (the Go applier is      *)
(* validated against behaviours of this module).                           *)
(*                                                                         *)
(* A text is a sequence over Sym: "a" ASCII letter, "e" BMP non-ASCII      *)
(* letter (é: 1 UTF-16 unit, 2 bytes), "A" astral (😀: 2 UTF-16 units, 4   *)
(* bytes), "N" line feed, "R" carriage return (only ever directly before   *)
(* "N").  Positions are (line, character) with character in UTF-16 units.  *)
(***************************************************************************)
EXTENDS Naturals, Sequences, FiniteSets, TLC, Json, SequencesExt

CONSTANTS URIs, MaxLen, MaxOps, InsertTexts, AllowZeroRange, TwoChanges,
          Rand   \* TRUE (simulation): each action draws its argument with RandomElement, so the out-degree stays small

Sym == {"a", "e", "A", "N", "R"}
U16(s) == IF s = "A" THEN 2 ELSE 1

(* ---- well-formed texts: CR only directly before LF ------------------------- *)
WellFormed(t) == \A i \in 1..Len(t) : t[i] = "R" => (i < Len(t) /\ t[i + 1] = "N")
Texts(n) == { t \in UNION { [1..k -> Sym] : k \in 0..n } : WellFormed(t) }

(* ---- positions --------------------------------------------------------------- *)
IsEOL(t, off) ==   \* the symbol after offset `off` ends the line's content
    off < Len(t) /\ (t[off + 1] = "N" \/ (t[off + 1] = "R" /\ off + 2 <= Len(t) /\ t[off + 2] = "N"))

NumLines(t) == 1 + Cardinality({ i \in 1..Len(t) : t[i] = "N" })

(* offset (number of symbols before) of the start of line l, l < NumLines(t) *)
LineStart(t, l) ==
    IF l = 0 THEN 0
    ELSE CHOOSE i \in 1..Len(t) : t[i] = "N" /\ Cardinality({ j \in 1..i : t[j] = "N" }) = l

RECURSIVE Adv(_, _, _)
Adv(t, off, ch) ==
    IF ch = 0 \/ off >= Len(t) \/ IsEOL(t, off) THEN off
    ELSE Adv(t, off + 1, IF ch >= U16(t[off + 1]) THEN ch - U16(t[off + 1]) ELSE 0)

(* LSP position -> offset: a line past the end is the end of the document, a character past
   the end of the line's content clamps to the end of the content (before CR LF / LF). *)
Off(t, line, ch) == IF line >= NumLines(t) THEN Len(t) ELSE Adv(t, LineStart(t, line), ch)

RECURSIVE U16Len(_, _)
U16Len(t, off) == IF off >= Len(t) \/ IsEOL(t, off) THEN 0 ELSE U16(t[off + 1]) + U16Len(t, off + 1)
LineLen(t, l) == U16Len(t, LineStart(t, l))      \* UTF-16 length of the content of line l

(* characters of line l that are not inside a surrogate pair, plus one past the end *)
RECURSIVE Bounds(_, _, _)
Bounds(t, off, ch) == IF off >= Len(t) \/ IsEOL(t, off) THEN {ch, ch + 1}
                      ELSE {ch} \cup Bounds(t, off + 1, ch + U16(t[off + 1]))
Positions(t) == UNION { { <<l, ch>> : ch \in Bounds(t, LineStart(t, l), 0) } : l \in 0..(NumLines(t) - 1) }
                \cup { <<NumLines(t), 0>> }
PosLE(p, q) == p[1] < q[1] \/ (p[1] = q[1] /\ p[2] <= q[2])

(* ---- applying changes ---------------------------------------------------------- *)
Splice(t, s, e, x) == SubSeq(t, 1, s) \o x \o SubSeq(t, e + 1, Len(t))

ApplyOne(t, c) ==
    IF ~c.ranged THEN c.text
    ELSE LET s == Off(t, c.sl, c.sc)
             e == Off(t, c.el, c.ec)
         IN Splice(t, s, e, c.text)

RECURSIVE ApplyAll(_, _)
ApplyAll(t, cs) == IF cs = <<>> THEN t ELSE ApplyAll(ApplyOne(t, Head(cs)), Tail(cs))

Ranged(p, q, x) == [ranged |-> TRUE, sl |-> p[1], sc |-> p[2], el |-> q[1], ec |-> q[2], text |-> x]
Full(x)         == [ranged |-> FALSE, sl |-> 0, sc |-> 0, el |-> 0, ec |-> 0, text |-> x]
ZeroRange(c)    == c.ranged /\ c.sl = 0 /\ c.sc = 0 /\ c.el = 0 /\ c.ec = 0

ChangesOf(t) ==
    { Ranged(p, q, x) : p \in Positions(t), q \in Positions(t), x \in InsertTexts } \cup { Full(x) : x \in InsertTexts }
Allowed(t, c) == /\ (c.ranged => PosLE(<<c.sl, c.sc>>, <<c.el, c.ec>>))
                 /\ (ZeroRange(c) => AllowZeroRange)
                 /\ WellFormed(ApplyOne(t, c))
                 /\ Len(ApplyOne(t, c)) <= MaxLen + 3

(* ---- behaviour -------------------------------------------------------------------- *)
VARIABLES open, docs, h, drawn
vars == <<open, docs, h, drawn>>

Init == /\ open = [u \in URIs |-> FALSE]
        /\ docs = [u \in URIs |-> <<>>]
        /\ h = <<>>
        /\ drawn = <<>>

More == Len(h) < MaxOps

Open(u, t) == /\ More /\ ~open[u]
              /\ open' = [open EXCEPT ![u] = TRUE]
              /\ docs' = [docs EXCEPT ![u] = t]
              /\ h' = Append(h, [op |-> "open", uri |-> u, text |-> t, expect |-> t])

Close(u) == /\ More /\ open[u]
            /\ open' = [open EXCEPT ![u] = FALSE]
            /\ docs' = [docs EXCEPT ![u] = <<>>]
            /\ h' = Append(h, [op |-> "close", uri |-> u])

Change(u, cs) == /\ More /\ open[u]
                 /\ docs' = [docs EXCEPT ![u] = ApplyAll(docs[u], cs)]
                 /\ h' = Append(h, [op |-> "change", uri |-> u, changes |-> cs, expect |-> ApplyAll(docs[u], cs)])
                 /\ UNCHANGED open

(* Simulation: arguments are drawn with RandomElement.  The draw is assigned to the variable
   `drawn` first and every other primed variable is computed from drawn', so one step uses
   one consistent draw. *)
AllTexts == Texts(MaxLen)
RandChange(t) ==
    LET ps == Positions(t)
        p  == RandomElement(ps)
        q  == RandomElement(ps)
        x  == RandomElement(InsertTexts)
    IN  IF RandomElement(1..6) = 1 THEN Full(x)
        ELSE IF PosLE(p, q) THEN Ranged(p, q, x) ELSE Ranged(q, p, x)

ChangeDrawn(u) ==
    /\ More /\ open[u]
    /\ docs' = [docs EXCEPT ![u] = ApplyAll(docs[u], drawn')]
    /\ h' = Append(h, [op |-> "change", uri |-> u, changes |-> drawn', expect |-> ApplyAll(docs[u], drawn')])
    /\ UNCHANGED open

RECURSIVE AllAllowed(_, _)
AllAllowed(t, cs) == IF Len(cs) = 0 THEN TRUE
                     ELSE Allowed(t, cs[1]) /\ AllAllowed(ApplyOne(t, cs[1]), Tail(cs))

RandNext ==
    \/ \E u \in URIs : /\ ~open[u]
                        /\ drawn' = << Full(RandomElement(AllTexts)) >>
                        /\ Open(u, drawn'[1].text)
    \/ \E u \in URIs : Close(u) /\ drawn' = <<>>
    \/ \E u \in URIs, k \in 1..3 :
          /\ open[u]
          /\ drawn' = IF k = 1 THEN << RandChange(docs[u]) >>
                       ELSE IF k = 2 THEN LET c1 == RandChange(docs[u]) IN << c1, RandChange(ApplyOne(docs[u], c1)) >>
                       ELSE LET c1 == RandChange(docs[u])
                                t1 == ApplyOne(docs[u], c1)
                                c2 == RandChange(t1)
                            IN << c1, c2, RandChange(ApplyOne(t1, c2)) >>
          /\ AllAllowed(docs[u], drawn')
          /\ ChangeDrawn(u)

AllNext ==
        \/ \E u \in URIs, t \in Texts(MaxLen) : Open(u, t)
        \/ \E u \in URIs : Close(u)
        \/ \E u \in URIs : \E c1 \in ChangesOf(docs[u]) :
              /\ Allowed(docs[u], c1)
              /\ \/ Change(u, <<c1>>)
                 \/ /\ TwoChanges
                    /\ \E c2 \in ChangesOf(ApplyOne(docs[u], c1)) :
                          Allowed(ApplyOne(docs[u], c1), c2) /\ Change(u, <<c1, c2>>)

(* the depth guard comes first: a history of MaxOps notifications has no successor, and TLC does not enumerate the
   (large) sets of changes only to find every disjunct disabled *)
Next == More /\ (IF Rand THEN RandNext ELSE (AllNext /\ drawn' = drawn))

Spec == Init /\ [][Next]_vars

(* ---- theorems of the contract, checked by TLC on everything it generates ----------- *)
TypeOK == \A u \in URIs : WellFormed(docs[u]) /\ (~open[u] => docs[u] = <<>>)

(* an empty range is an insertion, wherever it is -- in particular at 0:0 *)
EmptyRangeIsInsertion ==
    [][ \A u \in URIs :
          (open[u] /\ open'[u] /\ Len(h') = Len(h) + 1 /\ h'[Len(h')].op = "change" /\ h'[Len(h')].uri = u
           /\ Len(h'[Len(h')].changes) = 1)
          => LET c == h'[Len(h')].changes[1]
             IN (c.ranged /\ c.sl = c.el /\ c.sc = c.ec) => Len(docs'[u]) = Len(docs[u]) + Len(c.text) ]_vars

(* a position past the end of a line denotes the same place as the end of that line *)
ClampOK == \A u \in URIs : open[u] =>
              \A l \in 0..(NumLines(docs[u]) - 1) :
                  Off(docs[u], l, LineLen(docs[u], l) + 1) = Off(docs[u], l, LineLen(docs[u], l))

Emit == (Len(h) = MaxOps) => PrintT(ToJson(h))
=============================================================================
