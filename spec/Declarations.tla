---------------------------- MODULE Declarations ----------------------------
(***************************************************************************)
(* C18 -- undeclared-account / undeclared-commodity warnings.              *)
(*                                                                         *)
(* A case is a small workspace (1..3 files connected by include            *)
(* directives, rendered with Journal.tla), the file the user has open,     *)
(* whether the server was given a workspace root, the three diagnostics    *)
(* settings, and where `account` / `commodity` directives live.  The       *)
(* module defines, from the TEXT of account names (segments split at ':',  *)
(* ASCII lower-casing of the first segment) and from the abstract journals *)
(* what the property says must be warned about:                            *)
(*                                                                         *)
(*   Scope     = include tree of the current file, plus the root's tree    *)
(*               when there is a workspace root                            *)
(*   DA, DC    = accounts / commodities declared by the files in scope     *)
(*   account warning on posting p of the current file                      *)
(*       <=>  DA # {} /\ ~Standard(top segment) /\ ~declared /\ ~below     *)
(*   commodity warning (tx, c), once                                       *)
(*       <=>  DC # {} /\ c used in an amount, cost or assertion of tx      *)
(*            /\ c \notin DC                                               *)
(*   each family is empty when its switch is off, whatever the other two   *)
(*   switches say.                                                         *)
(*                                                                         *)
(* Histories: a second phase rewrites one file (declarations added,        *)
(* removed or replaced); the warnings of the current file must follow.     *)
(***************************************************************************)
EXTENDS Journal, Json, Text

CONSTANTS Family

(* ---- account names as text: Segs, LowerStr live in Text.tla ------------------------------------- *)
Standard == {"assets", "liabilities", "equity", "expenses", "revenues", "income"}

IsBelow(acc, d) == LET a == Segs(acc) b == Segs(d) IN Len(b) < Len(a) /\ SubSeq(a, 1, Len(b)) = b
Covered(acc, DA) == \E d \in DA : d = acc \/ IsBelow(acc, d)
StdTop(acc) == LowerStr(Segs(acc)[1], 1) \in Standard
WarnAccount(acc, DA) == DA # {} /\ ~StdTop(acc) /\ ~Covered(acc, DA)

(* ---- workspaces ------------------------------------------------------------------------------
   files[1] is always main.journal, the root a workspace discovers; inc[i] = indices of the files
   that file i includes, in order; cur = the file the user has open *)
Topologies == <<
  [files |-> <<"main.journal">>,                           inc |-> << <<>> >>,               cur |-> 1],
  [files |-> <<"main.journal", "a.journal">>,              inc |-> << <<2>>, <<>> >>,        cur |-> 1],
  [files |-> <<"main.journal", "a.journal">>,              inc |-> << <<2>>, <<>> >>,        cur |-> 2],
  [files |-> <<"main.journal", "a.journal", "s.journal">>, inc |-> << <<2, 3>>, <<>>, <<>> >>, cur |-> 2],
  [files |-> <<"main.journal", "a.journal", "b.journal">>, inc |-> << <<2>>, <<3>>, <<>> >>,  cur |-> 2],
  [files |-> <<"main.journal", "a.journal", "b.journal">>, inc |-> << <<2>>, <<3>>, <<>> >>,  cur |-> 1],
  [files |-> <<"main.journal", "x.journal", "b.journal">>, inc |-> << <<>>, <<3>>, <<>> >>,   cur |-> 2] >>

RECURSIVE TreeOf(_, _)
TreeOf(T, i) == {i} \cup UNION { TreeOf(T, T.inc[i][k]) : k \in 1..Len(T.inc[i]) }
Scope(T, ws) == TreeOf(T, T.cur) \cup (IF ws THEN TreeOf(T, 1) ELSE {})

PathIdx(name) == CHOOSE i \in 1..Len(IncludePathsX) : IncludePathsX[i] = name

(* ---- a case ---------------------------------------------------------------------------------
   declA[i] : sequence of account indices declared in file i
   declC[i] : sequence of commodity-directive choices written in file i
   txs      : transaction choices of the current file
   other files carry one filler transaction that uses undeclared names: it must never be warned
   about in the current file's diagnostics *)
Filler == Tx(D(2023, 12, 31), Text(2), << Post(8, <<Amt(3, 0, 6)>>), Post(20, <<>>) >>)

FileEntries(T, i, declA, declC, txs) ==
    [k \in 1..Len(T.inc[i]) |-> [dir |-> "include", path |-> PathIdx(T.files[T.inc[i][k]])]]
    \o [k \in 1..Len(declA[i]) |-> [dir |-> "account", acct |-> declA[i][k], cmt |-> NoCmt]]
    \o declC[i]
    \o (IF i = T.cur THEN txs ELSE <<Filler>>)

DeclaredAccounts(abs)    == { abs[k].name   : k \in { x \in 1..Len(abs) : abs[x].type = "account" } }
DeclaredCommodities(abs) == { abs[k].symbol : k \in { x \in 1..Len(abs) : abs[x].type = "commodity" } }

AmtSyms(lst) == IF Len(lst) = 0 THEN {} ELSE {lst[1].comm}
WrapSyms(lst) == IF Len(lst) = 0 THEN {} ELSE {lst[1].amount.comm}
TxSyms(tx) == (UNION { AmtSyms(tx.postings[k].amount) \cup WrapSyms(tx.postings[k].cost) \cup WrapSyms(tx.postings[k].assert) :
                        k \in 1..Len(tx.postings) }) \ {""}

Phase(T, declA, declC, txs, ws, st) ==
    LET ren == [i \in 1..Len(T.files) |-> Rendered(FileEntries(T, i, declA, declC, txs))]
        sc  == Scope(T, ws)
        DA  == UNION { DeclaredAccounts(ren[i].abs) : i \in sc }
        DC  == UNION { DeclaredCommodities(ren[i].abs) : i \in sc }
        cur == ren[T.cur]
        txIdx == { k \in 1..Len(cur.abs) : cur.abs[k].type = "tx" }
    IN [ files |-> [i \in 1..Len(T.files) |-> [name |-> T.files[i], lines |-> ren[i].lines]],
         da |-> DA, dc |-> DC,
         expA |-> IF ~st.ua THEN {} ELSE
                  { r \in UNION { { [line |-> cur.firsts[k] + p, name |-> cur.abs[k].postings[p].account] :
                                      p \in 1..Len(cur.abs[k].postings) } : k \in txIdx } : WarnAccount(r.name, DA) },
         expC |-> IF ~st.uc \/ DC = {} THEN {} ELSE
                  UNION { { [l0 |-> cur.firsts[k], l1 |-> cur.firsts[k] + Len(cur.abs[k].postings), name |-> c] :
                              c \in TxSyms(cur.abs[k]) \ DC } : k \in txIdx } ]

(* a case is first a record of PARAMETERS (cheap; enumerated as initial states) and is rendered by
   the workers in the one step that follows.  edit = <<>> or <<[declA, declC]>> : the second phase *)
MkCase(fam, T, declA, declC, txs, ws, st, edit) ==
    [fam |-> fam, T |-> T, declA |-> declA, declC |-> declC, txs |-> txs, ws |-> ws, st |-> st, edit |-> edit]

RenderCase(c) ==
    [ fam |-> c.fam, cur |-> c.T.files[c.T.cur], ws |-> c.ws, settings |-> c.st,
      phases |-> <<Phase(c.T, c.declA, c.declC, c.txs, c.ws, c.st)>> \o
                 (IF Len(c.edit) = 0 THEN <<>> ELSE <<Phase(c.T, c.edit[1].declA, c.edit[1].declC, c.txs, c.ws, c.st)>>) ]

(* ---- menus ---------------------------------------------------------------------------------- *)
AllSettings == [ua : BOOLEAN, uc : BOOLEAN, ub : BOOLEAN]
FewSettings == { [ua |-> TRUE, uc |-> TRUE, ub |-> TRUE], [ua |-> FALSE, uc |-> TRUE, ub |-> TRUE], [ua |-> TRUE, uc |-> FALSE, ub |-> FALSE] }
AllOn == [ua |-> TRUE, uc |-> TRUE, ub |-> TRUE]

N(T) == Len(T.files)
None(T) == [i \in 1..N(T) |-> <<>>]
OnlyIn(T, f, L) == [i \in 1..N(T) |-> IF i = f THEN L ELSE <<>>]
Split(T, f, g, L1, L2) == [i \in 1..N(T) |-> IF i = f THEN L1 ELSE IF i = g THEN L2 ELSE <<>>]

ALists == { <<7, 21>>, <<13>>, <<24, 14>> }    \* "misc:my wallet" + "reserve:fund😀"  |  "misc"  |  "reserve" + "misc:my wallet:sub"
(* single-segment names are written only in account directives: G's posting accounts have 2..4 segments *)
DeclAOptions(T) == { None(T) }
    \cup { OnlyIn(T, f, L) : f \in 1..N(T), L \in ALists }
    \cup UNION { { Split(T, f, g, <<7>>, <<21>>) : g \in 1..N(T) \ {f} } : f \in 1..N(T) }

CPlain(c) == [dir |-> "commodity", comm |-> c, form |-> "plain", fmt |-> 1]
CLists == { << CPlain(4), CPlain(7) >>,                                            \* USD and "A B"
            << [dir |-> "commodity", comm |-> 4, form |-> "inline", fmt |-> 1] >>,    \* commodity 1,000.00 USD
            << [dir |-> "commodity", comm |-> 5, form |-> "sub", fmt |-> 2] >> }      \* commodity EUR / format 1.000,00 EUR
DeclCOptions(T) == { None(T) }
    \cup { OnlyIn(T, f, L) : f \in 1..N(T), L \in CLists }
    \cup UNION { { Split(T, f, g, <<CPlain(4)>>, <<CPlain(7)>>) : g \in 1..N(T) \ {f} } : f \in 1..N(T) }

(* account usages: every class of name the statement distinguishes *)
AcctClasses == << 7, 14, 15, 8, 1, 12, 16, 17, 18, 6, 19, 20, 21, 22, 23, 9, 11 >>
RECURSIVE Rev(_)
Rev(s) == IF Len(s) = 0 THEN <<>> ELSE Append(Rev(Tail(s)), Head(s))
TxOf(accts, comm) == Tx(D(2024, 1, 15), Text(1), [k \in 1..Len(accts) |-> Post(accts[k], <<Amt(1, 0, comm)>>)])
BigUsages == { <<TxOf(AcctClasses, 4)>>, <<TxOf(Rev(AcctClasses), 4)>> }
SmallUsages == { <<TxOf(<<AcctClasses[k], 1>>, 4)>> : k \in 1..Len(AcctClasses) }
               \cup { <<TxOf(<<8, 8>>, 4)>>, <<TxOf(<<8, 1>>, 4), TxOf(<<1, 8>>, 4)>>, <<TxOf(<<1, 3>>, 4)>> }

(* commodity usages *)
A(m, comm) == Amt(m, 0, comm)
AL(m, comm) == [Amt(m, 0, comm) EXCEPT !.side = "L", !.sp = FALSE]
PC(acct, amt, cost, asrt) == [Post(acct, <<amt>>) EXCEPT !.cost = cost, !.asrt = asrt]
Cst(a) == <<[total |-> FALSE, a |-> a]>>
TCst(a) == <<[total |-> TRUE, a |-> a]>>
Ast(a) == <<[strict |-> FALSE, a |-> a]>>
TxP(posts) == Tx(D(2024, 2, 1), Text(2), posts)
CommUsages == {
  << TxP(<< Post(1, <<A(5, 5)>>), Post(3, <<>>) >>) >>,                                            \* EUR once
  << TxP(<< Post(1, <<A(5, 5)>>), Post(2, <<A(7, 5)>>), Post(3, <<>>) >>) >>,                       \* EUR twice: one warning
  << TxP(<< PC(1, A(10, 4), Cst(A(2, 5)), <<>>), Post(3, <<>>) >>) >>,                              \* only in a unit cost
  << TxP(<< PC(1, A(10, 4), TCst(A(2, 5)), <<>>), Post(3, <<>>) >>) >>,                             \* only in a total cost
  << TxP(<< PC(1, A(10, 4), <<>>, Ast(A(5, 5))), Post(3, <<>>) >>) >>,                              \* only in an assertion
  << TxP(<< PC(1, A(1, 5), Cst(AL(2, 1)), Ast(AL(3, 3))), Post(2, <<A(4, 5)>>), Post(3, <<>>) >>) >>,  \* EUR, $, ₽ once each
  << TxP(<< Post(1, <<A(5, 5)>>), Post(3, <<>>) >>), TxP(<< Post(2, <<A(6, 5)>>), Post(3, <<>>) >>) >>, \* one per transaction
  << TxP(<< Post(1, <<A(5, 5)>>), Post(2, <<AL(6, 1)>>), Post(3, <<>>) >>) >>,                      \* two different
  << TxP(<< Post(1, <<A(5, 4)>>), Post(2, <<A(6, 7)>>), Post(3, <<>>) >>) >>,                       \* USD and "A B"
  << TxP(<< Post(1, <<Amt(5, 0, 0)>>), Post(3, <<>>) >>) >>,                                         \* no commodity
  << TxP(<< Post(1, <<A(5, 9)>>), Post(2, <<A(6, 8)>>), Post(3, <<>>) >>) >>,                       \* hours, "дуб 😀"
  << TxP(<< Post(1, <<AL(5, 1)>>), Post(2, <<[AL(5, 1) EXCEPT !.neg = TRUE]>>) >>) >>,              \* $5 and -$5
  << TxP(<< Post(1, <<A(5, 4)>>), [Post(3, <<>>) EXCEPT !.asrt = Ast(A(100, 5))] >>) >>,             \* only in an assertion of a posting without amount
  << TxP(<< [Post(1, <<>>) EXCEPT !.asrt = Ast(AL(7, 1))], [Post(3, <<>>) EXCEPT !.asrt = <<[strict |-> TRUE, a |-> A(100, 5)]>>] >>) >> }
BigCommUsages == { u \in CommUsages : Len(u[1].posts) >= 3 /\ Len(u[1].posts[1].cost) = 1 /\ Len(u[1].posts[1].asrt) = 1 }

BothTx == << TxOf(AcctClasses, 5), TxP(<< PC(1, A(1, 5), Cst(AL(2, 1)), Ast(AL(3, 3))), Post(2, <<A(4, 4)>>), Post(3, <<>>) >>) >>

(* ---- families ------------------------------------------------------------------------------- *)
Topos(u) == { Topologies[i] : i \in 1..Len(Topologies) }

CasesOver(T, fam, dAs, dCs, uss, sts) ==
    { MkCase(fam, T, dA, dC, us, ws, st, <<>>) : dA \in dAs, dC \in dCs, us \in uss, ws \in BOOLEAN, st \in sts }

FamilySet(u) ==
    CASE Family = "acct" ->
           UNION { CasesOver(T, "acct", DeclAOptions(T), {None(T)}, BigUsages, AllSettings)
                   \cup CasesOver(T, "acct-small", DeclAOptions(T), {None(T)}, SmallUsages, FewSettings) : T \in Topos(0) }
      [] Family = "comm" ->
           UNION { CasesOver(T, "comm", {None(T)}, DeclCOptions(T), BigCommUsages, AllSettings)
                   \cup CasesOver(T, "comm-small", {None(T)}, DeclCOptions(T), CommUsages, FewSettings) : T \in Topos(0) }
      [] Family = "both" ->
           UNION { UNION { CasesOver(T, "both", {None(T), OnlyIn(T, f, <<7, 21>>)}, {None(T), OnlyIn(T, f, << CPlain(4), CPlain(7) >>)},
                                     {BothTx}, AllSettings) : f \in 1..N(T) } : T \in Topos(0) }
      [] Family = "hist" ->
           UNION { { MkCase("hist", T, e[1], e[2], BothTx, ws, AllOn, <<[declA |-> e[3], declC |-> e[4]]>>) :
                       ws \in BOOLEAN,
                       e \in UNION { { <<None(T), None(T), OnlyIn(T, f, <<7, 21>>), None(T)>>,
                                        <<OnlyIn(T, f, <<7, 21>>), None(T), None(T), None(T)>>,
                                        <<OnlyIn(T, f, <<7, 21>>), None(T), OnlyIn(T, f, <<13>>), None(T)>>,
                                        <<None(T), None(T), None(T), OnlyIn(T, f, << CPlain(4), CPlain(7) >>)>>,
                                        <<None(T), OnlyIn(T, f, << CPlain(4), CPlain(7) >>), None(T), None(T)>>,
                                        <<None(T), OnlyIn(T, f, << CPlain(4) >>), None(T), OnlyIn(T, f, << CPlain(5), CPlain(1), CPlain(3) >>)>>,
                                        <<OnlyIn(T, f, <<13>>), OnlyIn(T, f, << CPlain(4) >>), OnlyIn(T, f, <<7>>), OnlyIn(T, f, << CPlain(5) >>)>>,
                                        \* the ONE declaration of the name the file's transactions use first is removed / added: the file's
                                        \* list of names (declared and used, in order of first appearance) stays exactly the same
                                        <<OnlyIn(T, f, <<7>>), None(T), None(T), None(T)>>,
                                        <<None(T), None(T), OnlyIn(T, f, <<7>>), None(T)>>,
                                        <<None(T), OnlyIn(T, f, << CPlain(5) >>), None(T), None(T)>>,
                                        <<None(T), None(T), None(T), OnlyIn(T, f, << CPlain(5) >>)>> } :
                                     f \in 1..N(T) } } : T \in Topos(0) }
      [] OTHER -> {}

VARIABLES par, out
vars == <<par, out>>
Init == par \in FamilySet(0) /\ out = <<>>
Next == out = <<>> /\ out' = <<RenderCase(par)>> /\ UNCHANGED par

(* ---- theorems of the contract itself (checked on every generated case) ----------------------- *)
Theorems ==
    out # <<>> =>
    LET cas == out[1] p == cas.phases[1] IN
    /\ (~cas.settings.ua => p.expA = {}) /\ (~cas.settings.uc => p.expC = {})
    /\ (p.da = {} => p.expA = {}) /\ (p.dc = {} => p.expC = {})
    /\ \A r \in p.expA : r.name \notin p.da /\ LowerStr(Segs(r.name)[1], 1) \notin Standard
    /\ \A r \in p.expC : r.name \notin p.dc /\ r.name # ""

Emit == out # <<>> => PrintT(ToJson(out[1]))
=============================================================================
