---------------------------- MODULE LifecycleInd ----------------------------
(* Apalache: KnownIsView is an inductive invariant of the repaired mechanism of Lifecycle.tla, for ANY history
   (unbounded number of notifications, versions up to the bound of IndInit only because Apalache needs finite domains
   for the initial predicate).  The history variable of Lifecycle.tla is dropped: it does not influence the other variables. *)
EXTENDS Integers

CONSTANT
    \* @type: Set(Str);
    Docs

VARIABLES
    \* @type: Str -> Int;
    disk,
    \* @type: Str -> Bool;
    open,
    \* @type: Str -> Int;
    ed,
    \* @type: Str -> Int;
    known

CInit == Docs = {"u1", "u2", "u3"}

View(u) == IF open[u] THEN ed[u] ELSE disk[u]
KnownIsView == \A u \in Docs : known[u] = View(u)
TypeOK == \A u \in Docs : disk[u] <= ed[u] /\ ed[u] >= 1 /\ disk[u] >= 1

Init == /\ disk = [u \in Docs |-> 1] /\ open = [u \in Docs |-> TRUE] /\ ed = [u \in Docs |-> 1] /\ known = [u \in Docs |-> 1]

(* any state that satisfies the invariant (versions up to 30) *)
IndInit == /\ disk \in [Docs -> 1..30] /\ ed \in [Docs -> 1..30] /\ known \in [Docs -> 1..30] /\ open \in [Docs -> BOOLEAN]
           /\ TypeOK /\ KnownIsView

Change(u) == open[u] /\ ed' = [ed EXCEPT ![u] = @ + 1] /\ known' = [known EXCEPT ![u] = ed[u] + 1] /\ UNCHANGED <<disk, open>>
Save(u)   == disk' = [disk EXCEPT ![u] = ed[u]] /\ known' = [known EXCEPT ![u] = ed[u]] /\ UNCHANGED <<open, ed>>
Close(u)  == open[u] /\ open' = [open EXCEPT ![u] = FALSE] /\ known' = [known EXCEPT ![u] = disk[u]] /\ UNCHANGED <<disk, ed>>
Open(u)   == ~open[u] /\ open' = [open EXCEPT ![u] = TRUE] /\ known' = [known EXCEPT ![u] = ed[u]] /\ UNCHANGED <<disk, ed>>
Next == \E u \in Docs : Change(u) \/ Save(u) \/ Close(u) \/ Open(u)

IndInv == TypeOK /\ KnownIsView
=============================================================================
