---------------------------- MODULE LifecycleInd ----------------------------
(* Apalache: KnownIsView is an inductive invariant of the repaired mechanism of Lifecycle.tla, for ANY history
   (unbounded number of notifications, versions up to the bound of IndInit only because Apalache needs finite domains
   for the initial predicate).  The history variable of Lifecycle.tla is dropped: it does not influence the other variables. *)
EXTENDS Integers

CONSTANTS
    \* @type: Set(Str);
    Docs,
    \* @type: Str;
    Root

VARIABLES
    \* @type: Str -> Int;
    disk,
    \* @type: Str -> Bool;
    open,
    \* @type: Str -> Int;
    ed,
    \* @type: Str -> Int;
    known,
    \* @type: Set(Str);
    inc,
    \* @type: Set(Str);
    dinc

CInit == Docs = {"u1", "u2", "u3"} /\ Root = "u1"

View(u) == IF open[u] THEN ed[u] ELSE disk[u]
Tree == {Root} \cup (IF open[Root] THEN inc ELSE dinc)
KnownIsView == \A u \in Tree : known[u] = View(u)
TypeOK == /\ \A u \in Docs : disk[u] <= ed[u] /\ ed[u] >= 1 /\ disk[u] >= 1
          /\ inc \subseteq Docs \ {Root} /\ dinc \subseteq Docs \ {Root}

Init == /\ disk = [u \in Docs |-> 1] /\ open = [u \in Docs |-> TRUE] /\ ed = [u \in Docs |-> 1] /\ known = [u \in Docs |-> 1]
        /\ inc = Docs \ {Root} /\ dinc = Docs \ {Root}

(* any state that satisfies the invariant (versions up to 30) *)
IndInit == /\ disk \in [Docs -> 1..30] /\ ed \in [Docs -> 1..30] /\ known \in [Docs -> 1..30] /\ open \in [Docs -> BOOLEAN]
           /\ inc \in SUBSET Docs /\ dinc \in SUBSET Docs
           /\ TypeOK /\ KnownIsView

(* the repaired mechanism of Lifecycle.tla: members are followed, a joining document is fetched from its view *)
Tell(u, v) == IF u \in Tree THEN [known EXCEPT ![u] = v] ELSE known
\* @type: (Str -> Int, Set(Str)) => (Str -> Int);
Joining(k, tree2) == [u \in Docs |-> IF u \in tree2 /\ u \notin Tree THEN View(u) ELSE k[u]]

Change(u) == open[u] /\ ed' = [ed EXCEPT ![u] = @ + 1] /\ known' = Tell(u, ed[u] + 1) /\ UNCHANGED <<disk, open, inc, dinc>>
Link(u)   == /\ open[Root] /\ u # Root /\ u \notin inc /\ inc' = inc \cup {u} /\ ed' = [ed EXCEPT ![Root] = @ + 1]
             /\ known' = Joining(Tell(Root, ed[Root] + 1), {Root} \cup inc \cup {u}) /\ UNCHANGED <<disk, open, dinc>>
Unlink(u) == /\ open[Root] /\ u \in inc /\ inc' = inc \ {u} /\ ed' = [ed EXCEPT ![Root] = @ + 1]
             /\ known' = Tell(Root, ed[Root] + 1) /\ UNCHANGED <<disk, open, dinc>>
Save(u)   == /\ disk' = [disk EXCEPT ![u] = ed[u]] /\ dinc' = (IF u = Root THEN inc ELSE dinc)
             /\ known' = Joining(Tell(u, ed[u]), {Root} \cup (IF u = Root /\ ~open[Root] THEN inc ELSE Tree \ {Root}))
             /\ UNCHANGED <<open, ed, inc>>
Close(u)  == /\ open[u] /\ open' = [open EXCEPT ![u] = FALSE]
             /\ known' = Joining(Tell(u, disk[u]), {Root} \cup (IF u = Root THEN dinc ELSE Tree \ {Root}))
             /\ UNCHANGED <<disk, ed, inc, dinc>>
Open(u)   == /\ ~open[u] /\ open' = [open EXCEPT ![u] = TRUE]
             /\ known' = Joining(Tell(u, ed[u]), {Root} \cup (IF u = Root THEN inc ELSE Tree \ {Root}))
             /\ UNCHANGED <<disk, ed, inc, dinc>>
Next == \E u \in Docs : Change(u) \/ Save(u) \/ Close(u) \/ Open(u) \/ Link(u) \/ Unlink(u)

IndInv == TypeOK /\ KnownIsView
=============================================================================
