---------------------------- MODULE IncludeServer ----------------------------
(***************************************************************************)
(* C11, server level: the include tree the server resolves for a document  *)
(* after any history of open / edit / save / re-analyse notifications.     *)
(*                                                                         *)
(* disk[f] / dver[f]: include list and content version of file f on disk;  *)
(* buf[f] / bver[f]: the same for the editor buffer of an open file.       *)
(* Contract: whenever the server (re-)analyses document r, the tree it     *)
(* resolves is Resolve over the CURRENT contents -- r's buffer and every   *)
(* other file as it is on disk now -- exactly what a fresh loader reads.   *)
(* A saved file is on disk; the server is told (didSave) and must not      *)
(* keep serving an older parsed copy of it from its loader cache.          *)
(***************************************************************************)
EXTENDS Include, TLC, Json, SequencesExt

CONSTANTS MaxOps

VARIABLES disk, dver, buf, bver, isopen, nextver, h
vars == <<disk, dver, buf, bver, isopen, nextver, h>>

SetToSeq1(S) == SetToSortSeq(S, <)
One(a)    == << <<a>> >>
Two(a, b) == << <<a>>, <<b>> >>
Lists(f) == {<<>>} \cup { One(a) : a \in Files \ {f} } \cup { Two(a, b) : a \in Files \ {f}, b \in Files \ {f} }

Chain == [f \in Files |-> IF f < N THEN One(f + 1) ELSE <<>>]
Fan   == [f \in Files |-> IF f = 1 THEN [i \in 1..(N - 1) |-> <<i + 1>>] ELSE <<>>]

Init == /\ disk \in {Chain, Fan}
        /\ dver = [f \in Files |-> 1]
        /\ buf = disk
        /\ bver = [f \in Files |-> 1]
        /\ isopen = [f \in Files |-> FALSE]
        /\ nextver = 2
        /\ h = << [op |-> "init", disk |-> disk] >>

More == Len(h) <= MaxOps

(* what the server must resolve for document r right now *)
View(r, b, bv) == [f \in Files |-> IF f = r THEN b ELSE disk[f]]
Expect(r, b, bv) ==
    LET res == Resolve(View(r, b, bv), r, N + 1)
    IN [loaded |-> SetToSeq1(res.loaded), diags |-> SetToSeq(res.diags),
        versions |-> [f \in Files |-> IF f = r THEN bv ELSE dver[f]]]

Open(f) ==
    /\ More /\ ~isopen[f]
    /\ isopen' = [isopen EXCEPT ![f] = TRUE]
    /\ buf' = [buf EXCEPT ![f] = disk[f]]
    /\ bver' = [bver EXCEPT ![f] = dver[f]]
    /\ h' = Append(h, [op |-> "open", file |-> f, list |-> disk[f], ver |-> dver[f], expect |-> Expect(f, disk[f], dver[f])])
    /\ UNCHANGED <<disk, dver, nextver>>

Edit(f, l) ==
    /\ More /\ isopen[f]
    /\ buf' = [buf EXCEPT ![f] = l]
    /\ bver' = [bver EXCEPT ![f] = nextver]
    /\ nextver' = nextver + 1
    /\ h' = Append(h, [op |-> "change", file |-> f, list |-> l, ver |-> nextver, expect |-> Expect(f, l, nextver)])
    /\ UNCHANGED <<disk, dver, isopen>>

Save(f) ==
    /\ More /\ isopen[f] /\ bver[f] # dver[f]
    /\ disk' = [disk EXCEPT ![f] = buf[f]]
    /\ dver' = [dver EXCEPT ![f] = bver[f]]
    /\ h' = Append(h, [op |-> "save", file |-> f, list |-> buf[f], ver |-> bver[f]])
    /\ UNCHANGED <<buf, bver, isopen, nextver>>

Close(f) ==
    /\ More /\ isopen[f]
    /\ isopen' = [isopen EXCEPT ![f] = FALSE]
    /\ h' = Append(h, [op |-> "close", file |-> f])
    /\ UNCHANGED <<disk, dver, buf, bver, nextver>>

Next == \E f \in Files : \/ Open(f) \/ Save(f) \/ Close(f)
                         \/ Edit(f, RandomElement(Lists(f)))
                         \/ Edit(f, buf[f])              \* re-analyse with an unchanged include list (new content version)

Spec == Init /\ [][Next]_vars

Emit == (Len(h) = MaxOps + 1) => PrintT(ToJson(h))
=============================================================================
