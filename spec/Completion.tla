----------------------------- MODULE Completion -----------------------------
(***************************************************************************)
(* C16 -- what completion may and must offer.                              *)
(*                                                                         *)
(* Over a workspace of WorkspaceFiles.tla the module knows the symbol      *)
(* tables of the whole tree: account names (posted to or declared),        *)
(* payees, commodities (used in amounts, costs, assertions or declared),   *)
(* tag names and the values of each tag, with their use counts.  For every *)
(* context kind and a handful of names of that kind it derives typed       *)
(* FRAGMENTS from the names (prefixes of length 0, 1, 2, half, full; an    *)
(* upper-cased prefix; every other character = a pure subsequence; a       *)
(* string that matches nothing) and states for each fragment q             *)
(*                                                                         *)
(*   fuzzy   = names of the kind of which q is a subsequence (case-        *)
(*             insensitively): all that may be offered with fuzzy on       *)
(*   prefix  = names that start with q: all that may be offered with       *)
(*             fuzzy off, and all that MUST be offered when the limit      *)
(*             allows                                                      *)
(*   count   = use count of every name (order for the empty fragment)      *)
(***************************************************************************)
EXTENDS WorkspaceFiles, Text

AllFiles(c) == 1..Len(c.files)
\* the probe document includes the root: what it may be offered is what the files of the ROOT'S TREE contain
\* (a file of the folder that nothing includes is not part of the journal)
AllOcc(c) == UNION { c.files[i].occ : i \in c.files[1].tree }

AccountNames(c)   == { r.account : r \in c.tables[1].postings } \cup { o.name : o \in { x \in AllOcc(c) : x.k = "account" } }
PayeeNames(c)     == { r.payee : r \in c.tables[1].txcount }
CommodityNames(c) == { o.name : o \in { x \in AllOcc(c) : x.k = "commodity" } }
TagNames(c)       == { r.name : r \in c.tables[1].taguse }
TagValues(c, n)   == { r.value : r \in { x \in c.tables[1].tagvalue : x.name = n } } \ {""}

CountOf(S, key, n) == LET m == { r \in S : r[key] = n } IN IF m = {} THEN 0 ELSE (CHOOSE r \in m : TRUE).n

MinN(a, b) == IF a < b THEN a ELSE b
Fragments(n) ==
    { SubSeq(n, 1, k) : k \in {0, MinN(1, Len(n)), MinN(2, Len(n)), Len(n) \div 2, Len(n)} }
    \cup { UpperStr(SubSeq(n, 1, MinN(3, Len(n))), 1), EveryOther(n, 1, 7), "zzq" }

(* account names are typed segment by segment: the fragments that end right after a colon, and one character later,
   with the parent as written and in the other letter case *)
ColonCuts(n) ==
    LET ks == { k \in 1..Len(n) : SubSeq(n, k, k) = ":" } IN
    { SubSeq(n, 1, k) : k \in ks } \cup { SubSeq(n, 1, k + 1) : k \in { j \in ks : j < Len(n) } }
    \cup { UpperStr(SubSeq(n, 1, k), 1) : k \in ks } \cup { LowerStr(SubSeq(n, 1, k), 1) : k \in ks }
HasBlankInParent(n) == \E i, j \in 1..Len(n) : i < j /\ SubSeq(n, i, i) = " " /\ SubSeq(n, j, j) = ":"

(* up to three names of a set, chosen deterministically: the least, the greatest and one in between by length *)
Pick3(S) ==
    IF Cardinality(S) <= 3 THEN S
    ELSE LET a == CHOOSE x \in S : \A y \in S : Len(x) <= Len(y)
             b == CHOOSE x \in S : \A y \in S : Len(x) >= Len(y)
             r == S \ {a, b}
         IN {a, b, CHOOSE x \in r : TRUE}

ProbesFor(kind, S, counts, extra) ==
    { [ctx |-> kind, q |-> q, tag |-> extra,
       \* with fuzzy matching on, a fragment that ends in a colon may also be matched without it ("food:" finds expenses:food):
       \* the colon says "this segment is complete", it is not a character the name has to supply
       fuzzy  |-> { n \in S : IsSubseqCI(q, n) \/ (Len(q) > 0 /\ SubSeq(q, Len(q), Len(q)) = ":" /\ IsSubseqCI(SubSeq(q, 1, Len(q) - 1), n)) },
       prefix |-> { n \in S : IsPrefixCI(q, n) },
       counts |-> { [name |-> n, n |-> counts[n]] : n \in S }] :
         q \in UNION { Fragments(n) : n \in Pick3(S) }
               \cup (IF kind = "account" THEN UNION { ColonCuts(n) : n \in Pick3(S) \cup { m \in S : HasBlankInParent(m) } } ELSE {}) }

Probes(c) ==
    LET AN == AccountNames(c) PN == PayeeNames(c) CN == CommodityNames(c) T == TagNames(c)
        t1 == IF T = {} THEN "" ELSE CHOOSE n \in T : TagValues(c, n) # {} \/ \A m \in T : TagValues(c, m) = {}
    IN ProbesFor("account", AN, [n \in AN |-> CountOf(c.tables[1].postings, "account", n)], "")
       \cup ProbesFor("payee", PN, [n \in PN |-> CountOf(c.tables[1].txcount, "payee", n)], "")
       \cup ProbesFor("commodity", CN, [n \in CN |-> 0], "")
       \cup ProbesFor("tagname", T, [n \in T |-> CountOf(c.tables[1].taguse, "name", n)], "")
       \cup (IF t1 = "" THEN {} ELSE ProbesFor("tagvalue", TagValues(c, t1), [n \in TagValues(c, t1) |-> 0], t1))

CTheorems ==
    stg = 1 =>
    LET c == WCase(cas[1]) IN
    \A p \in Probes(c) : p.prefix \subseteq p.fuzzy /\ (p.q = "" => p.fuzzy = { r.name : r \in p.counts })

CEmit == stg = 1 => LET c == WCase(cas[1]) IN PrintT(ToJson([files |-> c.files, tables |-> c.tables, probes |-> Probes(c)]))
=============================================================================
