------------------------------ MODULE Workspace ------------------------------
(***************************************************************************)
(* C12: the incrementally maintained workspace view equals a rebuild.      *)
(*                                                                         *)
(* Files 1..N; file 1 is the root the workspace discovers (main.journal).  *)
(* File 0 (Ghost) is a path with nothing behind it.  The content of a file *)
(* is an abstract journal [incl, txs, decl] whose members refer to the     *)
(* catalogues below (the catalogues are printed with every behaviour so    *)
(* that the replay renders exactly these journals).  A file may be ABSENT  *)
(* (it does not exist yet; the first update of it creates it), and an      *)
(* include list may hold Star, the pattern `[ab].journal`: files 2 and 3   *)
(* as far as they exist NOW (never the including file itself).             *)
(*                                                                         *)
(* Contract: View(c) is a FUNCTION of the current contents: the aggregate  *)
(* over the files reachable from the root.  For payee templates the view   *)
(* is the set of admissible answers (Offers).                              *)
(*                                                                         *)
(* Mechanism variables (never on the verdict path): `mem`, `tpl` model     *)
(* what workspace/index.go keeps between updates: the member set           *)
(* maintained by the remove-unreachable / add-missing fixpoint and the     *)
(* payee-template map maintained by overwrite-on-add and, on removal,      *)
(* either delete-by-key (TemplateRepair = FALSE, the pinned code) or       *)
(* delete-and-restore-from-remaining-files (TRUE, the repaired code).      *)
(* `gl` is what the members' patterns expanded to when they were indexed:  *)
(* an update for a path is taken only if the path is known through an      *)
(* include of a member -- through the frozen expansion (GlobRepair =        *)
(* FALSE, the code before the repair of hunt/D/4: a file created later is  *)
(* never adopted, MembersOK fails) or through the pattern itself (TRUE).   *)
(***************************************************************************)
EXTENDS Naturals, Sequences, FiniteSets, TLC, Json, SequencesExt, FiniteSetsExt

CONSTANTS N, MaxOps, InclMenu, TxsMenu, DeclMenu, TemplateRepair, GlobRepair,
          Absent,   \* TRUE: files other than the root may be absent initially
          Big,      \* TRUE: the pool also holds every content in an oversized rendering (never for the root)
          SizeRepair, \* FALSE: a member that is updated to an oversized text stays a member (the code before 834a3c6)
          InitAll   \* TRUE: every workspace over the pool is an initial state; FALSE: a few hand-picked shapes

Files == 1..N
Root  == 1
Ghost == 0
Star  == N + 1
GlobSet == {2, 3} \cap Files

(* ---- catalogues --------------------------------------------------------- *)
Tx == <<
  [date |-> "2024-01-05", payee |-> "Grocery", tags |-> << <<"type", "food">> >>,
   posts |-> << [acct |-> "expenses:food", amt |-> "10", comm |-> "USD"], [acct |-> "assets:cash", amt |-> "-10", comm |-> "USD"] >>],
  [date |-> "2024-01-06", payee |-> "Grocery", tags |-> << >>,
   posts |-> << [acct |-> "expenses:food", amt |-> "20", comm |-> "EUR"], [acct |-> "assets:bank", amt |-> "", comm |-> ""] >>],
  [date |-> "2024-02-01", payee |-> "Rent", tags |-> << >>,
   posts |-> << [acct |-> "expenses:rent", amt |-> "500", comm |-> "USD"], [acct |-> "assets:bank", amt |-> "-500", comm |-> "USD"] >>],
  [date |-> "2024-02-01", payee |-> "Cafe", tags |-> << <<"type", "drink">>, <<"project", "x">> >>,
   posts |-> << [acct |-> "expenses:food:coffee", amt |-> "3", comm |-> "USD"], [acct |-> "assets:cash", amt |-> "", comm |-> ""] >>],
  [date |-> "2024-01-05", payee |-> "Grocery", tags |-> << <<"project", "x">> >>,
   posts |-> << [acct |-> "expenses:household", amt |-> "7", comm |-> "USD"], [acct |-> "assets:cash", amt |-> "-7", comm |-> "USD"] >>],
  [date |-> "2024-03-01", payee |-> "Salary", tags |-> << >>,
   posts |-> << [acct |-> "assets:bank", amt |-> "1000", comm |-> "EUR"], [acct |-> "income:salary", amt |-> "", comm |-> ""] >>]
>>
TxIds == 1..Len(Tx)

Decl == <<
  [kind |-> "account",   name |-> "assets:bank",   format |-> ""],
  [kind |-> "account",   name |-> "expenses:food", format |-> ""],
  [kind |-> "commodity", name |-> "USD",           format |-> "1,000.00 USD"],
  [kind |-> "commodity", name |-> "EUR",           format |-> "1.000,00 EUR"],
  [kind |-> "commodity", name |-> "EUR",           format |-> "1,000.00 EUR"]      \* the same commodity declared differently: which file wins follows the include order
>>
DeclIds == 1..Len(Decl)

Accounts    == { Tx[t].posts[i].acct : t \in TxIds, i \in 1..2 }
Payees      == { Tx[t].payee : t \in TxIds }
Commodities == { Tx[t].posts[i].comm : t \in TxIds, i \in 1..2 } \ {""}
TagPairs    == UNION { { Tx[t].tags[i] : i \in 1..Len(Tx[t].tags) } : t \in TxIds }
TagNames    == { p[1] : p \in TagPairs }
Dates       == { Tx[t].date : t \in TxIds }

\* rev: the include directives are written in descending instead of ascending order (the SET of targets is the same;
\* which of two conflicting commodity formats is in force, and the order of the file list, follow the written order)
\* big: the text is longer than limits.maxFileSizeBytes: the file exists, but as an INCLUDED file it is refused (its
\* directive is reported), so for the view it counts like an absent one until an update makes it small again
Content == [incl : SUBSET (0..N + 1), txs : Seq(TxIds), decl : SUBSET DeclIds, absent : BOOLEAN, rev : BOOLEAN, big : BOOLEAN]

(* ---- generic sums -------------------------------------------------------- *)
SumSeq(s, F(_)) == FoldSeq(LAMBDA x, acc : F(x) + acc, 0, s)
SumOver(S, F(_)) == FoldSet(LAMBDA x, acc : F(x) + acc, 0, S)
B(b) == IF b THEN 1 ELSE 0

(* ---- contract: the view is a function of the contents ------------------- *)
Out(c, g) == c[g].absent \/ c[g].big
GlobExp(c, f) == IF Star \in c[f].incl THEN { g \in GlobSet \ {f} : ~Out(c, g) } ELSE {}
Targets(c, f) == { g \in c[f].incl \ {Ghost, Star} : ~Out(c, g) } \cup GlobExp(c, f)
RECURSIVE Reach(_, _)
Reach(c, S) == LET S2 == S \cup UNION { Targets(c, f) : f \in S }
               IN IF S2 = S THEN S ELSE Reach(c, S2)
Members(c) == Reach(c, {Root})

CountTx(c, F(_)) == SumOver(Members(c), LAMBDA f : SumSeq(c[f].txs, F))

AcctInTx(t, a)  == B(Tx[t].posts[1].acct = a) + B(Tx[t].posts[2].acct = a)
CommInTx(t, k)  == B(Tx[t].posts[1].comm = k) + B(Tx[t].posts[2].comm = k)
TagInTx(t, n)   == SumSeq(Tx[t].tags, LAMBDA p : B(p[1] = n))
PairInTx(t, pr) == SumSeq(Tx[t].tags, LAMBDA p : B(p = pr))

(* template a file offers for a payee: its last transaction with that payee (the menus never
   put two different posting patterns of one payee into the same file) *)
TplOf(c, f, p) == LET idx == { i \in 1..Len(c[f].txs) : Tx[c[f].txs[i]].payee = p }
                  IN IF idx = {} THEN 0 ELSE c[f].txs[CHOOSE i \in idx : \A j \in idx : j <= i]
Offers(c, p) == { TplOf(c, f, p) : f \in Members(c) } \ {0}

DeclsOf(c, kind) == { Decl[d].name : d \in { d \in UNION { c[f].decl : f \in Members(c) } : Decl[d].kind = kind } }

View(c) ==
  [ members     |-> SetToSortSeq(Members(c), <),
    accounts    |-> [a \in Accounts |-> CountTx(c, LAMBDA t : AcctInTx(t, a))],
    payees      |-> [p \in Payees |-> CountTx(c, LAMBDA t : B(Tx[t].payee = p))],
    commodities |-> [k \in Commodities |-> CountTx(c, LAMBDA t : CommInTx(t, k))],
    tags        |-> [n \in TagNames |-> CountTx(c, LAMBDA t : TagInTx(t, n))],
    tagvalues   |-> [pr \in TagPairs |-> CountTx(c, LAMBDA t : PairInTx(t, pr))],
    dates       |-> SetToSortSeq({ d \in Dates : CountTx(c, LAMBDA t : B(Tx[t].date = d)) > 0 }, LAMBDA x, y : TRUE),
    txs         |-> [t \in TxIds |-> CountTx(c, LAMBDA u : B(u = t))],
    offers      |-> [p \in Payees |-> SetToSortSeq(Offers(c, p), <)],
    declacc     |-> SetToSeq(DeclsOf(c, "account")),
    declcomm    |-> SetToSeq(DeclsOf(c, "commodity")) ]

(* ---- behaviour ------------------------------------------------------------ *)
VARIABLES c,      \* contents (also what is on disk)
          mem,    \* mechanism: files the incremental workspace holds an index for
          tpl,    \* mechanism: payee -> transaction id whose postings are the stored template (0 = none)
          gl,     \* mechanism: file -> what its pattern expanded to when the file was indexed
          h       \* history printed for replay

vars == <<c, mem, tpl, gl, h>>

Pool == UNION { { [incl |-> i, txs |-> t, decl |-> d, absent |-> FALSE, rev |-> r, big |-> b] :
                       r \in (IF Cardinality(i) >= 2 THEN BOOLEAN ELSE {FALSE}), b \in (IF Big THEN BOOLEAN ELSE {FALSE}) } :
                 i \in InclMenu, t \in TxsMenu, d \in DeclMenu }
NoFile == [incl |-> {}, txs |-> <<>>, decl |-> {}, absent |-> TRUE, rev |-> FALSE, big |-> FALSE]

PayeesOf(cc, f) == { Tx[cc[f].txs[i]].payee : i \in 1..Len(cc[f].txs) }

(* rebuild of the template map: any order of adding the member files *)
RebuildTpl(cc) == [p \in Payees |-> IF Offers(cc, p) = {} THEN 0 ELSE CHOOSE t \in Offers(cc, p) : TRUE]

E0 == [incl |-> {}, txs |-> <<>>, decl |-> {}, absent |-> FALSE, rev |-> FALSE, big |-> FALSE]
Shapes == { [f \in Files |-> IF f = Root THEN [E0 EXCEPT !.incl = Files \ {Root}] ELSE [E0 EXCEPT !.txs = <<1>>]],
            [f \in Files |-> IF f < N THEN [E0 EXCEPT !.incl = {f + 1}, !.txs = <<2>>] ELSE [E0 EXCEPT !.txs = <<1>>]],
            [f \in Files |-> E0] }

Init == /\ IF InitAll THEN c \in [Files -> Pool \cup (IF Absent THEN {NoFile} ELSE {})] ELSE c \in Shapes
        /\ ~c[Root].absent /\ ~c[Root].big
        /\ mem = Members(c)
        /\ tpl = RebuildTpl(c)
        /\ gl = [f \in Files |-> IF f \in Members(c) THEN GlobExp(c, f) ELSE {}]
        /\ h = << [op |-> "init", contents |-> c, view |-> View(c)] >>

(* The code ignores an update for a path that is neither the root, nor indexed, nor the target
   of an include of an indexed file. *)
IsWorkspaceFile(f) == \/ f = Root \/ f \in mem
                      \/ \E g \in mem : f \in c[g].incl \/ f \in gl[g]
                      \/ GlobRepair /\ \E g \in mem : Star \in c[g].incl /\ f \in GlobSet \ {g}

RemoveTpl(t0, cOld, f, memAfter, cNew) ==
    [p \in Payees |->
        IF p \notin PayeesOf(cOld, f) THEN t0[p]
        ELSE IF ~TemplateRepair THEN 0
        ELSE LET rest == { TplOf(cNew, g, p) : g \in memAfter \ {f} } \ {0}
             IN IF rest = {} THEN 0 ELSE CHOOSE t \in rest : TRUE]

AddTpl(t0, cNew, f) ==
    [p \in Payees |-> IF p \in PayeesOf(cNew, f) THEN TplOf(cNew, f, p) ELSE t0[p]]

RECURSIVE DropAll(_, _, _, _, _), AddAll(_, _, _)
(* indexed = the files that still have an index while the unreachable ones are removed one by one *)
DropAll(t0, cOld, S, cNew, indexed) ==
    IF S = {} THEN t0 ELSE LET f == CHOOSE x \in S : TRUE
                           IN DropAll(RemoveTpl(t0, cOld, f, indexed, cNew), cOld, S \ {f}, cNew, indexed \ {f})
AddAll(t0, cNew, S) ==
    IF S = {} THEN t0 ELSE LET f == CHOOSE x \in S : TRUE IN AddAll(AddTpl(t0, cNew, f), cNew, S \ {f})

Update(f, p) ==
    /\ Len(h) <= MaxOps
    /\ p # c[f]
    /\ (f = Root => ~p.big)
    /\ LET c2 == [c EXCEPT ![f] = p] IN
       /\ c' = c2
       /\ IF IsWorkspaceFile(f)
          THEN LET m2   == Members(c2) \cup (IF ~SizeRepair /\ p.big /\ f \in mem THEN {f} ELSE {})
                   gone == (mem \cup {f}) \ m2
                   new  == m2 \ (mem \cup {f})
                   t1   == AddTpl(RemoveTpl(tpl, c, f, mem, c), c2, f)         \* SetFileIndex(f)
                   t2   == DropAll(t1, c2, gone, c2, mem \cup {f})                           \* removeUnreachable
                   t3   == AddAll(t2, c2, new)                                  \* addMissingReachable
               IN /\ mem' = m2
                  /\ tpl' = t3
                  /\ gl' = [g \in Files |-> IF g \in m2 THEN GlobExp(c2, g) ELSE {}]
          ELSE UNCHANGED <<mem, tpl, gl>>
       /\ h' = Append(h, [op |-> "update", file |-> f, content |-> p, view |-> View(c2)])

Next == \E f \in Files, p \in Pool : Update(f, p)

Spec == Init /\ [][Next]_vars

(* ---- checked on the model -------------------------------------------------- *)
MembersOK == mem = Members(c)                       \* the fixpoint reaches exactly the reachable files
TplOK     == \A p \in Payees : IF Offers(c, p) = {} THEN tpl[p] = 0 ELSE tpl[p] \in Offers(c, p)

Catalogue == [tx |-> Tx, decl |-> Decl]
Emit == (Len(h) = MaxOps + 1) => PrintT(ToJson([cat |-> Catalogue, h |-> h]))
=============================================================================
