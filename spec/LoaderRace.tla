------------------------------ MODULE LoaderRace ------------------------------
(***************************************************************************)
(* C11 / C14 -- a load that runs WHILE a file is rewritten and invalidated.*)
(*                                                                         *)
(* MCIncludeHist treats Load as one step.  In the implementation a load    *)
(* reads an included file (Read), parses it, and puts the parse into the   *)
(* cache (Store); the notification handler that rewrites the file and      *)
(* calls InvalidateFile (Edit) runs on another goroutine and may fall      *)
(* between the two.  The yield point ld.read marks the place.              *)
(*                                                                         *)
(* State: ver = version of the file on disk; cache = version held by the   *)
(* cache (0 = none); loads in flight carry the version they read and the   *)
(* invalidation epoch they started in.  Mechanisms (constant Mech):        *)
(*   "unguarded"  Store always caches what was read                        *)
(*   "epoch"      Store caches only if nothing was invalidated since the   *)
(*                load looked the file up (what 7f03230 does)              *)
(*   "atomic"     Read and Store are one step (one write-lock section):    *)
(*                how the workspace fills its memoised declared-account /  *)
(*                declared-commodity / format sets; splitting that section *)
(*                into "scan under the read lock, publish under the write  *)
(*                lock" is the mechanism "unguarded" again.  No yield      *)
(*                point marks that window: C14 samples it with streams on  *)
(*                a workspace whose scan is long (60 000 directives).      *)
(* CacheNeverStale: a cached parse is the parse of the file as it is.      *)
(* TLC: "unguarded" violates it with Read(v1) Edit Store; "epoch" keeps it.*)
(* Every behaviour is printed; Read ... Store of one load is replayed by   *)
(* parking the loading goroutine at ld.read.                               *)
(***************************************************************************)
EXTENDS Naturals, Sequences, FiniteSets, TLC, Json

CONSTANTS MaxEdits, MaxLoads, Mech

VARIABLES ver, cache, epoch, loads, nloads, h
vars == <<ver, cache, epoch, loads, nloads, h>>

Init == ver = 1 /\ cache = 0 /\ epoch = 0 /\ loads = {} /\ nloads = 0 /\ h = <<>>

(* a load looks the file up: a hit needs no read *)
Begin == /\ nloads < MaxLoads
         /\ nloads' = nloads + 1
         /\ IF cache # 0
            THEN /\ loads' = loads /\ h' = Append(h, [e |-> "hit", id |-> nloads + 1, served |-> cache, disk |-> ver])
            ELSE /\ loads' = loads \cup {[id |-> nloads + 1, pc |-> "lookedup", read |-> 0, epoch |-> epoch]}
                 /\ h' = Append(h, [e |-> "begin", id |-> nloads + 1])
         /\ UNCHANGED <<ver, cache, epoch>>

Read(l) == /\ l \in loads /\ l.pc = "lookedup"
           /\ loads' = (loads \ {l}) \cup {[l EXCEPT !.pc = "read", !.read = ver]}
           /\ h' = Append(h, [e |-> "read", id |-> l.id, ver |-> ver])
           /\ UNCHANGED <<ver, cache, epoch, nloads>>

Store(l) == /\ l \in loads /\ l.pc = "read"
            /\ loads' = loads \ {l}
            /\ cache' = IF Mech = "epoch" /\ l.epoch # epoch THEN cache ELSE l.read
            /\ h' = Append(h, [e |-> "store", id |-> l.id])
            /\ UNCHANGED <<ver, epoch, nloads>>

Edit == /\ ver <= MaxEdits
        /\ ver' = ver + 1 /\ cache' = 0 /\ epoch' = epoch + 1
        /\ h' = Append(h, [e |-> "edit", ver |-> ver + 1])
        /\ UNCHANGED <<loads, nloads>>

Fill(l) == /\ l \in loads /\ l.pc = "lookedup"
           /\ loads' = loads \ {l} /\ cache' = ver
           /\ h' = Append(h, [e |-> "fill", id |-> l.id, ver |-> ver])
           /\ UNCHANGED <<ver, epoch, nloads>>

Next == \/ Begin \/ Edit
        \/ Mech # "atomic" /\ \E l \in loads : Read(l) \/ Store(l)
        \/ Mech = "atomic" /\ \E l \in loads : Fill(l)
Spec == Init /\ [][Next]_vars

CacheNeverStale == cache = 0 \/ cache = ver

Done == nloads = MaxLoads /\ loads = {} /\ ver = MaxEdits + 1
Emit == Done => PrintT(ToJson([h |-> h]))
=============================================================================
