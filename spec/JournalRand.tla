----------------------------- MODULE JournalRand -----------------------------
(***************************************************************************)
(* Random (RandomElement-drawn) journals of grammar G over Journal.tla,    *)
(* clean region only.  Shared by JournalGen (C03, C07, C04/C05 ...) and    *)
(* WorkspaceFiles (C09, C15, C16, C20).  Every operator takes a dummy      *)
(* parameter so that TLC does not cache a draw.                            *)
(***************************************************************************)
EXTENDS Journal

(* ---- random journals (clean region only) ---------------------------------------------------- *)
Pick(S) == RandomElement(S)
Coin(n, x) == RandomElement(1..n) = 1          \* x: dummy, keeps TLC from caching the draw

ValuesA == { <<5, 0>>, <<100, 0>>, <<1050, 2>>, <<123456, 2>>, <<1234567, 0>>, <<2500, 0>>, <<1, 0>>, <<99, 2>>, <<100000, 0>>, <<125, 3>>, <<5, 1>>, <<1234567, 3>> }

RandAmtIn(x, vals, comms) ==
    LET v    == Pick(vals)
        n    == Pick({ k \in Notations : NotationOK(v[1], v[2], k) })
        comm == Pick(comms)
        lower == comm # 0 /\ CommoditiesX[comm].k = "lower"
        side == IF comm = 0 \/ lower THEN "R" ELSE Pick({"L", "R"})
        sym  == comm # 0 /\ CommoditiesX[comm].k = "symbol"
        sp   == IF comm = 0 THEN FALSE ELSE IF side = "R" /\ ~sym THEN TRUE ELSE Coin(2, x)
        neg  == Coin(2, x)
    IN [neg |-> neg, m |-> v[1], sc |-> v[2], n |-> n, comm |-> comm, side |-> side, sp |-> sp,
        sgn |-> IF side = "L" THEN Pick({"before", "after"}) ELSE "before", plus |-> ~neg /\ Coin(8, x)]

RandAmt(x) == RandAmtIn(x, ValuesA, 0..Len(Commodities))

RandCmt(x) == IF Coin(2, x) THEN [free |-> Pick(1..Len(FreeTexts)), tags |-> <<>>]
              ELSE LET t1 == Pick(1..Len(Tags)) t2 == Pick(1..Len(Tags))
                   IN [free |-> 0, tags |-> IF Coin(2, x) \/ t1 = t2 THEN <<t1>> ELSE <<t1, t2>>]

(* Clean region: a lower-case word commodity is only written as the last thing before the end of the
   line or a comment (trigger lower-commodity-before-operator covers the other placements). *)
NoLower == { c \in 0..Len(Commodities) : c = 0 \/ CommoditiesX[c].k # "lower" }
RandPost(x) ==
    LET hasAmt  == ~Coin(4, x)
        hasCost == hasAmt /\ Coin(5, x)
        hasAsrt == IF hasAmt THEN Coin(6, x) ELSE Coin(5, x)      \* an assertion may stand without an amount
    IN
    [ind |-> Pick({1, 2, 4, 4, 4, 8, 0}), st |-> Pick({"", "", "", "*", "!"}), kind |-> Pick({"real", "real", "real", "paren", "bracket"}),
     acct |-> Pick(1..Len(Accounts)), gap |-> Pick({2, 2, 3, 6, 0}),
     amt |-> IF hasAmt THEN <<RandAmtIn(x, ValuesA, IF hasCost \/ hasAsrt THEN NoLower ELSE 0..Len(Commodities))>> ELSE <<>>,
     cost |-> IF hasCost THEN <<[total |-> Coin(2, x), a |-> [RandAmtIn(x + 1, ValuesA, IF hasAsrt THEN NoLower ELSE 0..Len(Commodities)) EXCEPT !.neg = FALSE, !.plus = FALSE]]>> ELSE <<>>,
     asrt |-> IF hasAsrt THEN <<[strict |-> Coin(3, x), a |-> [RandAmt(x + 2) EXCEPT !.plus = FALSE]]>> ELSE <<>>,
     cmt |-> IF Coin(4, x) THEN <<RandCmt(x)>> ELSE <<>>]

RandDate(x) == [y |-> Pick({2023, 2024}), m |-> Pick(1..12), d |-> Pick(1..28), sep |-> Pick({"-", "-", "/", "."}), pad |-> ~Coin(4, x)]

RandTx(x) ==
    LET n == Pick(0..4)
        hasCmt == Coin(4, x)
    IN [date |-> RandDate(x), date2 |-> IF Coin(6, x) THEN <<RandDate(x + 1)>> ELSE <<>>,
        st |-> Pick({"", "", "*", "!"}), code |-> IF Coin(5, x) THEN Pick(1..Len(Codes)) ELSE 0,
        desc |-> IF Coin(5, x) THEN [kind |-> "pipe", i |-> Pick(1..Len(Descriptions)), j |-> Pick(1..Len(Notes))]
                 ELSE IF Coin(12, x) THEN [kind |-> "none", i |-> 1, j |-> 1]
                 ELSE [kind |-> "text", i |-> Pick(1..Len(Descriptions)), j |-> 1],
        hgap |-> Pick({1, 2, 2, 4}), cmt |-> IF hasCmt THEN <<RandCmt(x)>> ELSE <<>>,
        posts |-> [i \in 1..n |-> IF Coin(9, x + i) THEN [cline |-> RandCmt(x + i), ind |-> Pick({2, 4})] ELSE RandPost(x + 10 * i)]]

RandDir(x) ==
    LET k == Pick(1..9) IN
    CASE k = 1 -> [dir |-> "account", acct |-> Pick(1..Len(Accounts)), cmt |-> IF Coin(3, x) THEN <<RandCmt(x)>> ELSE <<>>]
      [] k = 2 -> [dir |-> "commodity", comm |-> Pick(1..8), form |-> "plain", fmt |-> 1]
      [] k = 3 -> [dir |-> "commodity", comm |-> 1, form |-> Pick({"sub", "inline"}), fmt |-> Pick(1..Len(Formats))]
      [] k = 4 -> [dir |-> "include", path |-> Pick(1..Len(IncludePaths))]
      [] k = 5 -> [dir |-> "P", date |-> RandDate(x), comm |-> Pick(1..6), a |-> [RandAmtIn(x, ValuesA, 1..6) EXCEPT !.neg = FALSE, !.plus = FALSE]]
      [] k = 6 -> [dir |-> "Y", y |-> Pick({2023, 2024}), word |-> Pick({"Y", "year"})]
      [] k = 7 -> [dir |-> "D", fmt |-> Pick(1..Len(Formats))]
      [] k = 8 -> [dir |-> "comment", c |-> RandCmt(x)]
      [] OTHER -> [dir |-> "blank"]

RandJournalN(x, max) ==
    LET n == Pick(1..max) IN [i \in 1..n |-> IF Coin(3, x + i) THEN RandDir(x + 100 * i) ELSE RandTx(x + 100 * i)]
=============================================================================
