---------------------------- MODULE Concurrency ----------------------------
(***************************************************************************)
(* C14 -- background work against a serial stream of notifications and     *)
(* requests.                                                               *)
(*                                                                         *)
(* The client stream is serial (the JSON-RPC handler runs one message at a *)
(* time): Change(u) delivers a new version of document u and starts one    *)
(* background job; Config starts one configuration refresh; Request(u)     *)
(* asks for a feature answer about u.  A background job passes the yield   *)
(* points the implementation marks with verifhook.Point: started ->        *)
(* loaded (the include tree of its version has been stored) -> atPublish   *)
(* -> done.                                                                *)
(*                                                                         *)
(* Contract: every answer is F(kind, documents as they are at the moment   *)
(* the request is handled): Request records ans = ver[u], and AnswersFresh *)
(* says so.  Mechanism (constant Mech):                                    *)
(*   "background"  answers that need the include tree read the tree the    *)
(*                 last FINISHED load stored: they are computed from       *)
(*                 tree[u], which lags behind ver[u] while a job has not   *)
(*                 reached `loaded` (TLC: Change Request violates          *)
(*                 AnswersFresh at depth 2)                                *)
(*   "current"     the handler makes sure the tree belongs to the current  *)
(*                 text before using it                                    *)
(* Every behaviour (bounded) is printed as a schedule and replayed on the  *)
(* real server with the yield points as gates; each answer is compared     *)
(* with the answer of a quiescent fresh server given the same documents.   *)
(* JobsDrain: whenever the client pauses every job terminates (no          *)
(* deadlock, no livelock).                                                 *)
(***************************************************************************)
EXTENDS Naturals, Sequences, FiniteSets, TLC, Json

CONSTANTS URIs, MaxChanges, MaxRequests, Mech

VARIABLES ver,      \* URI -> current version of the document (1 = as opened)
          tree,     \* URI -> version whose include tree is stored
          jobs,     \* set of [uri, ver, pc]  pc \in {"started", "loaded", "atPublish"}
          nchg, nreq,
          lastAns,  \* <<>> or <<[uri, want, got]>> : the last request's expected and actual version
          h
vars == <<ver, tree, jobs, nchg, nreq, lastAns, h>>
view == <<ver, tree, jobs, nchg, nreq, lastAns>>

Init == /\ ver = [u \in URIs |-> 1] /\ tree = [u \in URIs |-> 1] /\ jobs = {}
        /\ nchg = 0 /\ nreq = 0 /\ lastAns = <<>> /\ h = <<>>

Change(u) ==
    /\ nchg < MaxChanges
    /\ nchg' = nchg + 1
    /\ ver' = [ver EXCEPT ![u] = @ + 1]
    /\ jobs' = jobs \cup {[uri |-> u, ver |-> ver[u] + 1, pc |-> "started"]}
    /\ h' = Append(h, [e |-> "change", uri |-> u, ver |-> ver[u] + 1])
    /\ UNCHANGED <<tree, nreq, lastAns>>

NextPc(pc) == IF pc = "started" THEN "loaded" ELSE IF pc = "loaded" THEN "atPublish" ELSE "done"

Advance(j) ==
    /\ j \in jobs
    /\ jobs' = IF NextPc(j.pc) = "done" THEN jobs \ {j} ELSE (jobs \ {j}) \cup {[j EXCEPT !.pc = NextPc(j.pc)]}
    /\ tree' = IF j.pc = "started" THEN [tree EXCEPT ![j.uri] = j.ver] ELSE tree     \* reaching `loaded` stores the tree of the job's version
    /\ h' = Append(h, [e |-> "advance", uri |-> j.uri, ver |-> j.ver, to |-> NextPc(j.pc)])
    /\ UNCHANGED <<ver, nchg, nreq, lastAns>>

Request(u) ==
    /\ nreq < MaxRequests
    /\ nreq' = nreq + 1
    /\ lastAns' = <<[uri |-> u, want |-> ver[u], got |-> IF Mech = "background" THEN tree[u] ELSE ver[u]]>>
    /\ h' = Append(h, [e |-> "request", uri |-> u, ver |-> ver[u]])
    /\ UNCHANGED <<ver, tree, jobs, nchg>>

Next == \/ \E u \in URIs : Change(u) \/ Request(u)
        \/ \E j \in jobs : Advance(j)

Spec == Init /\ [][Next]_vars /\ \A u \in URIs, v \in 1..(MaxChanges + 1), pc \in {"started", "loaded", "atPublish"} : WF_vars(Advance([uri |-> u, ver |-> v, pc |-> pc]))

TypeOK == /\ \A u \in URIs : tree[u] <= ver[u]
          /\ \A j \in jobs : j.ver <= ver[j.uri]

(* C14, second clause *)
AnswersFresh == lastAns # <<>> => lastAns[1].got = lastAns[1].want


JobsDrain == []<>(jobs = {})

Done == nchg = MaxChanges /\ nreq = MaxRequests /\ jobs = {}
Emit == Done => PrintT(ToJson([schedule |-> h]))
=============================================================================
