------------------------------- MODULE Format -------------------------------
(***************************************************************************)
(* C04 / C05 -- inputs of document formatting with ground truth.           *)
(*                                                                         *)
(* A case is a journal of G (choices), a formatting configuration          *)
(* (indent 1..8, alignment on/off, minimum column) and a set of commodity  *)
(* display formats declared in the file itself or in a workspace sibling.  *)
(* The module knows, by construction,                                      *)
(*   - the abstract journal the formatted text must still parse to         *)
(*     (exact quantities included: a display format with fewer decimals    *)
(*     than an amount carries must not round it);                          *)
(*   - which lines are posting lines (everything else may only lose        *)
(*     trailing blanks);                                                   *)
(*   - the alignment facts: width in characters (runes) of every account   *)
(*     form, hence MinCol = indent + widest + 2, the least column at which *)
(*     the amounts of postings without status mark may be aligned.         *)
(* Families:                                                               *)
(*   "decimals"  every format of the menu x values with more decimals than *)
(*               the format shows x declared in file / in workspace        *)
(*   "options"   one fixed rich journal x every (indent, align, mincol)    *)
(*   "random"    random journals x random options x random placement       *)
(***************************************************************************)
EXTENDS JournalRand, Json

CONSTANTS Family, MaxEntries

MinCols == {0, 1, 20, 40, 80}
Opts(i, a, m) == [indent |-> i, align |-> a, mincol |-> m]

(* ---- alignment facts ------------------------------------------------------------------------- *)
FormWidth(p) == (Len(AccountsX[p.acct].s) - AccountsX[p.acct].a) + (IF p.kind = "real" THEN 0 ELSE 2)
RealPostsOf(es) == UNION { { RealPosts(es[i])[k] : k \in 1..Len(RealPosts(es[i])) } : i \in { x \in 1..Len(es) : IsTx(es[x]) } }
MaxOf(S) == IF S = {} THEN 0 ELSE CHOOSE m \in S : \A x \in S : x <= m
Widest(es) == MaxOf({ FormWidth(p) : p \in RealPostsOf(es) })

(* ---- a case ---------------------------------------------------------------------------------- *)
FmtDir(f) == [dir |-> "commodity", comm |-> Formats[f].comm, form |-> "inline", fmt |-> f]

MkCase(fam, es, opts, place, fmts, tight) ==
    [fam |-> fam, es |-> es, opts |-> opts, place |-> place, fmts |-> fmts, tight |-> tight]

RenderCase(c) ==
    LET es  == IF c.place = "file" THEN [k \in 1..Len(c.fmts) |-> FmtDir(c.fmts[k])] \o c.es ELSE c.es
        r   == RenderedT(es, c.tight)
        sib == IF c.place = "workspace" THEN Rendered([k \in 1..Len(c.fmts) |-> FmtDir(c.fmts[k])]).lines ELSE <<>>
    IN [ fam |-> c.fam, opts |-> c.opts, place |-> c.place, lines |-> r.lines, firsts |-> r.firsts, pmap |-> r.pmap, abs |-> r.abs,
         sibling |-> sib, widest |-> Widest(es), mincolumn |-> c.opts.indent + Widest(es) + 2,
         formats |-> { [sym |-> CommoditiesX[Formats[c.fmts[k]].comm].sym, places |-> Formats[c.fmts[k]].places, txt |-> Formats[c.fmts[k]].txt] : k \in 1..Len(c.fmts) } ]

(* ---- families -------------------------------------------------------------------------------- *)
DecValues == { <<125, 3>>, <<1050, 2>>, <<5, 1>>, <<7, 8>>, <<123, 12>>, <<12345678, 4>>, <<1234567, 0>>, <<123456789, 2>>, <<99999, 5>>, <<15, 1>>, <<999, 3>>, <<5, 0>>, <<12345, 3>>, <<1012345, 3>> }

DecTx(f, v, neg, side) ==
    LET c == Formats[f].comm
        k == CommoditiesX[c].k
        a == [neg |-> neg, m |-> v[1], sc |-> v[2], n |-> "exp", comm |-> c, side |-> side, sp |-> (side = "R" \/ k # "symbol"), sgn |-> "before", plus |-> FALSE]
        b == [a EXCEPT !.n = IF NotationOK(v[1], v[2], "point") THEN "point" ELSE "exp"]
    IN Tx(D(2024, 1, 15), Text(1), << [Post(3, <<b>>) EXCEPT !.cost = <<[total |-> FALSE, a |-> [a EXCEPT !.neg = FALSE]]>>],
                                        [Post(1, <<a>>) EXCEPT !.asrt = <<[strict |-> FALSE, a |-> b]>>],
                                        Post(2, <<>>) >>)

FamDecimals(u) ==
    { MkCase("decimals", << DecTx(f, v, neg, side) >>, Opts(4, TRUE, 0), place, <<f>>, FALSE) :
        f \in 1..Len(Formats), v \in DecValues, neg \in BOOLEAN, side \in {"L", "R"}, place \in {"file", "workspace"} }

RichJournal == <<
    [dir |-> "account", acct |-> 4, cmt |-> Cmt(0, <<1>>)],
    Tx(D(2024, 1, 15), Text(3), << [Post(4, <<Amt(1050, 2, 4)>>) EXCEPT !.ind = 2, !.gap = 3],
                                    [Post(11, <<[Amt(125, 3, 1) EXCEPT !.side = "L", !.sp = FALSE, !.neg = TRUE]>>) EXCEPT !.st = "*", !.cmt = Cmt(1, <<>>)],
                                    [Post(9, <<Amt(5, 0, 7)>>) EXCEPT !.kind = "bracket", !.ind = 0],
                                    [cline |-> [free |-> 2, tags |-> <<>>], ind |-> 4],
                                    [Post(1, <<>>) EXCEPT !.kind = "paren", !.ind = 8] >>),
    [Tx(D(2024, 2, 1), [kind |-> "pipe", i |-> 1, j |-> 2], << [Post(6, <<Amt(1234567, 0, 8)>>) EXCEPT !.cost = <<[total |-> TRUE, a |-> Amt(99, 2, 5)]>>, !.asrt = <<[strict |-> TRUE, a |-> Amt(100, 0, 8)]>>, !.cmt = Cmt(0, <<2, 6>>)],
                                                                Post(2, <<[Amt(7, 8, 0) EXCEPT !.sp = FALSE]>>), Post(5, <<>>) >>) EXCEPT !.st = "!", !.code = 2, !.cmt = Cmt(4, <<3>>)] >>

FamOptions(u) ==
    { MkCase("options", RichJournal, Opts(i, a, m), place, fm, FALSE) :
        i \in 1..8, a \in BOOLEAN, m \in MinCols, place \in {"file", "workspace"}, fm \in { <<>>, <<1, 3>>, <<6, 7, 8>> } }

RandOpts(x) == Opts(Pick(1..8), ~Coin(4, x), Pick(MinCols))
RandFmts(x) == LET n == Pick(0..3) IN [k \in 1..n |-> Pick(1..Len(Formats))]
RandCase(x) == MkCase("random", RandJournalN(x, MaxEntries), RandOpts(x), Pick({"file", "workspace", "workspace"}), RandFmts(x), Coin(3, x))

(* every generated quoted commodity on either side of the number, as amount, cost and assertion of one transaction *)
QuotedTx(k, side, neg) ==
    LET a == [neg |-> neg, m |-> 5, sc |-> 0, n |-> "point", comm |-> Len(Commodities) + k, side |-> side, sp |-> TRUE, sgn |-> "before", plus |-> FALSE]
    IN Tx(D(2024, 1, 15), Text(1), << [Post(3, <<a>>) EXCEPT !.cost = <<[total |-> FALSE, a |-> [a EXCEPT !.neg = FALSE]]>>],
                                        [Post(1, <<a>>) EXCEPT !.asrt = <<[strict |-> FALSE, a |-> a]>>],
                                        Post(2, <<>>) >>)
FamQuoted(u) ==
    { MkCase("quoted", << QuotedTx(k, side, neg) >>, Opts(4, TRUE, 0), "file", <<>>, FALSE) :
        k \in 1..Len(CommoditiesGen), side \in {"L", "R"}, neg \in BOOLEAN }

FamilySet(u) == CASE Family = "decimals" -> FamDecimals(0)
                  [] Family = "quoted"   -> FamQuoted(0)
                  [] Family = "options"  -> FamOptions(0)
                  [] OTHER               -> {}

VARIABLES par, stg
vars == <<par, stg>>

(* parameters are enumerated (or drawn) as states; rendering happens in the one step that follows *)
Init == IF Family = "random" THEN par = <<>> /\ stg = 0 ELSE par \in FamilySet(0) /\ stg = 1
Next == \/ Family = "random" /\ stg = 0 /\ stg' = 1 /\ par' = RandCase(stg)
        \/ stg = 1 /\ stg' = 2 /\ UNCHANGED par

WellFormed(c) == \A i \in 1..Len(c.es) : IsTx(c.es[i]) => TxOK(c.es[i])
Theorems == (stg = 2 /\ WellFormed(par)) => LET r == RenderCase(par) IN r.mincolumn = par.opts.indent + r.widest + 2 /\ Len(r.pmap) = Len(r.lines)
Emit == (stg = 2 /\ WellFormed(par)) => PrintT(ToJson(RenderCase(par)))
=============================================================================
