----------------------------- MODULE DiagProof -----------------------------
(***************************************************************************)
(* C13, unbounded: a TLAPS proof that the repaired publication mechanism   *)
(* of Diag.tla (Guard = "latest", check and send in one step under the     *)
(* publish lock) satisfies Converged for ANY number of documents, changes  *)
(* and background jobs.  The model is Diag.tla without its history         *)
(* variable and without the bound on the number of deliveries.             *)
(***************************************************************************)
EXTENDS Naturals, TLAPS

CONSTANT URIs

VARIABLES ver, jobs, published
vars == <<ver, jobs, published>>

Job == [uri : URIs, ver : Nat, pc : {"run", "pub"}]

Init == /\ ver = [u \in URIs |-> 0]
        /\ jobs = {}
        /\ published = [u \in URIs |-> 0]

Deliver(u) ==
    /\ ver' = [ver EXCEPT ![u] = @ + 1]
    /\ jobs' = jobs \cup {[uri |-> u, ver |-> ver[u] + 1, pc |-> "run"]}
    /\ UNCHANGED published

Step(j) ==
    /\ j \in jobs /\ j.pc = "run"
    /\ jobs' = (jobs \ {j}) \cup {[j EXCEPT !.pc = "pub"]}
    /\ UNCHANGED <<ver, published>>

AtPublish(j) ==
    /\ j \in jobs /\ j.pc = "pub"
    /\ jobs' = jobs \ {j}
    /\ published' = IF j.ver # ver[j.uri] THEN published ELSE [published EXCEPT ![j.uri] = j.ver]
    /\ UNCHANGED ver

Next == \/ \E u \in URIs : Deliver(u)
        \/ \E j \in jobs : Step(j) \/ AtPublish(j)

Spec == Init /\ [][Next]_vars

TypeOK == /\ ver \in [URIs -> Nat]
          /\ published \in [URIs -> Nat]
          /\ jobs \subseteq Job

(* every document's latest version is either still carried by a job or already published *)
Pending(u) == \E j \in jobs : j.uri = u /\ j.ver = ver[u]
Inv == /\ TypeOK
       /\ \A u \in URIs : ver[u] > 0 => (Pending(u) \/ published[u] = ver[u])

Converged == jobs = {} => \A u \in URIs : ver[u] > 0 => published[u] = ver[u]

THEOREM InitInv == Init => Inv
  BY DEF Init, Inv, TypeOK, Pending, Job

THEOREM NextInv == Inv /\ [Next]_vars => Inv'
<1> SUFFICES ASSUME Inv, [Next]_vars PROVE Inv'
  OBVIOUS
<1>1. CASE UNCHANGED vars
  BY <1>1 DEF Inv, TypeOK, Pending, vars
<1>2. ASSUME NEW u \in URIs, Deliver(u) PROVE Inv'
  <2>1. TypeOK'
    BY <1>2 DEF Inv, TypeOK, Deliver, Job
  <2>2. ASSUME NEW w \in URIs, ver'[w] > 0 PROVE Pending(w)' \/ published'[w] = ver'[w]
    <3>1. CASE w = u
      <4>1. [uri |-> u, ver |-> ver[u] + 1, pc |-> "run"] \in jobs'
        BY <1>2 DEF Deliver
      <4>2. ver'[u] = ver[u] + 1
        BY <1>2 DEF Deliver, Inv, TypeOK
      <4> QED BY <3>1, <4>1, <4>2 DEF Pending
    <3>2. CASE w # u
      <4>1. ver'[w] = ver[w] /\ published'[w] = published[w]
        BY <1>2, <3>2 DEF Deliver, Inv, TypeOK
      <4>2. Pending(w) => Pending(w)'
        BY <1>2, <3>2, <4>1 DEF Deliver, Pending
      <4> QED BY <2>2, <4>1, <4>2 DEF Inv
    <3> QED BY <3>1, <3>2
  <2> QED BY <2>1, <2>2 DEF Inv
<1>3. ASSUME NEW j \in jobs, Step(j) PROVE Inv'
  <2>1. TypeOK'
    BY <1>3 DEF Inv, TypeOK, Step, Job
  <2>2. ASSUME NEW w \in URIs, ver'[w] > 0 PROVE Pending(w)' \/ published'[w] = ver'[w]
    <3>1. ver' = ver /\ published' = published
      BY <1>3 DEF Step
    <3>2. Pending(w) => Pending(w)'
      <4> SUFFICES ASSUME NEW k \in jobs, k.uri = w, k.ver = ver[w] PROVE Pending(w)'
        BY DEF Pending
      <4>1. CASE k = j
        <5>1. [j EXCEPT !.pc = "pub"] \in jobs'
          BY <1>3 DEF Step
        <5>2. [j EXCEPT !.pc = "pub"].uri = w /\ [j EXCEPT !.pc = "pub"].ver = ver[w]
          BY <4>1 DEF Inv, TypeOK, Job
        <5> QED BY <5>1, <5>2, <3>1 DEF Pending
      <4>2. CASE k # j
        BY <4>2, <1>3, <3>1 DEF Step, Pending
      <4> QED BY <4>1, <4>2
    <3> QED BY <2>2, <3>1, <3>2 DEF Inv
  <2> QED BY <2>1, <2>2 DEF Inv
<1>4. ASSUME NEW j \in jobs, AtPublish(j) PROVE Inv'
  <2>1. TypeOK'
    BY <1>4 DEF Inv, TypeOK, AtPublish, Job
  <2>2. ASSUME NEW w \in URIs, ver'[w] > 0 PROVE Pending(w)' \/ published'[w] = ver'[w]
    <3>0. ver' = ver /\ j \in Job
      BY <1>4 DEF AtPublish, Inv, TypeOK
    <3>1. CASE j.uri = w /\ j.ver = ver[w]
      BY <1>4, <3>0, <3>1 DEF AtPublish, Inv, TypeOK, Job
    <3>2. CASE ~(j.uri = w /\ j.ver = ver[w])
      <4>1. published'[w] = published[w]
        BY <1>4, <3>0, <3>2 DEF AtPublish, Inv, TypeOK, Job
      <4>2. Pending(w) => Pending(w)'
        BY <1>4, <3>0, <3>2 DEF AtPublish, Pending
      <4> QED BY <2>2, <3>0, <4>1, <4>2 DEF Inv
    <3> QED BY <3>1, <3>2
  <2> QED BY <2>1, <2>2 DEF Inv
<1> QED BY <1>1, <1>2, <1>3, <1>4 DEF Next

THEOREM InvConverged == Inv => Converged
  BY DEF Inv, Converged, Pending

THEOREM Safety == Spec => []Converged
  BY InitInv, NextInv, InvConverged, PTL DEF Spec
=============================================================================
