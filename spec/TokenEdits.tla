----------------------------- MODULE TokenEdits -----------------------------
(***************************************************************************)
(* C17 -- what a delta reply has to reconstruct, over line-structured      *)
(* edits.                                                                  *)
(*                                                                         *)
(* SemTokens.tla models the protocol (result ids, caches, stale ids) over  *)
(* four abstract texts.  This module models the CONTENT side: a document   *)
(* is a sequence of lines drawn from a menu of journal lines, each with    *)
(* its tokens <<column, length, type>>; the wire format is LSP's RELATIVE  *)
(* encoding (deltaLine, deltaStart relative to the previous token, or to   *)
(* column 0 on a new line).  An edit replaces, inserts or deletes one      *)
(* line.  A delta reply is one splice <<start, deleteCount, data>> of the  *)
(* encoded array the client holds.                                         *)
(*                                                                         *)
(* Mechanisms (constant Mech):                                             *)
(*   "whole"     the splice replaces the whole array (what the server does)*)
(*   "relative"  common prefix / suffix of the two ENCODED arrays          *)
(*   "absolute"  common prefix / suffix of the two lists of ABSOLUTE       *)
(*               tokens: wrong, the first token of the common suffix is    *)
(*               encoded relative to a token that changed (TLC: filling a  *)
(*               blank line above a token violates Rebuilt)                *)
(* Rebuilt: applying the splice to Enc(old) yields Enc(new).               *)
(* Every behaviour is printed and replayed on the real server: open the    *)
(* first document, full request, then per edit: didChange, delta request   *)
(* with the current id, rebuild, compare with a fresh server's full result.*)
(***************************************************************************)
EXTENDS Integers, Sequences, FiniteSets, TLC, Json

CONSTANTS MaxLines, MaxEdits, Mech

(* the menu: text and tokens <<column, length, type>> (types are stand-ins; the replay takes them from the real server) *)
Menu == << [t |-> "",                       k |-> <<>>],
           [t |-> "; note",                 k |-> << <<0, 6, 1>> >>],
           [t |-> "2024-01-01 shop",        k |-> << <<0, 10, 2>>, <<11, 4, 3>> >>],
           [t |-> "    a:b  10 USD",        k |-> << <<4, 3, 4>>, <<9, 2, 5>>, <<12, 3, 6>> >>],
           [t |-> "    a:b",                k |-> << <<4, 3, 4>> >>],
           [t |-> "account a:b  ; t:v",     k |-> << <<0, 7, 7>>, <<8, 3, 4>>, <<13, 1, 1>>, <<15, 1, 8>>, <<17, 1, 9>> >>],
           [t |-> "    a:b       10 USD",   k |-> << <<4, 3, 4>>, <<14, 2, 5>>, <<17, 3, 6>> >>] >>
M == 1..Len(Menu)

(* absolute tokens <<line, column, length, type>> of a document (a sequence of menu indexes) *)
RECURSIVE AbsFrom(_, _)
AbsFrom(d, i) == IF i > Len(d) THEN <<>>
                 ELSE [j \in 1..Len(Menu[d[i]].k) |-> <<i - 1>> \o Menu[d[i]].k[j]] \o AbsFrom(d, i + 1)
AbsToks(d) == AbsFrom(d, 1)

(* LSP relative encoding, one 5-tuple per token (the modifier is always 0) *)
Enc(d) == LET a == AbsToks(d) IN
          [j \in 1..Len(a) |->
              LET pl == IF j = 1 THEN 0 ELSE a[j - 1][1]
                  pc == IF j = 1 THEN 0 ELSE a[j - 1][2]
                  dl == a[j][1] - pl
              IN << dl, IF dl = 0 THEN a[j][2] - pc ELSE a[j][2], a[j][3], a[j][4], 0 >>]

(* longest common prefix / suffix (the suffix does not overlap the prefix) *)
RECURSIVE Pre(_, _, _)
Pre(x, y, n) == IF n < Len(x) /\ n < Len(y) /\ x[n + 1] = y[n + 1] THEN Pre(x, y, n + 1) ELSE n
RECURSIVE Suf(_, _, _, _)
Suf(x, y, p, n) == IF n < Len(x) - p /\ n < Len(y) - p /\ x[Len(x) - n] = y[Len(y) - n] THEN Suf(x, y, p, n + 1) ELSE n

(* a splice in units of tokens: keep p tokens, delete del, insert data *)
Splice(old, new) ==
    LET eo == Enc(old) en == Enc(new) IN
    CASE Mech = "whole"    -> [start |-> 0, del |-> Len(eo), data |-> en]
      [] Mech = "relative" -> LET p == Pre(eo, en, 0) s == Suf(eo, en, p, 0)
                              IN [start |-> p, del |-> Len(eo) - p - s, data |-> SubSeq(en, p + 1, Len(en) - s)]
      [] OTHER             -> LET ao == AbsToks(old) an == AbsToks(new)
                                  p == Pre(ao, an, 0) s == Suf(ao, an, p, 0)
                              IN [start |-> p, del |-> Len(eo) - p - s, data |-> SubSeq(en, p + 1, Len(en) - s)]

ApplySplice(arr, sp) == SubSeq(arr, 1, sp.start) \o sp.data \o SubSeq(arr, sp.start + sp.del + 1, Len(arr))

(* ---- edits ------------------------------------------------------------------------------------ *)
Edits(d) == { [k |-> "replace", i |-> i, m |-> m] : i \in 1..Len(d), m \in M }
            \cup (IF Len(d) <= MaxLines THEN { [k |-> "insert", i |-> i, m |-> m] : i \in 1..(Len(d) + 1), m \in M } ELSE {})
            \cup (IF Len(d) > 1 THEN { [k |-> "delete", i |-> i, m |-> 0] : i \in 1..Len(d) } ELSE {})
Apply(d, e) == CASE e.k = "replace" -> [d EXCEPT ![e.i] = e.m]
                 [] e.k = "insert"  -> SubSeq(d, 1, e.i - 1) \o <<e.m>> \o SubSeq(d, e.i, Len(d))
                 [] OTHER           -> SubSeq(d, 1, e.i - 1) \o SubSeq(d, e.i + 1, Len(d))

VARIABLES d0, doc, held, h
vars == <<d0, doc, held, h>>

Init == /\ d0 \in UNION { [1..n -> M] : n \in 1..MaxLines }
        /\ doc = d0 /\ held = Enc(d0) /\ h = <<>>

Next == /\ Len(h) < MaxEdits
        /\ \E e \in Edits(doc) :
              /\ Apply(doc, e) # doc
              /\ doc' = Apply(doc, e)
              /\ held' = ApplySplice(held, Splice(doc, doc'))
              /\ h' = Append(h, [edit |-> e, lines |-> [i \in 1..Len(doc') |-> Menu[doc'[i]].t]])
        /\ UNCHANGED d0

Spec == Init /\ [][Next]_vars

(* C17, content side: what the client holds is the encoding of the current document *)
Rebuilt == held = Enc(doc)

Emit == (Len(h) = MaxEdits) => PrintT(ToJson([first |-> [i \in 1..Len(d0) |-> Menu[d0[i]].t], steps |-> h]))
=============================================================================
