"""C09 — References and rename hit exactly the symbol's occurrences, in the right files.

WorkspaceFiles.tla simulates workspaces of 1..4 files (8 include shapes) whose files share
accounts, commodities and payees, and records every occurrence of every symbol: file, line,
exact UTF-16 span, whether it is the name written in an account / commodity directive.  For
every workspace x workspace root on/off x every file as the file the request is made from x
every symbol occurring in that file (cursor on its first and middle character), x declarations
included or not, the references reply must be exactly the occurrences of the files in scope (the
root's include tree with a workspace root, the requesting file's own tree without), each
attributed to the file that contains it.  Rename must return edits at exactly those occurrences
(declarations included); the edits are applied per file with the reference applier and the
result must be the original text with exactly the occurrence spans replaced, and must parse to
the abstract journals with the name substituted.  Variant: the files of the workspace are open
with unsaved edits (two lines typed at the top through didChange): positions must follow the
open text.
"""
import collections
import copy
import json
import os

import vf
import jcommon
import wcommon
import lspedit
import c08

NEWNAME = {"account": "renamed:acct", "commodity": "XYZ", "payee": "new payee"}
PREFIX = "; typed but not saved\n\n"


def scope_files(c, ws, origin):
    tree = c["files"][wcommon.scope_root(c, ws, origin)]["tree"]
    return [i - 1 for i in sorted(tree)]


def expected_locations(c, ws, origin, kind, name, decl, shift):
    out = set()
    for i in scope_files(c, ws, origin):
        f = c["files"][i]
        for o in f["occ"]:
            if o["k"] == kind and o["name"] == name and (decl or not o["decl"]):
                out.add((f["name"], o["line"] - 1 + shift.get(f["name"], 0), o["c0"], o["c1"], o["quoted"]))
    return out


def loc_set(reply, dirpath):
    out = collections.Counter()
    for loc in reply or []:
        r = loc["range"]
        out[(c08.rel_uri(loc["uri"], dirpath), r["start"]["line"], r["start"]["character"], r["end"]["line"], r["end"]["character"])] += 1
    return out


def build(c, ws, origin, unsaved):
    """script case + probe metadata"""
    files = wcommon.files_of(c)
    f0 = c["files"][origin]
    ops = []
    shift = {}
    if unsaved == "open":
        # every file in the request's scope is OPENED with a text that differs from the file on disk (a restored buffer)
        for i in scope_files(c, ws, origin):
            n = c["files"][i]["name"]
            ops.append({"op": "open", "file": n, "text": PREFIX + files[n]})
            shift[n] = 2
    elif unsaved == "closed":
        # every other file in scope was edited and then closed WITHOUT saving: it is the file on disk again.  While the
        # others were dirty the requesting document was already open and was asked once (whatever that request left behind
        # about the unsaved buffers must be gone after the close)
        ops.append({"op": "open", "file": f0["name"], "text": files[f0["name"]]})
        others = [c["files"][i]["name"] for i in scope_files(c, ws, origin) if i != origin]
        for n in others:
            ops.append({"op": "open", "file": n, "text": files[n]})
            ops.append({"op": "change", "file": n, "text": PREFIX + files[n]})
        if f0["occ"]:
            o = sorted(f0["occ"], key=lambda o: (o["line"], o["c0"]))[0]
            for kind in ("references", "rename", "definition"):
                ops.append({"op": "req", "file": f0["name"], "kind": kind, "line": o["line"] - 1, "char": o["c0"] + (1 if o["quoted"] else 0), "newName": NEWNAME[o["k"]]})
        for n in others:
            ops.append({"op": "close", "file": n})
    elif unsaved == "typed":
        # the root document is opened with its include directives still missing (comment lines in their place) and they are
        # typed afterwards (one didChange, not saved): everything they reach, at every depth, belongs to the journal now
        rootn = c["files"][0]["name"]
        bare = "\n".join("; include later" if l.startswith("include ") else l for l in files[rootn].split("\n"))
        ops.append({"op": "open", "file": rootn, "text": bare})
        ops.append({"op": "change", "file": rootn, "text": files[rootn]})
        if f0["name"] != rootn:
            ops.append({"op": "open", "file": f0["name"], "text": files[f0["name"]]})
    elif unsaved:
        # every file in the request's scope is open and carries an unsaved edit at its top
        for i in scope_files(c, ws, origin):
            n = c["files"][i]["name"]
            ops.append({"op": "open", "file": n, "text": files[n]})
            ops.append({"op": "change", "file": n, "text": PREFIX + files[n]})
            shift[n] = 2
    else:
        ops.append({"op": "open", "file": f0["name"], "text": files[f0["name"]]})
    probes = []
    seen = set()
    for o in sorted(f0["occ"], key=lambda o: (o["line"], o["c0"])):
        key = (o["k"], o["name"])
        cols = [o["c0"] + (1 if o["quoted"] else 0), (o["c0"] + o["c1"]) // 2]
        for col in sorted(set(cols)):
            if c08.Doc(files[f0["name"]]).mid_surrogate(o["line"] - 1, col):
                continue
            first = key not in seen
            seen.add(key)
            line = o["line"] - 1 + shift.get(f0["name"], 0)
            for kind in (["references", "referencesNoDecl", "rename"] if first else ["references"]):
                ops.append({"op": "req", "file": f0["name"], "kind": kind, "line": line, "char": col, "newName": NEWNAME[o["k"]]})
                probes.append({"op_index": len(ops) - 1, "req": kind, "k": o["k"], "name": o["name"], "line": line, "col": col})
    return {"files": files, "workspace": ws, "ops": ops}, probes, shift


def texts_now(c, files, shift):
    return {n: (PREFIX + t if n in shift else t) for n, t in files.items()}


def substitute_abs(abs_entries, kind, old, new):
    out = copy.deepcopy(abs_entries)
    for e in out:
        if e["type"] == "tx":
            if kind == "payee":
                if e["payee"] == old:
                    e["payee"] = new
                    e["desc"] = new + (" | " + e["note"] if e["note"] else "")
                elif e["payee"] == "" and e["desc"] == old:
                    e["desc"] = new
            for p in e["postings"]:
                if kind == "account" and p["account"] == old:
                    p["account"] = new
                if kind == "commodity":
                    for a in p["amount"]:
                        if a["comm"] == old:
                            a["comm"] = new
                    for x in p["cost"] + p["assert"]:
                        if x["amount"]["comm"] == old:
                            x["amount"]["comm"] = new
        elif e["type"] == "account" and kind == "account" and e["name"] == old:
            e["name"] = new
        elif e["type"] == "commodity" and kind == "commodity" and e["symbol"] == old:
            e["symbol"] = new
    return out


def evaluate(run, c, ws, origin, unsaved, hc, probes, shift, res):
    divs = []
    dirpath = res.get("dir", "")
    now = texts_now(c, hc["files"], shift)
    pending_parse = []
    for pr in probes:
        st = res["steps"][pr["op_index"]]
        reply = st.get("reply")
        kind, name = pr["k"], pr["name"]
        where = "%s on %s %r at %s %d:%d" % (pr["req"], kind, name, c["files"][origin]["name"], pr["line"], pr["col"])
        if pr["req"] in ("references", "referencesNoDecl"):
            decl = pr["req"] == "references"
            want = expected_locations(c, ws, origin, kind, name, decl, shift)
            got = loc_set(reply, dirpath)
            dups = [k for k, v in got.items() if v > 1]
            if dups:
                divs.append(("references:duplicate", "%s: location %s returned %d times" % (where, dups[0], got[dups[0]])))
            gotset = set(got)
            # a quoted commodity may be reported with or without its quotes
            def matches(w):
                fn, l, c0, c1, q = w
                return (fn, l, c0, l, c1) in gotset or (q and (fn, l, c0 + 1, l, c1 - 1) in gotset)
            missing = [w for w in sorted(want) if not matches(w)]
            allowed = set()
            for fn, l, c0, c1, q in want:
                allowed.add((fn, l, c0, l, c1))
                if q:
                    allowed.add((fn, l, c0 + 1, l, c1 - 1))
            extra = sorted(gotset - allowed)
            if missing or extra:
                wrongfile = [e for e in extra if any((e[1], e[2], e[4]) == (w[1], w[2], w[3]) for w in want)]
                sig = "references:wrong-file" if wrongfile and missing else "references:missing" if missing and not extra else "references:unexpected" if extra and not missing else "references:differs"
                divs.append((sig, "%s (declarations %s): missing %s, unexpected %s" % (where, "included" if decl else "excluded", [w[:4] for w in missing][:6], extra[:6])))
        else:
            want = expected_locations(c, ws, origin, kind, name, True, shift)
            if reply is None:
                divs.append(("rename:no-edit", "%s: no edit returned, %d occurrences exist" % (where, len(want))))
                continue
            changes = reply.get("changes") or {}
            per_file = {c08.rel_uri(u, dirpath): eds for u, eds in changes.items()}
            for fn in per_file:
                if fn not in now:
                    divs.append(("rename:unknown-file", "%s: edits for %s" % (where, fn)))
            new = NEWNAME[kind]
            for fn, text in now.items():
                eds = per_file.get(fn, [])
                bad = lspedit.validate_edits(text, eds)
                if bad:
                    divs.append(("rename:" + bad[0][0], "%s in %s: %s" % (where, fn, bad[0][1])))
                    continue
                got_text = lspedit.apply_edits(text, eds)
                # the exact expected text: the original with the occurrence spans replaced
                occs = sorted((l, c0, c1, q) for (f2, l, c0, c1, q) in want if f2 == fn)
                variants = [text]
                lines = text.split("\n")
                def replaced(strip_quotes):
                    ls = list(lines)
                    for l, c0, c1, q in sorted(occs, reverse=True):
                        b = ls[l].encode("utf-16-le")
                        a0, a1 = (c0 + 1, c1 - 1) if (q and strip_quotes) else (c0, c1)
                        ls[l] = (b[:2 * a0] + new.encode("utf-16-le") + b[2 * a1:]).decode("utf-16-le")
                    return "\n".join(ls)
                variants = {replaced(False), replaced(True)}
                if got_text not in variants:
                    gl = got_text.split("\n")
                    el = replaced(True).split("\n")
                    k = next((i for i, (x, y) in enumerate(zip(gl, el)) if x != y), min(len(gl), len(el)))
                    divs.append(("rename:text-differs", "%s: after the edits %s line %d is %r, expected %r (original %r)" % (
                        where, fn, k + 1, gl[k] if k < len(gl) else None, el[k] if k < len(el) else None, lines[k] if k < len(lines) else None)))
                elif occs:
                    fi = [i for i, f in enumerate(c["files"]) if f["name"] == fn][0]
                    pending_parse.append((where, fn, fi, kind, name, new, got_text))
    # the renamed files must parse to the abstract journals with the name substituted
    if pending_parse:
        pres = run.harness("parse", [{"id": str(i), "text": t[6]} for i, t in enumerate(pending_parse)])
        for (where, fn, fi, kind, name, new, text), pr in zip(pending_parse, pres):
            f = c["files"][fi]
            sh = shift.get(fn, 0)
            case = {"abs": substitute_abs(f["abs"], kind, name, new), "firsts": [x + sh for x in f["firsts"]], "lines": text.split("\n")}
            only = set(range(len(f["abs"])))
            if sh:
                # the typed comment line is an entry of its own, not part of the model: compare the model's entries only
                pass
            for sig, what in jcommon.compare_journal(case, pr, only=only):
                divs.append(("rename:reparse:" + sig, "%s: %s after rename: %s" % (where, fn, what)))
    seen = set()
    return [(s, w) for s, w in divs if not (s in seen or seen.add(s))]


def main(args):
    run = vf.Run("C09", args.tier, args.seed, level="exploration")
    thorough = run.tier == "thorough"
    if args.replay:
        with open(args.replay) as f:
            rp = json.load(f)
        combos = [(rp["case"]["spec_case"], rp["case"]["ws"], rp["case"]["origin"], rp["case"]["unsaved"])]
    else:
        cases = wcommon.gen(run, 40 if not thorough else 800, maxtx=2)
        # workspaces in which every file also carries a price directive: the two commodities it names are occurrences of
        # those symbols (known finding commodity-occurrences-in-price-directives-are-not-found)
        priced = wcommon.gen(run, 6 if not thorough else 60, maxtx=1, prices=True)
        for c in priced:
            c["_trigger"] = "price-directive"
        cases = cases + priced
        combos = []
        ntriple = 0
        for c in cases:
            for ws in (False, True):
                for origin in range(len(c["files"])):
                    combos.append((c, ws, origin, False))
                    ntriple += 1
                    k = (ntriple + run.seed) % 6
                    if k == 0 or k == 3 or thorough:
                        combos.append((c, ws, origin, True))
                    if k == 1 or thorough:
                        combos.append((c, ws, origin, "open"))
                    if k == 4 or thorough:
                        combos.append((c, ws, origin, "closed"))
                    if k == 2 or k == 5 or thorough:
                        combos.append((c, ws, origin, "typed"))
    built = [build(c, ws, origin, unsaved) for (c, ws, origin, unsaved) in combos]
    hcs = [dict(b[0], id=str(i)) for i, b in enumerate(built)]
    results = run.harness("script", hcs, timeout=3400)
    table = collections.Counter()
    nprobe = 0
    for (c, ws, origin, unsaved), (hc, probes, shift), res in zip(combos, built, results):
        run.count(vf.digest([hc["files"], ws, origin, unsaved]), len(probes) > 0)
        nprobe += len(probes)
        case = {"spec_case": c, "ws": ws, "origin": origin, "unsaved": unsaved}
        if "panic" in res:
            run.diverge("panic", "server panicked: " + res["panic"][:300], case, None)
            continue
        for sig, what in evaluate(run, c, ws, origin, unsaved, hc, probes, shift, res):
            tag = ("unsaved:" if unsaved is True else (unsaved + ":") if unsaved else "") + sig
            table[(tag, ws, "root" if origin == 0 else "included")] += 1
            run.diverge(tag, "%s  [workspace root %s, unsaved edits %s, files %s]" % (what, ws, unsaved, [f["name"] for f in c["files"]]), case, None, trigger=c.get("_trigger"))
    if os.environ.get("VERIF_TABLE"):
        for k, n in sorted(table.items(), key=str):
            print("TABLE", k, n)
    run.traces_validated = len(combos)
    run.extra["requests"] = nprobe
    c = combos[0][0]
    run.sample({"files": wcommon.files_of(c), "occurrences_of_first_file": c["files"][0]["occ"][:8]})
    run.rule = ("one evaluation per (workspace simulated by WorkspaceFiles.tla, workspace root on/off, requesting file, saved/unsaved); every symbol of the requesting file is probed "
                "(references with and without declarations on every occurrence, rename once per symbol); non-trivial = the file has at least one symbol; distinct by (files, root, origin, unsaved)")
    run.assumptions = ["every file is a member of main.journal's include tree; commodities occur in amounts, costs, assertions and commodity directives (no P / D directives in these workspaces)",
                       "a quoted commodity may be reported and replaced with or without its quotes",
                       "unsaved edits are typed through didChange after didOpen of the file as saved, or arrive with didOpen itself (a text that differs from the file); a document closed without saving is the file on disk again"]
    run.finish(confirm=lambda d: confirm(run, d))


def confirm(run, d):
    cs = d["case"]
    hc, probes, shift = build(cs["spec_case"], cs["ws"], cs["origin"], cs["unsaved"])
    hc = dict(hc, id="0")
    res = run.harness("script", [hc])[0]
    if "panic" in res:
        return d["sig"] == "panic"
    tag = "unsaved:" if cs["unsaved"] is True else (cs["unsaved"] + ":") if cs["unsaved"] else ""
    return any(tag + sig == d["sig"] for sig, _ in evaluate(run, cs["spec_case"], cs["ws"], cs["origin"], cs["unsaved"], hc, probes, shift, res))
