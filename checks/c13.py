"""C13 — Published diagnostics converge to the latest content under any timing.

TLC explores Diag.tla: every interleaving of deliveries, job steps and publish points for the
burst bounds; checks TypeOK, Converged (the C13 contract) and JobsDrain on the repaired
mechanism (Guard = "latest") and confirms that the unguarded mechanism (Guard = "none")
violates Converged (a vacuity guard for the model).  Without VIEW every distinct schedule of
deliver / publish-point events is printed; each is replayed on a real server.Server: the
verifhook gates park every background job at its publish point and release them in the
schedule's order.  Version v of a document is a journal whose transaction is off by exactly
v, so each publication identifies the version it was computed from.  When all jobs are
done, the last publication per document must carry the latest delivered version.
"""
import json

import vf


def cfg(uris, n, guard, emit=True, props=False, view=False, split=False, closes=0):
    s = "CONSTANTS URIs = {%s}  MaxChanges = %d  Guard = \"%s\"  Split = %s  MaxCloses = %d\n" % (
        ", ".join('"%s"' % u for u in uris), n, guard, "TRUE" if split else "FALSE", closes)
    s += "SPECIFICATION Spec\n" if props else "INIT Init\nNEXT Next\n"
    if view:
        s += "VIEW view\n"
    s += "INVARIANTS TypeOK" + (" Converged" if not emit else " Emit") + "\n"
    if props:
        s += "PROPERTIES JobsDrain\n"
    s += "CHECK_DEADLOCK FALSE\n"
    return s


def model_check(run):
    # the repaired mechanism satisfies the contract for every interleaving, incl. liveness under fairness
    r = run.tlc("Diag", cfg(["u1", "u2"], 5 if run.tier == "thorough" else 4, "latest", emit=False, props=True, view=False), workers=4, timeout=1800)
    run.tlc("Diag", cfg(["u1", "u2"], 4, "latest", emit=False, props=True, view=False, closes=2), workers=4, timeout=1800)
    # the unguarded mechanism must violate it (the model is not vacuous)
    r2 = run.tlc("Diag", cfg(["u1"], 2, "none", emit=False, view=True), workers=1, allow_violation=True)
    if r2.ok or "Invariant Converged is violated" not in r2.stdout:
        vf.die_tooling("Diag.tla with Guard=none does not violate Converged — the model is vacuous")
    # a guard that is checked outside the critical section (decision and delivery as separate steps) must violate it too
    r3 = run.tlc("Diag", cfg(["u1"], 2, "latest", emit=False, view=True, split=True), workers=1, allow_violation=True)
    if r3.ok or "Invariant Converged is violated" not in r3.stdout:
        vf.die_tooling("Diag.tla with Split=TRUE does not violate Converged — the model is vacuous")


def gen(run):
    thorough = run.tier == "thorough"
    plans = [(["u1"], 2), (["u1"], 3), (["u1"], 4), (["u1", "u2"], 3), (["u1", "u2"], 4)]
    if thorough:
        plans += [(["u1"], 5), (["u1", "u2"], 5)]
    out = []
    for uris, n in plans:
        r = run.tlc("Diag", cfg(uris, n, "none", emit=True), workers=1, timeout=1800)
        seen = set()
        scheds = []
        for c in r.json:
            key = json.dumps(c["schedule"], sort_keys=True)
            if key in seen:
                continue
            seen.add(key)
            scheds.append(c)
        cap = None
        if not thorough and len(scheds) > 700:
            cap = 700
        if thorough and len(scheds) > 6000:
            cap = 6000
        if cap:
            scheds = run.rng.sample(scheds, cap)
        out += [("%du_%d" % (len(uris), n), c) for c in scheds]
    # bursts in which a document is closed once and opened again: after the re-open the last word must be the latest version's
    for uris, n, cap in ([(["u1"], 3, 500), (["u1", "u2"], 3, 300)] if not thorough else [(["u1"], 3, None), (["u1"], 4, 6000), (["u1", "u2"], 3, 6000)]):
        r = run.tlc("Diag", cfg(uris, n, "none", emit=True, closes=1), workers=1, timeout=1800)
        seen = set()
        scheds = []
        for c in r.json:
            key = json.dumps(c["schedule"], sort_keys=True)
            if key not in seen and any(ev["e"] == "close" for ev in c["schedule"]):
                seen.add(key)
                scheds.append(c)
        if cap and len(scheds) > cap:
            scheds = run.rng.sample(scheds, cap)
        out += [("close%du_%d" % (len(uris), n), c) for c in scheds]
    # schedules in which the decision at the publish point and the delivery of the notification are separate events
    for uris, n, cap in ([(["u1"], 2, None), (["u1"], 3, None), (["u1"], 4, 400), (["u1", "u2"], 3, 300)] if not thorough
                         else [(["u1"], 2, None), (["u1"], 3, None), (["u1"], 4, None), (["u1", "u2"], 3, None), (["u1", "u2"], 4, 8000)]):
        r = run.tlc("Diag", cfg(uris, n, "none", emit=True, split=True), workers=1, timeout=1800)
        seen = set()
        scheds = []
        for c in r.json:
            key = json.dumps(c["schedule"], sort_keys=True)
            if key not in seen:
                seen.add(key)
                scheds.append(c)
        if cap and len(scheds) > cap:
            scheds = run.rng.sample(scheds, cap)
        out += [("split%du_%d" % (len(uris), n), c) for c in scheds]
    return out


def nontrivial(sched):
    """some older job reaches its publish point after a newer version of the same document was delivered"""
    latest = {}
    for ev in sched:
        if ev["e"] == "deliver":
            latest[ev["uri"]] = ev["ver"]
        elif ev["e"] in ("publish", "check", "send") and ev["ver"] < latest.get(ev["uri"], 0):
            return True
    return False


def evaluate(c, res, classes=False, aba=False):
    if "panic" in res:
        return [("panic", "server panicked: " + res["panic"])]
    if res.get("stuck"):
        return [("job-stuck", res["stuck"])]
    divs = []
    for u, v in c["final"].items():
        if v == 0:
            continue
        got = res["last"].get(u)
        want = v // 2 if classes else v
        if got != want:
            order = [(p["uri"], p["ver"]) for p in res["pubs"]]
            if classes:
                divs.append(("stale-final-diagnostics", "document %s: the client's last diagnostics are those of class %s, the latest content (version %d) has class %d (publications in order: %s)" % (u, got, v, want, order)))
            else:
                divs.append(("stale-final-publication" + (":same-text-older-version" if aba else ""), "document %s: last publication is %s version %s, latest content is version %d (publications in order: %s)" % (
                    u, "sent by the job of" if aba else "", got, v, order)))
    return divs


# ---- DiagDeps.tla: the last word about a document also depends on the documents it depends on
DNAMES = {"u1": "main.journal", "u2": "decl.journal"}


def dep_text(u, v):
    if u == "u2":
        return "account a:b\naccount wallet:w%d\n; version %d\n" % (v % 2, v)
    return "include decl.journal\n\n2024-01-01 x  ; version %d\n    wallet:w0  1\n    wallet:w1  1\n    a:b  -2\n" % v


DMOD = {"MCDiagDeps": "---- MODULE MCDiagDeps ----\nEXTENDS DiagDeps\nMDep == {<<\"u1\", \"u2\">>}\n====\n"}


def dcfg(maxch, mech, emit):
    return ("CONSTANTS Docs = {\"u1\", \"u2\"} MaxChanges = %d Mech = \"%s\"\n Dep <- MDep\nSPECIFICATION Spec\nINVARIANTS ConvergedDeps%s\nCHECK_DEADLOCK FALSE\n"
            % (maxch, mech, " Emit" if emit else ""))


def dep_cases(run):
    bad = run.tlc("MCDiagDeps", dcfg(2, "own-job-only", False), workers=2, allow_violation=True, collect_json=False, extra_modules=DMOD)
    if bad.ok or "Invariant ConvergedDeps is violated" not in bad.stdout:
        vf.die_tooling("DiagDeps.tla: analysing only the changed document no longer violates ConvergedDeps — the model is vacuous")
    seen, out = set(), []
    for k in ((1, 2, 3) if run.tier != "thorough" else (1, 2, 3, 4, 5)):
        for c in run.tlc("MCDiagDeps", dcfg(k, "reanalyse-dependents", True), workers=4, extra_modules=DMOD).json:
            key = json.dumps(c["h"])
            if key not in seen:
                seen.add(key)
                out.append(c)
    return out


def dep_harness(c, ws):
    files = {DNAMES[u]: dep_text(u, 1) for u in DNAMES}
    ops = [{"op": "open", "file": DNAMES["u2"], "text": files[DNAMES["u2"]]}, {"op": "open", "file": DNAMES["u1"], "text": files[DNAMES["u1"]]}]
    for st in c["h"]:
        # every change is saved as well: what an analysis reads from the file and what the editor holds agree throughout
        t = dep_text(st["uri"], st["ver"])
        ops += [{"op": "change", "file": DNAMES[st["uri"]], "text": t}, {"op": "write", "file": DNAMES[st["uri"]], "text": t}, {"op": "save", "file": DNAMES[st["uri"]]}]
    ops += [{"op": "pub", "file": DNAMES["u1"]}, {"op": "pub", "file": DNAMES["u2"]}]
    fin = {DNAMES[u]: dep_text(u, c["final"][u]) for u in DNAMES}
    fresh = [{"op": "open", "file": DNAMES["u2"], "text": fin[DNAMES["u2"]]}, {"op": "open", "file": DNAMES["u1"], "text": fin[DNAMES["u1"]]},
             {"op": "pub", "file": DNAMES["u1"]}, {"op": "pub", "file": DNAMES["u2"]}]
    return ({"files": files, "workspace": ws, "ops": ops}, {"files": fin, "workspace": ws, "ops": fresh})


def dep_evaluate(c, lived, fresh):
    for r in (lived, fresh):
        if "panic" in r:
            return [("panic", "server panicked: " + r["panic"][:300])]
    out = []
    for k, u in ((-2, "u1"), (-1, "u2")):
        a, b = lived["steps"][k].get("diags") or [], fresh["steps"][k].get("diags") or []
        ka = sorted((d["sl"], d["code"], d["msg"]) for d in a)
        kb = sorted((d["sl"], d["code"], d["msg"]) for d in b)
        if ka != kb:
            out.append(("dependent-not-reanalysed", "after %s the client's last diagnostics for %s are %s; a fresh server given the final texts (versions %s) publishes %s" % (
                [(s["uri"], s["ver"]) for s in c["h"]], DNAMES[u], ka, c["final"], kb)))
    return out


def dependents(run, only=None):
    cases = dep_cases(run) if only is None else [only[0]]
    combos = [(c, ws) for c in cases for ws in ((False, True) if only is None else [only[1]])]
    hcs = []
    for i, (c, ws) in enumerate(combos):
        a, b = dep_harness(c, ws)
        hcs += [dict(a, id="l%d" % i), dict(b, id="f%d" % i)]
    res = run.harness("script", hcs, timeout=2400)
    for i, (c, ws) in enumerate(combos):
        run.count(vf.digest(["deps", c["h"], ws]), any(s["uri"] == "u2" for s in c["h"]))
        for sig, what in dep_evaluate(c, res[2 * i], res[2 * i + 1]):
            run.diverge(sig, what + "  [workspace root %s]" % ws, {"family": "dependents", "spec_case": c, "workspace": ws}, None,
                        trigger="dependents" if sig == "dependent-not-reanalysed" else None)
    return len(combos)


def main(args):
    run = vf.Run("C13", args.tier, args.seed, level="model_checking")
    if args.replay:
        with open(args.replay) as f:
            rp = json.load(f)
        if rp["case"]["family"] == "dependents":
            dependents(run, (rp["case"]["spec_case"], rp["case"]["workspace"]))
            run.rule = "replay of one history of DiagDeps.tla"
            return run.finish(confirm=lambda d: confirm(run, d))
        cases = [(rp["case"]["family"], rp["case"]["spec_case"], rp["case"]["workspace"], rp["case"].get("classes", False))]
    else:
        run.extra["dependency_histories"] = dependents(run)
        model_check(run)
        # unbounded: the TLAPS proof that the repaired mechanism satisfies Converged for any number of documents, changes and jobs
        run.extra["tlaps_obligations_proved_DiagProof"] = run.tlaps("DiagProof")
        cases = []
        for k, (fam, c) in enumerate(gen(run)):
            cases.append((fam, c, False, False))
            cases.append((fam, c, True, k % 2 == 0))
            cases.append((fam, c, False, True))
            if fam.startswith("2u_") and any(e["e"] == "deliver" and e["uri"] == "u1" and e["ver"] >= 3 for e in c["schedule"]):
                # u1 returns to an earlier TEXT (versions alternate between two texts) while u2, which it includes, changes
                cases.append((fam + "-aba", c, k % 2 == 1, "aba"))
    hcases = [{"id": str(i), "schedule": c["schedule"], "workspace": ws, "classes": cl is True, "aba": cl == "aba"} for i, (_, c, ws, cl) in enumerate(cases)]
    results = run.harness("diag", hcases, timeout=2400)
    blocked = 0
    for (fam, c, ws, cl), res in zip(cases, results):
        run.count(vf.digest([c["schedule"], ws, cl]), nontrivial(c["schedule"]))
        blocked += 1 if res.get("blocked") else 0
        for sig, what in evaluate(c, res, cl is True, cl == "aba"):
            run.diverge(sig, what, {"family": fam, "spec_case": c, "workspace": ws, "classes": cl}, res)
    run.extra["schedules_serialised_by_the_implementation"] = blocked
    run.traces_validated = len(cases)
    nt = [c for _, c, _, _ in cases if nontrivial(c["schedule"])]
    if nt:
        run.sample({"schedule": nt[0]["schedule"], "final": nt[0]["final"]})
        run.sample({"schedule": nt[-1]["schedule"], "final": nt[-1]["final"]})
    run.rule = ("every distinct sequence of deliver / publish-point events TLC reaches in Diag.tla for bursts of 2..4 changes on one document and 3..4 on two "
                "(thorough: 5; all permutations of publish points for bursts <= 4), plus schedules in which the decision at the publish point and the delivery of the "
                "notification are separate events (the replay parks a job inside client.PublishDiagnostics), each replayed with and without a workspace root and with "
                "injective and pairwise-equal version->diagnostics maps; "
                "non-trivial = an older job reaches its publish point after a newer version of the same document was delivered")
    run.exhaustive = run.tier == "thorough" or True
    run.assumptions = ["a publish point is reached with the job's analysis complete (gates at pd.start / pd.publish / pd.done)",
                       "a job that ends without publishing is a legitimate way to satisfy the property"]
    run.finish(confirm=lambda d: confirm(run, d))


def confirm(run, d):
    c = d["case"]
    if c.get("family") == "dependents":
        a, b = dep_harness(c["spec_case"], c["workspace"])
        res = run.harness("script", [dict(a, id="l"), dict(b, id="f")])
        return any(sig == d["sig"] for sig, _ in dep_evaluate(c["spec_case"], res[0], res[1]))
    cl = c.get("classes", False)
    # a goroutine the schedule does not gate (one that the unchanged tree does not start) makes the outcome a matter of
    # timing: the same schedule is played up to five times
    for _ in range(5):
        res = run.harness("diag", [{"id": "0", "schedule": c["spec_case"]["schedule"], "workspace": c["workspace"], "classes": cl is True, "aba": cl == "aba"}])[0]
        if any(sig == d["sig"] for sig, _ in evaluate(c["spec_case"], res, cl is True, cl == "aba")):
            return True
    return False
