"""C07 — A syntax error stays contained in its own entry.

Damage.tla draws journals of G (2..5 entries, clean region) and, for every transaction or
directive of each, applies EVERY damage of the kinds the property lists to that entry's lines
only: truncation at every column of every line, every line deleted / duplicated / swapped with
the next, 24 junk strings (stray operators, brackets, quotes, marks; control bytes, invalid
UTF-8, an unterminated quote, nested parentheses, a huge exponent, a 1 KiB run) inserted at
every lexeme boundary, every closing bracket or quote dropped.  The spec knows what must be
unaffected: each other entry keeps its abstract content at its line shifted by the lines added
or removed, and syntax errors may lie only on the lines the damaged entry now occupies.
parser.Parse of the damaged text is compared with that; on a real server the published
diagnostics of every other entry must equal those of the intact journal (shifted) and
diagnostics without a code (syntax errors) must lie inside the damaged entry.
"""
import base64
import collections
import json
import os

import vf
import jcommon


def cfg(maxentries):
    return "CONSTANTS MaxEntries = %d\nINIT Init\nNEXT Next\nINVARIANTS Theorems Emit\nCHECK_DEADLOCK FALSE\n" % maxentries


SUBST = {"\ue000": b"\x01\x7f", "\ue001": b"\xff\xfe", "\ue002": b"a" * 1024}
INCLUDED = {"b.journal": "; included\n", "sub/c.journal": "; included\n"}     # what the include paths of G resolve to
NODIAG = {"diagnostics": {"undeclaredAccounts": False, "undeclaredCommodities": False}}


def to_bytes(text):
    b = text.encode("utf-8", "surrogatepass")
    for k, v in SUBST.items():
        b = b.replace(k.encode("utf-8"), v)
    return b


def lone_surrogate(s):
    try:
        s.encode("utf-16-le")
        return False
    except UnicodeEncodeError:
        return True


def damaged_cases(c):
    """yield (entry index i, damage record x, damaged lines, span (l0, l1), shifted firsts)"""
    lines = c["lines"]
    for i0, ds in enumerate(c["damages"]):
        if not ds:
            continue
        f = c["firsts"][i0]
        cnt = c["counts"][i0]
        for x in ds:
            new = x["new"]
            if any(lone_surrogate(l) for l in new):
                continue    # a truncation or insertion inside a surrogate pair: no editor produces it
            dl = lines[:f - 1] + new + lines[f - 1 + cnt:]
            shift = len(new) - cnt
            firsts = [v + (shift if k > i0 else 0) for k, v in enumerate(c["firsts"])]
            yield i0, x["d"], dl, (f, f + len(new) - 1), firsts


def hcase(idx, dl):
    text = "\n".join(dl) + "\n"
    b = to_bytes(text)
    try:
        t = b.decode("utf-8")
        return {"id": str(idx), "text": t}
    except UnicodeDecodeError:
        return {"id": str(idx), "b64": base64.b64encode(b).decode("ascii")}


def norm_msg(code, msg):
    # the order of the parts of a multi-commodity UNBALANCED message is C15's business
    if code == "UNBALANCED" and ": " in msg:
        head, rest = msg.split(": ", 1)
        return head + ": " + "; ".join(sorted(rest.split("; ")))
    return msg


def diag_key(d, base_line):
    return (d["sl"] - base_line, d["el"] - d["sl"], d["code"], norm_msg(d["code"], d["msg"]))


def entry_spans(c, firsts, counts):
    return [(firsts[k], firsts[k] + counts[k] - 1) for k in range(len(firsts))]


def main(args):
    run = vf.Run("C07", args.tier, args.seed, level="model_checking")
    thorough = run.tier == "thorough"
    if args.replay:
        with open(args.replay) as f:
            rp = json.load(f)
        journals = [rp["case"]["spec_case"]]
        only_damage = rp["case"]["damage"]
    else:
        only_damage = None
        js = run.tlc_simulate_many("Damage", cfg(5), 24 if not thorough else 400, 2, procs=8, timeout=2400)
        seen = set()
        journals = []
        for c in js:
            k = json.dumps(c["lines"], ensure_ascii=False)
            if k not in seen:
                seen.add(k)
                journals.append(c)
        journals.sort(key=lambda c: json.dumps(c["lines"], ensure_ascii=False))
    table = collections.Counter()
    kinds = collections.Counter()
    total = 0
    skipped_base = 0
    for jc in journals:
        base_text = "\n".join(jc["lines"]) + "\n"
        base = run.harness("parse", [{"id": "b", "text": base_text}])[0]
        base_case = {"abs": jc["abs"], "firsts": jc["firsts"], "lines": jc["lines"]}
        if jcommon.compare_journal(base_case, base):
            skipped_base += 1     # the intact journal is not understood as written: C03's business, nothing to contain
            continue
        base_diags = base_diags_of(run, jc)
        items = []
        for i0, d, dl, span, firsts in damaged_cases(jc):
            if only_damage is not None and (i0 != only_damage["entry"] or d != only_damage["d"]):
                continue
            items.append((i0, d, dl, span, firsts))
        if not thorough and only_damage is None and len(items) > 1500:
            # keep every structural damage and a seeded sample of the column-wise ones
            keep = [it for it in items if it[1]["k"] in ("del", "dup", "swap", "dropc")]
            rest = [it for it in items if it[1]["k"] not in ("del", "dup", "swap", "dropc")]
            items = keep + run.rng.sample(rest, 1500 - len(keep))
        hcs = [hcase(n, it[2]) for n, it in enumerate(items)]
        presults = run.harness("parse", hcs, timeout=3000)
        dcs = []
        for n, (it, hc) in enumerate(zip(items, hcs)):
            if Junk_is_heavy(it[1]):
                dcs.append(None)
                continue
            dc = dict(hc)
            dc["doc"] = "doc.journal"
            dc["settings"] = NODIAG
            dc["files"] = INCLUDED
            dcs.append(dc)
        dres_list = run.harness("pubdiag", [d for d in dcs if d is not None], timeout=3000)
        dit = iter(dres_list)
        for (i0, d, dl, span, firsts), hc, pres, dc in zip(items, hcs, presults, dcs):
            total += 1
            kinds[d["k"]] += 1
            run.count(vf.digest([dl]), True)
            case = {"spec_case": jc, "damage": {"entry": i0, "d": d}}
            what_dmg = "damage %s on entry %d (lines %d..%d now %r)" % (json.dumps(d, sort_keys=True), i0 + 1, span[0], span[1], dl[span[0] - 1:span[1]])
            dres = next(dit) if dc is not None else None
            divs = evaluate_one(jc, i0, dl, span, firsts, pres, dres, base_diags)
            seen = set()
            for sig, what in divs:
                if sig in seen:
                    continue
                seen.add(sig)
                table[(sig, d["k"])] += 1
                run.diverge(sig, "%s; %s" % (what, what_dmg), case, None)
    if os.environ.get("VERIF_TABLE"):
        for k, n in sorted(table.items(), key=str):
            print("TABLE", k, n)
    run.traces_validated = total
    run.extra["journals"] = len(journals)
    run.extra["journals_tight_layout"] = sum(1 for j in journals if j.get("tight"))
    run.extra["journals_skipped_not_understood_intact"] = skipped_base
    run.extra["damages_by_kind"] = dict(kinds)
    if journals:
        jc = journals[0]
        ex = next(iter(damaged_cases(jc)), None)
        run.sample({"journal": jc["lines"], "example_damage": ex[1] if ex else None, "damaged_entry_lines": ex[2][ex[3][0] - 1:ex[3][1]] if ex else None})
    run.rule = ("one case per (journal drawn by Damage.tla, target entry, damage): all damages of all transactions/directives of each journal "
                "(quick: every structural damage + a seeded sample of 1500 column-wise damages per journal); distinct by damaged text")
    run.assumptions = ["journals of G's clean region with entries separated as G prescribes; no damage splits a surrogate pair",
                       "half of the journals are laid out without blank lines between entries; the first line of a multi-line entry is not deleted/swapped away when the entry directly follows another one (its indented lines would legitimately continue that entry)",
                       "undeclared-name warnings are switched off for the diagnostics comparison (a damaged declaration legitimately changes them)",
                       "a syntax error reported at column 1 of the blank line (or end of file) right after the damaged entry, where the parser met the end of the entry, counts as inside"]
    run.finish(confirm=lambda d: confirm(run, d))


def evaluate_one(jc, i0, dl, span, firsts, pres, dres, base_diags):
    divs = []
    if "panic" in pres:
        divs.append(("panic", "parser panicked: " + pres["panic"][:200]))
    else:
        others = set(range(len(jc["abs"]))) - {i0}
        shifted = {"abs": jc["abs"], "firsts": firsts, "lines": dl}
        for sig, what in jcommon.compare_journal(shifted, pres, only=others, ignore_errs=True):
            divs.append(("other-entry:" + sig, what))
        for e in pres["errs"]:
            if not (span[0] <= e["line"] <= span[1]) and not boundary_ok(e["line"], e["col"], span, dl):
                divs.append(("syntax-error-outside", "syntax error at %d:%d (%s) outside the damaged entry's lines %d..%d" % (e["line"], e["col"], e["msg"], span[0], span[1])))
                break
    if dres is not None:
        if "panic" in dres:
            divs.append(("panic-server", "server panicked: " + dres["panic"][:200]))
        elif not dres.get("published"):
            divs.append(("nothing-published", "no diagnostics published for the damaged document"))
        else:
            counts = list(jc["counts"])
            counts[i0] = span[1] - span[0] + 1
            spans1 = entry_spans(jc, firsts, counts)
            for k, (l0, l1) in enumerate(spans1):
                if k == i0:
                    continue
                got = sorted(diag_key(x, l0 - 1) for x in dres["diags"] if l0 - 1 <= x["sl"] <= l1 - 1)
                if got != base_diags[k]:
                    divs.append(("other-diagnostics", "entry %d (line %d): diagnostics %s, in the intact journal %s" % (k + 1, l0, got, base_diags[k])))
                    break
            for x in dres["diags"]:
                if x["code"] == "" and not (span[0] - 1 <= x["sl"] <= span[1] - 1) and not boundary_ok(x["sl"] + 1, x["sc"] + 1, span, dl):
                    divs.append(("syntax-diagnostic-outside", "syntax diagnostic at line %d (%s) outside the damaged entry's lines %d..%d" % (x["sl"] + 1, x["msg"], span[0], span[1])))
                    break
    return divs


def base_diags_of(run, jc):
    base_text = "\n".join(jc["lines"]) + "\n"
    based = run.harness("pubdiag", [{"id": "b", "text": base_text, "doc": "doc.journal", "settings": NODIAG, "files": INCLUDED}])[0]
    out = []
    for (l0, l1) in entry_spans(jc, jc["firsts"], jc["counts"]):
        out.append(sorted(diag_key(d, l0 - 1) for d in based["diags"] if l0 - 1 <= d["sl"] <= l1 - 1))
    return out


def Junk_is_heavy(d):
    return d["k"] == "ins" and d["j"] == 24     # 1E99999999: arithmetic on it is C06's business


def boundary_ok(line, col, span, dl):
    """the parser reports 'unexpected end of entry' at the token that ends it: the start of the line right after"""
    nxt = dl[span[1]] if span[1] < len(dl) else ""
    return line == span[1] + 1 and col <= 1 and nxt.strip() == ""


def confirm(run, d):
    jc = d["case"]["spec_case"]
    dm = d["case"]["damage"]
    base_diags = base_diags_of(run, jc)
    for i0, dd, dl, span, firsts in damaged_cases(jc):
        if i0 == dm["entry"] and dd == dm["d"]:
            hc = hcase(0, dl)
            pres = run.harness("parse", [hc])[0]
            dres = None
            if not Junk_is_heavy(dd):
                dc = dict(hc)
                dc["doc"] = "doc.journal"
                dc["settings"] = NODIAG
                dc["files"] = INCLUDED
                dres = run.harness("pubdiag", [dc])[0]
            return any(sig == d["sig"] for sig, _ in evaluate_one(jc, i0, dl, span, firsts, pres, dres, base_diags))
    return False
