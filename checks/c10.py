"""C10 — Include resolution equals graph reachability, with exact cycle verdicts.

TLC (spec/MCIncludeGraphs.tla over spec/Include.tla) enumerates include graphs as initial
states, checks the contract's own theorems on each (reachability, each-once, cycle verdicts
exactly on back edges) and prints one JSON case per graph with the canonical Resolve result.
Every case is rendered to real files and loaded with a fresh include.Loader (Load and
LoadFromContent); the projection must equal the contract.
"""
import vf
from inc_common import NAMES, SIZE_LIMIT, compare_load, render_disk


def cfg(n, mode, big="{}", maxlim=1, emitmod=1, seed=0):
    return ("CONSTANTS N = %d  Big = %s  Mode = \"%s\"  MaxLim = %d  EmitMod = %d  EmitSeed = %d\n"
            "INIT Init\nNEXT Next\nINVARIANTS Theorems Emit\nCHECK_DEADLOCK FALSE\n") % (n, big, mode, maxlim, emitmod, seed)


def gen(run):
    """Returns list of (family, case) ; case = JSON from TLC."""
    out = []
    thorough = run.tier == "thorough"
    plan = [
        ("sets3", 3, "sets", "{}", 1),
        ("sets4", 4, "sets", "{}", 1),
        ("lists3", 3, "lists", "{}", 1),
        ("depth3", 3, "depth", "{}", 4),
        ("big3", 3, "sets", "{2}", 1),
        ("big3b", 3, "sets", "{2, 3}", 1),
        ("glob3", 3, "glob", "{}", 1),
    ]
    if thorough:
        plan += [("depth4", 4, "depth", "{}", 5), ("glob4", 4, "glob", "{}", 1), ("big4", 4, "sets", "{3}", 1)]
    for fam, n, mode, big, maxlim in plan:
        emitmod = 1
        if not thorough and fam == "sets4":
            emitmod = 16      # theorems are still checked on all 65,536 graphs; 1/16 of them are printed for replay
        res = run.tlc("MCIncludeGraphs", cfg(n, mode, big, maxlim, emitmod, run.seed),
                      workers=8, timeout=1500)
        cases = res.json
        if not cases:
            vf.die_tooling("TLC produced no cases for " + fam)
        if not thorough:
            cap = {"sets4": 4096, "lists3": 3000, "glob3": 3000}.get(fam)
            if cap and len(cases) > cap:
                cases = run.rng.sample(cases, cap)
        else:
            cap = {"depth4": 60000, "glob4": 60000}.get(fam)
            if cap and len(cases) > cap:
                cases = run.rng.sample(cases, cap)
        for c in cases:
            out.append((fam, c))
    return out


def to_harness(idx, fam, c, seed):
    big = set(c["big"])
    # spelling of a plain include: relative (3 in 8), absolute, home-relative, absolute with "/./", absolute with "/sub/../", "./relative"
    forms = (lambda f, i: (idx * 11 + f * 3 + i + seed) % 8 if fam in ("sets3", "lists3", "glob3", "glob4") else 0)
    # the case's directory: plain, with a blank, non-ASCII, with brackets, with braces.  A path the USER writes with a
    # bracket is a pattern, so under the last two the directives are spelled relative to the including file only
    ds = (idx + seed) % 6 if fam in ("sets3", "lists3", "glob3", "glob4") else 0
    ds = 0 if ds == 5 else ds
    files = render_disk(c["disk"], c["pats"], big, forms=lambda f, i: (forms(f, i) if forms(f, i) <= 5 else 0) if ds < 3 else (5 if forms(f, i) == 5 else 0))
    if idx % 2 == 0 and fam in ("glob3", "glob4"):
        # directories whose names match the patterns: a pattern yields FILES (a folder "receipts.journal" is no journal)
        files["dir.journal/.keep"] = ""
        files["sub/dir.journal/.keep"] = ""
    root = NAMES[1]
    hc = {"id": str(idx), "files": files, "fresh": False, "dirstyle": ds,
          "depth": c["lim"] if c["lim"] <= len(c["disk"]) else 0,
          "size": SIZE_LIMIT if big else 0,
          # resolved three times: by a fresh loader, again by the SAME loader (every included file now comes from its cache:
          # limits and cycle verdicts must not depend on that), and from the editor's text by another fresh loader
          "ops": [{"op": "load", "file": root}, {"op": "load", "file": root}, {"op": "reset"}, {"op": "loadcontent", "file": root, "content": files[root]}]}
    return hc


def evaluate(run, fam, c, res):
    if "panic" in res:
        return [("panic", "loader panicked: " + res["panic"])]
    divs_all = []
    for step in res["steps"]:
        obs = step.get("shared")
        if obs is None:
            continue
        da = compare_load(c["disk"], c["a"], obs)
        if not da:
            continue
        db = compare_load(c["disk"], c["b"], obs) if c["b"] != c["a"] else da
        if not db:
            continue
        best = da if len(da) <= len(db) else db
        for sig, what in best:
            divs_all.append((sig, "%s [%s%s]" % (what, step["op"], " by a loader whose cache is warm" if step is res["steps"][1] else "")))
    # dedupe identical findings from the two entry points
    seen = set()
    out = []
    for sig, what in divs_all:
        if sig in seen:
            continue
        seen.add(sig)
        out.append((sig, what))
    return out


def main(args):
    run = vf.Run("C10", args.tier, args.seed, level="model_checking")
    if args.replay:
        return replay(run, args.replay)
    cases = gen(run)
    hcases = [to_harness(i, fam, c, run.seed) for i, (fam, c) in enumerate(cases)]
    results = run.harness("include", hcases)
    for (fam, c), hc, res in zip(cases, hcases, results):
        nontrivial = any(len(d) > 0 for d in c["disk"])
        run.count(vf.digest([c["disk"], c["pats"], c["lim"], c["big"]]), nontrivial)
        for sig, what in evaluate(run, fam, c, res):
            run.diverge(sig, what, {"family": fam, "spec_case": c, "harness_case": hc}, res)
    run.traces_validated = len(cases)
    run.sample({"spec_case": cases[len(cases) // 2][1], "rendered_root": hcases[len(cases) // 2]["files"][NAMES[1]]})
    run.sample({"spec_case": cases[-1][1]})
    run.rule = ("one case per include graph enumerated by TLC as an initial state of MCIncludeGraphs (edge sets on 3 and 4 files, "
                "ordered directive lists with duplicates and dangling targets, depth limits, oversized files, glob directives); "
                "non-trivial = at least one include directive; distinct by (disk, patterns, limit, big)")
    run.exhaustive = run.tier == "thorough"
    run.assumptions = ["canonical depth-first order defines 'currently being included'",
                       "either off-by-one reading of the depth limit is accepted (results for lim and lim+1)",
                       "an error for a glob that matches nothing is optional"]
    run.finish(confirm=lambda d: confirm(run, d))


def confirm(run, d):
    hc = d["case"]["harness_case"]
    res = run.harness("include", [hc])[0]
    got = evaluate(run, d["case"]["family"], d["case"]["spec_case"], res)
    return any(sig == d["sig"] for sig, _ in got)


def replay(run, path):
    import json
    with open(path) as f:
        rp = json.load(f)
    hc = rp["case"]["harness_case"]
    res = run.harness("include", [hc])[0]
    got = evaluate(run, rp["case"]["family"], rp["case"]["spec_case"], res)
    run.count("replay")
    run.count("replay2")
    for sig, what in got:
        run.diverge(sig, what, rp["case"], res)
    run.rule = "replay of one stored case"
    run.sample(rp["case"]["spec_case"])
    run.finish()
