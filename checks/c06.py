"""C06 — Every request is total and time-bounded on arbitrary content (small scope); tokenisation makes progress.

Input.tla enumerates (a) every string of length <= N over 28 representatives of the character
classes the lexer dispatches on (digits, letters, the exponent letter, blank, TAB, LF, CR, the
punctuation of the grammar, non-ASCII, non-BMP, a control byte, invalid UTF-8), placed at a line
start, after an indent and as a posting line under a header, and (b) every sequence of <= K of
20 hostile lexemes (huge exponents, 40-digit numbers, unterminated quotes, nested parentheses,
valid and impossible dates, operators, directive keywords, 10 KiB runs, NUL), in three layouts.
For every text: the token stream of the real lexer is recorded and VALIDATED BY TLC against the
contract monitor Lexer.tla (tokens left to right, no overlap, inside the input, strict progress,
exactly one end-of-input at the end); the document is opened on a real server and, for the
smaller lengths, every request kind is issued at every cursor position (plus one past each line
end and one past the last line), each under a deadline of 1 s + 2 ms/byte, in child processes
with an address-space limit.  A panic, a crash of the process, a missed deadline, a missing
publication or a rejected token trace is the divergence.

The 64 KiB coverage-guided fuzzing the quantifier asks for is outside this family (DESIGN.md 8).
"""
import base64
import collections
import json
import os
import re
import resource
import subprocess
import time

import vf

SUBST = {"\ue000": b"\x01\x7f", "\ue001": b"\xff\xfe", "\ue003": b"a" * 10240, "\ue004": b"1," * 5120, "\ue005": b"\x00"}


def cfg(fam, n):
    return "CONSTANTS Family = \"%s\" MaxLen = %d\nINIT Init\nNEXT Next\nINVARIANTS Emit\nCHECK_DEADLOCK FALSE\n" % (fam, n)


def to_bytes(t):
    b = t.encode("utf-8", "surrogatepass")
    for k, v in SUBST.items():
        b = b.replace(k.encode("utf-8"), v)
    return b


def limit_as():
    try:
        resource.setrlimit(resource.RLIMIT_AS, (12 << 30, 12 << 30))
    except Exception:
        pass


def run_total(run, cases, procs=14, timeout=3400):
    """cases: list of dicts {id, b64, requests, lex}; returns {id: result dict or {'crash': ...}}"""
    binp = run.build_harness()
    base = run.mkdir("total-%d" % int(time.time() * 1000))
    chunks = [cases[i::procs] for i in range(procs)]
    procs_state = []
    for k, ch in enumerate(chunks):
        if not ch:
            continue
        inp = os.path.join(base, "in%d.ndjson" % k)
        with open(inp, "w") as f:
            for c in ch:
                f.write(json.dumps(c) + "\n")
        procs_state.append({"k": k, "cases": ch, "inp": inp, "out": os.path.join(base, "out%d.ndjson" % k), "start": 0, "p": None, "crashes": {}})
    env = vf.go_env()
    env["HOME"] = run.mkdir("home")

    def launch(st):
        work = os.path.join(base, "work%d-%d" % (st["k"], st["start"]))
        os.makedirs(work, exist_ok=True)
        st["err"] = open(os.path.join(base, "err%d.txt" % st["k"]), "ab")
        st["p"] = subprocess.Popen([binp, "total", "-in", st["inp"], "-out", st["out"], "-work", work, "-start", str(st["start"])],
                                   env=env, stdout=subprocess.DEVNULL, stderr=st["err"], preexec_fn=limit_as)

    for st in procs_state:
        launch(st)
    t0 = time.time()
    live = list(procs_state)
    while live:
        if time.time() - t0 > timeout:
            for st in live:
                st["p"].kill()
            vf.die_tooling("the totality harness did not finish within %d s" % timeout)
        time.sleep(0.2)
        for st in list(live):
            rc = st["p"].poll()
            if rc is None:
                continue
            st["err"].close()
            # which cases are finished?
            done_ids, begun = set(), []
            if os.path.exists(st["out"]):
                with open(st["out"]) as f:
                    for line in f:
                        try:
                            o = json.loads(line)
                        except Exception:
                            continue
                        if "begin" in o:
                            begun.append(o["begin"])
                        else:
                            done_ids.add(o["id"])
            if rc == 0:
                live.remove(st)
                continue
            if rc == 3:
                # the process stopped itself after several abandoned (possibly spinning) requests: a fresh process carries on
                last = next((b for b in reversed(begun)), None)
                idx = [i for i, c in enumerate(st["cases"]) if c["id"] == last][0]
                st["start"] = idx + 1
                st["restarts"] = st.get("restarts", 0) + 1
                if st["start"] >= len(st["cases"]) or st["restarts"] > 3:
                    st["abandoned_from"] = st["start"]
                    live.remove(st)
                    continue
                launch(st)
                continue
            # crashed: the last begun and unfinished case is the culprit
            culprit = next((b for b in reversed(begun) if b not in done_ids), None)
            with open(os.path.join(base, "err%d.txt" % st["k"]), "rb") as f:
                tail = f.read()[-3000:].decode("utf-8", "replace")
            if culprit is None:
                vf.die_tooling("totality harness exited %d before starting a case:\n%s" % (rc, tail))
            st["crashes"][culprit] = "process exited %d: %s" % (rc, head_of_crash(tail))
            idx = [i for i, c in enumerate(st["cases"]) if c["id"] == culprit][0]
            st["start"] = idx + 1
            if st["start"] >= len(st["cases"]):
                live.remove(st)
                continue
            launch(st)
    out = {}
    for st in procs_state:
        if "abandoned_from" in st:
            for c in st["cases"][st["abandoned_from"]:]:
                out[c["id"]] = {"id": c["id"], "len": 0, "tokens": [{"t": "EOF", "p": 0, "q": 0}], "problems": ["skipped: not run, the harness process kept hanging"], "requests": 0, "maxMs": 0}
        if os.path.exists(st["out"]):
            with open(st["out"]) as f:
                for line in f:
                    o = json.loads(line)
                    if "begin" not in o:
                        out[o["id"]] = o
        for cid, why in st["crashes"].items():
            out[cid] = {"id": cid, "crash": why}
    return out


def head_of_crash(tail):
    m = re.search(r"(panic: .*|fatal error: .*|runtime: out of memory.*)", tail)
    first = m.group(1)[:200] if m else tail[-300:]
    frames = re.findall(r"(github.com/juev/hledger-lsp/internal/[^\s(]+)", tail)
    return first + (" | " + " <- ".join(frames[:4]) if frames else "")


def validate_traces(run, items):
    """items: list of (case id, len, tokens); TLC validates the concatenated trace against Lexer.tla.
    Returns list of (case id, what) for rejected traces."""
    rejected = []
    chunk = []
    nev = 0
    chunks = []
    for it in items:
        chunk.append(it)
        nev += 1 + len(it[2])
        if nev > 150000:
            chunks.append(chunk)
            chunk, nev = [], 0
    if chunk:
        chunks.append(chunk)
    for ci, ch in enumerate(chunks):
        while ch:
            path = os.path.join(run.scratch, "lextrace-%d-%d.ndjson" % (ci, len(ch)))
            owner = []
            with open(path, "w") as f:
                for cid, ln, toks in ch:
                    f.write(json.dumps({"e": "input", "len": ln}) + "\n")
                    owner.append(cid)
                    for t in toks:
                        f.write(json.dumps({"e": "tok", "t": t["t"], "p": t["p"], "q": t["q"]}) + "\n")
                        owner.append(cid)
                # a closing input event forces the last trace to have ended with end-of-input
                f.write(json.dumps({"e": "input", "len": 0}) + "\n")
                f.write(json.dumps({"e": "tok", "t": "EOF", "p": 0, "q": 0}) + "\n")
                owner += [None, None]
            c = ("CONSTANT TraceFile = \"%s\"\nSPECIFICATION Spec\nINVARIANTS TypeOK Mark\nPOSTCONDITION Accepted\nCHECK_DEADLOCK FALSE\n" % path)
            r = run.tlc("Lexer", c, workers=1, timeout=1800, collect_json=False)
            m = re.search(r"<<\"HIGHWATER\", (\d+), (\d+)>>", r.stdout)
            if not m:
                vf.die_tooling("Lexer.tla did not report its high-water mark:\n" + r.stdout[-1500:])
            hw, ln = int(m.group(1)), int(m.group(2))
            run.extra["trace_events_validated"] = run.extra.get("trace_events_validated", 0) + min(hw - 1, ln)
            os.remove(path)
            if hw == ln + 1:
                break
            cid = owner[hw - 1]
            if cid is None:
                vf.die_tooling("Lexer.tla rejected the closing sentinel")
            rejected.append((cid, "the token trace is rejected by Lexer.tla at event %d" % hw))
            # continue with the traces after the rejected one
            k = [i for i, it in enumerate(ch) if it[0] == cid][0]
            ch = ch[k + 1:]
    return rejected


def gen(run):
    thorough = run.tier == "thorough"
    # (family, MaxLen for which requests are issued at every position, MaxLen for lexing + opening only)
    plan = [("chars", 2 if not thorough else 3, 3), ("lexemes", 2 if not thorough else 3, 2 if not thorough else 3),
            ("comments", 3 if not thorough else 4, 4 if not thorough else 5)]
    if thorough:
        plan.append(("chars-start", 0, 4))      # every string of length 4 at a line start: tokenisation and opening only
    cases = []
    texts = {}
    if os.environ.get("C06_ONLY"):
        plan = [x for x in plan if x[0] == os.environ["C06_ONLY"]]
    for fam, nreq, nall in plan:
        r = run.tlc("Input", cfg(fam, nall), workers=16, timeout=3000, extra_args=("-maxSetSize", "5000000"))
        for c in r.json:
            b = to_bytes(c["t"])
            cid = "%s-%d" % (fam, len(cases))
            want_req = c["n"] <= nreq and len(b) <= 4096
            cases.append({"id": cid, "b64": base64.b64encode(b).decode("ascii"), "requests": want_req, "lex": True})
            texts[cid] = (fam, c["w"], b)
    return cases, texts


def main(args):
    run = vf.Run("C06", args.tier, args.seed, level="model_checking")
    if args.replay:
        with open(args.replay) as f:
            rp = json.load(f)
        cases = [rp["case"]["hcase"]] if "hcase" in rp["case"] else []
        texts = {cases[0]["id"]: ("replay", "", base64.b64decode(cases[0]["b64"]))} if cases else {}
    else:
        cases, texts = gen(run)
    results = run_total(run, cases)
    table = collections.Counter()
    traces = []
    nreq = 0
    maxms = (0, "")
    for c in cases:
        res = results.get(c["id"])
        fam, lay, b = texts[c["id"]]
        run.count(vf.digest(c["b64"]), len(b) > 0)
        shown = b[:120].decode("utf-8", "replace")
        case = {"hcase": c}
        if res is None:
            vf.die_tooling("no result for case " + c["id"])
        if "crash" in res:
            table[("crash",)] += 1
            run.diverge("crash", "the server process died on %r: %s" % (shown, res["crash"]), case, None)
            continue
        nreq += res.get("requests", 0)
        if res.get("maxMs", 0) > maxms[0]:
            maxms = (res["maxMs"], "%s on %r" % (res.get("maxWhat"), shown[:60]))
        if res.get("lexCapped"):
            run.diverge("lexer-no-progress", "the lexer did not reach end-of-input within 2*len+2 tokens on %r" % shown, case, None)
        else:
            traces.append((c["id"], res["len"], res.get("tokens") or []))
        for p in res.get("problems") or []:
            if p.startswith("skipped:"):
                run.extra["texts_skipped_after_hangs"] = run.extra.get("texts_skipped_after_hangs", 0) + 1
                continue
            kind = p.split("@", 1)[0]
            what = "panic" if "panic:" in p else "timeout" if "timeout" in p else "no-publication" if "publi" in p else "problem"
            sig = "%s:%s" % (what, kind)
            table[(sig,)] += 1
            run.diverge(sig, "%s on %r" % (p[:400], shown), case, None)
    # requests that depend on an earlier reply: semantic token DELTAS after every one-line edit of small line-structured
    # documents (TokenEdits.tla, shared with C17, which judges the answers; here only survival counts)
    if not args.replay or "delta_case" in rp["case"]:
        import c17
        dcases = [rp["case"]["delta_case"]] if args.replay else [{"texts": c["texts"], "ops": c["ops"]} for _, c in c17.content_histories(run)]
        dres = run.harness("semtok", [dict(c, id=str(i)) for i, c in enumerate(dcases)], timeout=3000)
        for c, res in zip(dcases, dres):
            run.count(vf.digest(["delta", c["texts"]]), True)
            if "panic" in res:
                table[("panic:semanticTokensDelta",)] += 1
                run.diverge("panic:semanticTokensDelta", "semantic token requests around an edit panicked: %s  [document %r, then %r]" % (
                    res["panic"][:300], c["texts"].get("1"), c["texts"].get("2")), {"delta_case": c}, None)
        run.extra["delta_histories"] = len(dcases)
    for cid, what in validate_traces(run, traces):
        fam, lay, b = texts[cid]
        c = [x for x in cases if x["id"] == cid][0]
        run.diverge("lexer-trace-rejected", "%s on %r" % (what, b[:120].decode("utf-8", "replace")), {"hcase": c}, None)
    if os.environ.get("VERIF_TABLE"):
        for k, n in sorted(table.items(), key=str):
            print("TABLE", k, n)
    run.traces_validated = len(traces)
    run.exhaustive = not args.replay
    run.extra["texts"] = len(cases)
    run.extra["texts_with_every_request_at_every_position"] = sum(1 for c in cases if c["requests"])
    run.extra["requests_issued"] = nreq
    run.extra["slowest_request_ms"] = round(maxms[0], 1)
    run.extra["slowest_request"] = maxms[1]
    ex = [c for c in cases if c["requests"]][:2]
    for c in ex:
        run.sample({"text_bytes_b64": c["b64"], "text": texts[c["id"]][2][:80].decode("utf-8", "replace"), "layout": texts[c["id"]][1]})
    run.rule = ("one case per text enumerated by Input.tla (all strings <= N over 28 character-class representatives x 4 placements; all sequences <= K of 20 hostile lexemes x 5 layouts); "
                "token trace of every text validated by TLC against Lexer.tla; every request at every position for the shorter lengths; semantic token full/delta around every one-line edit "
                "of the documents of TokenEdits.tla; distinct by text")
    run.assumptions = ["small scope only: the 64 KiB coverage-guided mutation fuzzing of the quantifier is outside this technique family (DESIGN.md section 8)",
                       "deadline per request 1 s + 2 ms per byte; address space of a harness process limited to 12 GiB",
                       "wrong answers are other properties' business; only survival, completion in time and token-stream well-formedness are judged"]
    run.finish(confirm=lambda d: confirm(run, d))


def confirm(run, d):
    if "delta_case" in d["case"]:
        res = run.harness("semtok", [dict(d["case"]["delta_case"], id="0")])[0]
        return "panic" in res
    c = d["case"]["hcase"]
    res = run_total(run, [c], procs=1).get(c["id"])
    if res is None:
        return False
    if "crash" in res:
        return d["sig"] == "crash"
    if d["sig"] == "lexer-no-progress":
        return bool(res.get("lexCapped"))
    if d["sig"] == "lexer-trace-rejected":
        return len(validate_traces(run, [(c["id"], res["len"], res.get("tokens") or [])])) > 0
    for p in res.get("problems") or []:
        kind = p.split("@", 1)[0]
        what = "panic" if "panic:" in p else "timeout" if "timeout" in p else "no-publication" if "publi" in p else "problem"
        if "%s:%s" % (what, kind) == d["sig"]:
            return True
    return False
