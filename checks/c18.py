"""C18 — Undeclared-account and undeclared-commodity warnings are exact.

Declarations.tla enumerates small workspaces (7 include topologies of 1..3 files, the open file
being the root, an included file or a file outside the root's tree) x where `account` /
`commodity` directives live (nowhere, any one file, split over two files; three spellings of the
commodity directive) x workspace root on/off x the 8 settings combinations x usages (every class
of account name the statement distinguishes; commodities in amounts, costs, assertions, once or
repeatedly, in one or two transactions), and two-phase histories in which one file's declarations
are added, removed or replaced.  The spec computes the expected warnings from the text of the
names and the abstract journals; each case is replayed on a real server (real files, didOpen,
for histories didChange + save) and the published UNDECLARED_ACCOUNT / UNDECLARED_COMMODITY
diagnostics must be exactly the expected ones.
"""
import collections
import json
import os
import re

import vf


def cfg(fam):
    return "CONSTANTS Family = \"%s\"\nINIT Init\nNEXT Next\nINVARIANTS Theorems Emit\nCHECK_DEADLOCK FALSE\n" % fam


def gen(run):
    thorough = run.tier == "thorough"
    out = []
    for fam, cap in (("acct", 2500), ("comm", 2500), ("both", 1200), ("hist", None)):
        r = run.tlc("Declarations", cfg(fam), workers=16, timeout=2400)
        cs = r.json
        if not thorough and cap and len(cs) > cap:
            cs = run.rng.sample(cs, cap)
        out += cs
    return out


def text_of(lines):
    return "\n".join(lines) + "\n"


def settings_json(st):
    return {"diagnostics": {"undeclaredAccounts": st["ua"], "undeclaredCommodities": st["uc"], "unbalancedTransactions": st["ub"]}}


def script_case(i, c):
    p0 = c["phases"][0]
    files = {f["name"]: text_of(f["lines"]) for f in p0["files"]}
    cur = c["cur"]
    ops = [{"op": "open", "file": cur, "text": files[cur]}]
    if len(c["phases"]) > 1:
        p1 = c["phases"][1]
        files1 = {f["name"]: text_of(f["lines"]) for f in p1["files"]}
        changed = [n for n in files if files[n] != files1[n]]
        for n in changed:
            if n != cur:
                ops.append({"op": "open", "file": n, "text": files[n]})
                ops.append({"op": "change", "file": n, "text": files1[n]})
                ops.append({"op": "write", "file": n, "text": files1[n]})
                ops.append({"op": "save", "file": n})
        if cur in changed:
            ops.append({"op": "write", "file": cur, "text": files1[cur]})
        ops.append({"op": "change", "file": cur, "text": files1[cur]})
        ops.append({"op": "save", "file": cur})
    return {"id": str(i), "files": files, "workspace": c["ws"], "settings": settings_json(c["settings"]), "ops": ops}


QUOTED = re.compile(r"'(.*)'")


def u16_slice(line, c0, c1):
    b = line.encode("utf-16-le")
    return b[2 * c0:2 * c1].decode("utf-16-le", "replace")


def placement(c, phase):
    """where the declarations in force live, relative to the open file (for signatures only)"""
    return "ws" if c["ws"] else "nows"


def evaluate_phase(c, ph, lines, diags):
    divs = []
    acct = sorted(d["sl"] + 1 for d in diags if d["code"] == "UNDECLARED_ACCOUNT")
    want = sorted(r["line"] for r in ph["expA"])
    if acct != want:
        missing = sorted(set(want) - set(acct))
        extra = sorted(set(acct) - set(want))
        kind = "acct-missing" if missing and not extra else "acct-spurious" if extra and not missing else "acct-differs"
        if not missing and not extra:
            kind = "acct-duplicate"
        names = {r["line"]: r["name"] for r in ph["expA"]}
        divs.append((kind, "undeclared-account warnings on lines %s, expected on %s (missing %s, unexpected %s) [declared in scope: %s]" % (
            acct, want, [(l, names.get(l)) for l in missing], [(l, lines[l - 1].strip() if l <= len(lines) else "?") for l in extra], sorted(ph["da"]))))
    # commodity warnings: one per (transaction, commodity)
    spans = {}
    for r in ph["expC"]:
        spans.setdefault((r["l0"], r["l1"]), set()).add(r["name"])
    got = collections.Counter()
    stray = []
    txspans = sorted(set(spans))
    for d in diags:
        if d["code"] != "UNDECLARED_COMMODITY":
            continue
        m = QUOTED.search(d["msg"])
        if m:
            name = m.group(1)
        else:
            ln = lines[d["sl"]] if d["sl"] < len(lines) else ""
            name = u16_slice(ln, d["sc"], d["ec"]).strip().strip('"')
        line = d["sl"] + 1
        got[(tx_of(c, ph, lines, line), name)] += 1
    want_c = collections.Counter()
    for (l0, l1), names in spans.items():
        for n in names:
            want_c[(l0, n)] += 1
    if got != want_c:
        missing = sorted((want_c - got).keys())
        extra = sorted((got - want_c).keys())
        dup = [k for k, v in got.items() if v > 1]
        kind = "comm-duplicate" if dup and not missing and set(got) == set(want_c) else "comm-missing" if missing and not extra else "comm-spurious" if extra and not missing else "comm-differs"
        divs.append((kind, "undeclared-commodity warnings (transaction line, commodity) %s, expected %s [declared in scope: %s]" % (
            sorted(got.elements()), sorted(want_c.elements()), sorted(ph["dc"]))))
    return divs


def tx_of(c, ph, lines, line):
    """first line of the transaction whose lines contain `line` (a header starts with a digit)"""
    i = line
    while i >= 1:
        if lines[i - 1][:1].isdigit():
            return i
        if lines[i - 1].strip() == "":
            break
        i -= 1
    return -line


def evaluate(c, res):
    if "panic" in res:
        return [("panic", "server panicked: " + res["panic"][:300])]
    divs = []
    steps = res["steps"]
    cur = c["cur"]
    # phase 1 = the first step (open of cur); phase 2 = the last change of cur
    obs = [steps[0]]
    if len(c["phases"]) > 1:
        chg = [s for s in steps if s["op"] == "change"]
        obs.append(chg[-1])
    for k, (ph, st) in enumerate(zip(c["phases"], obs)):
        lines = [f for f in ph["files"] if f["name"] == cur][0]["lines"]
        if not st.get("published"):
            divs.append(("nothing-published", "no diagnostics published for %s in phase %d" % (cur, k + 1)))
            continue
        for sig, what in evaluate_phase(c, ph, lines, st.get("diags") or []):
            tag = "" if k == 0 else "after-edit:"
            divs.append((tag + sig, "phase %d: %s" % (k + 1, what)))
    seen = set()
    return [(s, w) for s, w in divs if not (s in seen or seen.add(s))]


def main(args):
    run = vf.Run("C18", args.tier, args.seed, level="model_checking")
    if args.replay:
        with open(args.replay) as f:
            rp = json.load(f)
        cases = [rp["case"]["spec_case"]]
    else:
        cases = gen(run)
    hcases = [script_case(i, c) for i, c in enumerate(cases)]
    results = run.harness("script", hcases, timeout=3000)
    table = collections.Counter()
    for c, hc, res in zip(cases, hcases, results):
        nontrivial = any(ph["expA"] or ph["expC"] or ph["da"] or ph["dc"] for ph in c["phases"])
        run.count(vf.digest([hc["files"], hc["workspace"], hc["settings"], hc["ops"]]), nontrivial)
        for sig, what in evaluate(c, res):
            table[(c["fam"], c["ws"], sig)] += 1
            run.diverge(sig, "%s  [open file %s, workspace root %s, settings %s, files %s]" % (
                what, c["cur"], c["ws"], c["settings"], {k: v for k, v in hc["files"].items()}), {"spec_case": c}, res.get("steps"))
    if os.environ.get("VERIF_TABLE"):
        for k, n in sorted(table.items(), key=str):
            print("TABLE", k, n)
    run.traces_validated = len(cases)
    run.exhaustive = run.tier == "thorough" and not args.replay
    big = [(c, h) for c, h in zip(cases, hcases) if c["fam"] in ("both", "hist")]
    for c, h in (big[:1] + list(zip(cases[:1], hcases[:1]))):
        run.sample({"files": h["files"], "open": c["cur"], "workspace_root": c["ws"], "settings": c["settings"],
                    "expected_account_warnings": c["phases"][-1]["expA"], "expected_commodity_warnings": c["phases"][-1]["expC"]})
    run.extra["families"] = dict(collections.Counter(c["fam"] for c in cases))
    run.rule = ("one case per (topology, placement of declarations, usage, workspace root, settings) enumerated by Declarations.tla, plus two-phase edit histories; "
                "non-trivial = some declaration is in scope or some warning is expected; distinct by (files, root, settings, operations)")
    run.assumptions = ["sibling / parent files are members of the root journal's include tree (a journal file lying in the workspace folder but included by nobody is not generated)",
                       "edits of a declaring file are followed by a save (disk and open buffer agree)",
                       "account warnings are identified by posting line, commodity warnings by (transaction, quoted name in the message, else the text under the range)"]
    run.finish(confirm=lambda d: confirm(run, d))


def confirm(run, d):
    c = d["case"]["spec_case"]
    res = run.harness("script", [script_case(0, c)])[0]
    return any(sig == d["sig"] for sig, _ in evaluate(c, res))
