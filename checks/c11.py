"""C11 — Include loading is independent of cache history.

TLC (spec/MCIncludeHist.tla) generates histories of load / edit+invalidate / clear on one
shared loader: exhaustively for short histories over hand-picked shapes and edit menus, and
by simulation for histories of length 6 on 3..4 files.  Each history is replayed on ONE real
include.Loader; after every load the same load is done with a FRESH loader on the same files
(the property's own oracle) and the two projections must agree (files, order as a multiset,
contents, diagnostics).  The contract's Resolve is compared as well.
"""
import json

import vf
from inc_common import NAMES, compare_load, render_file


def cfg(n, maxops, initmode, editmode, lim=None):
    return ("CONSTANTS N = %d  Big = {}  Lim = %d  MaxOps = %d InitMode = \"%s\" EditMode = \"%s\"\n"
            "INIT Init\nNEXT Next\nINVARIANTS CacheNeverStale Emit\nCHECK_DEADLOCK FALSE\n") % (n, lim or n + 1, maxops, initmode, editmode)


def srv_cfg(n, maxops):
    return ("CONSTANTS N = %d  Big = {}  MaxOps = %d\nINIT Init\nNEXT Next\nINVARIANTS Emit\nCHECK_DEADLOCK FALSE\n") % (n, maxops)


def gen(run):
    hs = []
    thorough = run.tier == "thorough"
    plan_bfs = [(3, 3, "menu", "menu"), (4, 2, "menu", "menu")]
    plan_sim = [(3, 6, 600), (4, 6, 900)]
    if thorough:
        plan_bfs = [(3, 4, "menu", "menu"), (4, 3, "menu", "menu")]
        plan_sim = [(3, 6, 10000), (4, 6, 20000), (4, 8, 5000)]
    for n, k, im, em in plan_bfs:
        r = run.tlc("MCIncludeHist", cfg(n, k, im, em), workers=1, timeout=1500)
        hs += [("bfs%d_%d" % (n, k), h) for h in r.json]
    for n, k, num in plan_sim:
        r = run.tlc("MCIncludeHist", cfg(n, k, "any", "any"), mode="simulate", simulate=num, depth=k + 1,
                    workers=1, timeout=1500)
        hs += [("sim%d_%d" % (n, k), h) for h in r.json]
    # the same with a depth limit that bites (2 and 1): cache hits must not bypass the limit
    for n, lim, k, im, em in ([(3, 2, 3, "menu", "menu"), (4, 2, 3, "menu", "menu")] if not thorough else [(3, 2, 4, "menu", "menu"), (4, 2, 3, "menu", "menu"), (4, 3, 3, "menu", "menu"), (3, 1, 3, "menu", "menu")]):
        r = run.tlc("MCIncludeHist", cfg(n, k, im, em, lim=lim), workers=1, timeout=1500)
        hs += [("bfs%d_%d_lim%d" % (n, k, lim), h) for h in r.json]
    for n, lim, k, num in ([(4, 2, 6, 500)] if not thorough else [(4, 2, 6, 8000), (4, 3, 6, 4000)]):
        r = run.tlc("MCIncludeHist", cfg(n, k, "any", "any", lim=lim), mode="simulate", simulate=num, depth=k + 1, workers=1, timeout=1500)
        hs += [("sim%d_%d_lim%d" % (n, k, lim), h) for h in r.json]
    return hs


def gen_server(run):
    thorough = run.tier == "thorough"
    hs = []
    for n, k, num in ([(3, 7, 400), (4, 8, 300)] if not thorough else [(3, 8, 6000), (4, 10, 4000)]):
        r = run.tlc("IncludeServer", srv_cfg(n, k), mode="simulate", simulate=num, depth=k + 1, workers=1, timeout=1500)
        seen = set()
        for h in r.json:
            key = json.dumps(h, sort_keys=True)
            if key not in seen:
                seen.add(key)
                hs.append(("srv%d_%d" % (n, k), h))
    return hs


def srv_to_harness(idx, h, workspace):
    disk = h[0]["disk"]
    n = len(disk)
    plain = lambda dirs: ["plain"] * len(dirs)
    files = {NAMES[f]: render_file(f, disk[f - 1], plain(disk[f - 1]), 1, set(), lambda f, i: 0) for f in range(1, n + 1)}
    ops = []
    for st in h[1:]:
        if st["op"] == "close":
            ops.append({"op": "close", "file": NAMES[st["file"]]})
        else:
            f = st["file"]
            ops.append({"op": st["op"], "file": NAMES[f], "content": render_file(f, st["list"], plain(st["list"]), st["ver"], set(), lambda f, i: 0)})
    return {"id": str(idx), "files": files, "workspace": workspace, "ops": ops}


def srv_evaluate(h, res):
    if "panic" in res:
        return [("panic", "server panicked: " + res["panic"], 0)]
    divs = []
    for k, (st, step) in enumerate(zip(h[1:], res["steps"])):
        if st["op"] not in ("open", "change"):
            continue
        sh, fr = step["shared"], step["fresh"]
        if sh["nil"]:
            divs.append(("server-resolved-nil", "step %d %s(%s): the server resolved nothing" % (k + 1, st["op"], NAMES[st["file"]]), k + 1))
            break
        a, b = canon(sh), canon(fr)
        a["errs"] = b["errs"] = None       # the resolved tree carries no diagnostics; they are compared through the publication
        if a != b:
            if a["files"] != b["files"] or a["order"] != b["order"]:
                sig = "server-tree-differs-from-fresh-load"
                what = "server files %s, fresh loader files %s" % (a["files"], b["files"])
            else:
                stale = [f for f in b["content"] if a["content"].get(f) != b["content"].get(f)]
                sig = "server-serves-stale-included-file"
                what = "included file(s) %s: server has %s, a fresh load of the current files has %s" % (
                    stale, [a["content"].get(f, {}).get("marks") for f in stale], [b["content"][f]["marks"] for f in stale])
            divs.append((sig, "step %d %s(%s): %s" % (k + 1, st["op"], NAMES[st["file"]], what), k + 1))
            break
        # contract: versions of every loaded file
        exp = st["expect"]
        want_files = sorted(NAMES[g] for g in exp["loaded"] if g != st["file"])
        if sorted(sh["files"]) != want_files:
            divs.append(("spec:server-files", "step %d: server files %s, contract %s" % (k + 1, sh["files"], want_files), k + 1))
            break
        for g in exp["loaded"]:
            if g == st["file"]:
                continue
            marks = sh["content"][NAMES[g]]["marks"]
            want = "file %d version %d" % (g, exp["versions"][g - 1])
            if marks != [want]:
                divs.append(("server-serves-stale-included-file", "step %d %s(%s): %s is served as %s, on disk it is %r" % (
                    k + 1, st["op"], NAMES[st["file"]], NAMES[g], marks, want), k + 1))
                break
        fresh_err_lines = sorted(e[0] for e in canon(fr)["errs"])
        if sorted(step.get("diagLines") or []) != fresh_err_lines:
            divs.append(("server-include-diagnostics-differ", "step %d %s(%s): published include diagnostics on lines %s, fresh load reports lines %s" % (
                k + 1, st["op"], NAMES[st["file"]], sorted(step.get("diagLines") or []), fresh_err_lines), k + 1))
            break
    return divs


def to_harness(idx, h):
    disk = [list(map(list, d)) for d in h[0]["disk"]]
    n = len(disk)
    vers = [1] * n
    plain = lambda dirs: ["plain"] * len(dirs)
    files = {NAMES[f]: render_file(f, disk[f - 1], plain(disk[f - 1]), 1, set(), lambda f, i: 0) for f in range(1, n + 1)}
    ops = []
    disks = []      # disk at the time of each op (for contract comparison)
    for st in h[1:]:
        if st["op"] == "load":
            ops.append({"op": "load", "file": NAMES[st["file"]]})
        elif st["op"] == "edit":
            f = st["file"]
            disk = [list(d) for d in disk]
            disk[f - 1] = st["list"]
            vers[f - 1] = st["ver"]
            ops.append({"op": "write", "file": NAMES[f], "invalidate": True,
                        "content": render_file(f, st["list"], plain(st["list"]), st["ver"], set(), lambda f, i: 0)})
        elif st["op"] == "clear":
            ops.append({"op": "clear"})
        disks.append(disk)
    lim = h[0].get("lim", 0)
    return {"id": str(idx), "files": files, "fresh": True, "depth": lim if 0 < lim <= n else 0, "size": 0, "ops": ops}, disks


def canon(p):
    return {"nil": p["nil"], "files": sorted(p["files"]), "order": sorted(p["order"]),
            "errs": sorted((e["line"], e["kind"]) for e in p["errs"]),
            "content": p["content"], "primary": p["primary"]}


def evaluate(h, disks, res):
    if "panic" in res:
        return [("panic", "loader panicked: " + res["panic"], 0)]
    divs = []
    for k, (st, step) in enumerate(zip(h[1:], res["steps"])):
        if st["op"] != "load":
            continue
        sh, fr = step["shared"], step["fresh"]
        a, b = canon(sh), canon(fr)
        if a != b:
            if a["files"] != b["files"]:
                lost = sorted(set(b["files"]) - set(a["files"]))
                sig = "shared-loses-files" if lost else "shared-extra-files"
                what = "step %d load(%s): shared loader files %s, fresh loader files %s" % (k + 1, NAMES[st["file"]], a["files"], b["files"])
            elif a["order"] != b["order"]:
                sig = "shared-order-differs"
                what = "step %d load(%s): shared order %s, fresh order %s" % (k + 1, NAMES[st["file"]], sh["order"], fr["order"])
            elif a["errs"] != b["errs"]:
                sig = "shared-diags-differ"
                what = "step %d load(%s): shared diagnostics %s, fresh %s" % (k + 1, NAMES[st["file"]], a["errs"], b["errs"])
            else:
                sig = "shared-content-stale"
                what = "step %d load(%s): contents differ between shared and fresh loader" % (k + 1, NAMES[st["file"]])
            divs.append((sig, what, k + 1))
            break   # report the first diverging step of a history
        # contract (also C10's oracle) — a disagreement of BOTH loaders with the spec is reported separately
        dc = compare_load(disks[k], st["expect"], sh, root=st["file"])
        if dc and st.get("expect2") and st["expect2"] != st["expect"]:
            dc2 = compare_load(disks[k], st["expect2"], sh, root=st["file"])
            if not dc2:
                dc = []
        if dc:
            divs.append(("spec:" + dc[0][0], "step %d load(%s): %s" % (k + 1, NAMES[st["file"]], dc[0][1]), k + 1))
            break
    return divs


def main(args):
    run = vf.Run("C11", args.tier, args.seed, level="model_checking")
    if args.replay:
        with open(args.replay) as f:
            rp = json.load(f)
        hs = [] if (rp["case"].get("server") or rp["case"].get("glob") or rp["case"].get("race")) else [(rp["case"]["family"], rp["case"]["history"])]
    else:
        hs = gen(run)
    built = [to_harness(i, h) for i, (_, h) in enumerate(hs)]
    results = run.harness("include", [b[0] for b in built])
    for (fam, h), (hc, disks), res in zip(hs, built, results):
        loads = sum(1 for s in h[1:] if s["op"] == "load")
        edits_before_load = any(s["op"] == "load" for s in h[2:])
        run.count(vf.digest(h), loads >= 2 or (loads >= 1 and edits_before_load))
        for sig, what, _ in evaluate(h, disks, res):
            run.diverge(sig, what, {"family": fam, "history": h, "harness_case": hc}, res)
    # ---- histories in which the set of files changes under a glob (IncludeGlobHist.tla)
    if not args.replay or rp["case"].get("glob"):
        ghs = [rp["case"]["history"]] if args.replay else glob_histories(run)
        gres = run.harness("include", [glob_to_harness(i, h) for i, h in enumerate(ghs)])
        for h, res in zip(ghs, gres):
            run.count(vf.digest(["glob", h]), sum(1 for st in h[1:] if st["op"] == "load") >= 2)
            for sig, what in glob_evaluate(h, res):
                run.diverge(sig, what, {"family": "glob", "glob": True, "history": h}, res)
        run.extra["glob_histories"] = len(ghs)
    # ---- loads that run WHILE a file is rewritten and invalidated (LoaderRace.tla; yield point ld.read)
    if not args.replay or rp["case"].get("race"):
        rhs = [rp["case"]["history"]] if args.replay else race_histories(run)
        rres = run.harness("loaderrace", [{"id": str(i), "h": h} for i, h in enumerate(rhs)])
        for h, res in zip(rhs, rres):
            run.count(vf.digest(["race", h]), any(e["e"] == "edit" for e in h))
            for sig, what in race_evaluate(h, res):
                run.diverge(sig, what, {"family": "race", "race": True, "history": h}, res)
        run.extra["race_histories"] = len(rhs)
    # ---- server level: open / change / save / close histories, with and without a workspace root
    srv = [] if args.replay else gen_server(run)
    if args.replay and rp["case"].get("server"):
        srv = [(rp["case"]["family"], rp["case"]["history"])]
    scases = []
    for i, (fam, h) in enumerate(srv):
        for ws in ([rp["case"]["workspace"]] if args.replay else [False, True]):
            scases.append((fam, h, ws))
    sres = run.harness("srvinclude", [srv_to_harness(i, h, ws) for i, (_, h, ws) in enumerate(scases)]) if scases else []
    for (fam, h, ws), res in zip(scases, sres):
        saves = any(st["op"] == "save" for st in h[1:])
        run.count(vf.digest([h, ws]), saves)
        for sig, what, _ in srv_evaluate(h, res):
            run.diverge(sig, what + (" [workspace root]" if ws else " [no workspace root]"), {"family": fam, "history": h, "server": True, "workspace": ws}, res)
    if srv:
        run.sample({"server_history": srv[0][1]})
    run.traces_validated = len(hs) + len(scases)
    run.sample({"history": hs[0][1]})
    run.sample({"history": hs[-1][1]})
    run.rule = ("one case per history generated by TLC from MCIncludeHist (exhaustive over shape/edit menus for short histories; "
                "-simulate for length 6..8 over all directive lists of length <=2); non-trivial = at least two loads, or a load "
                "after another operation; distinct by the whole history")
    run.exhaustive = False
    run.assumptions = ["an edited file is always invalidated (what the server does); edits without invalidation are outside the contract",
                       "order of FileOrder compared as a multiset"]
    run.finish(confirm=lambda d: confirm(run, d))


def rcfg(edits, loads, mech, emit):
    return "CONSTANTS MaxEdits = %d MaxLoads = %d Mech = \"%s\"\nSPECIFICATION Spec\nINVARIANTS CacheNeverStale%s\nCHECK_DEADLOCK FALSE\n" % (edits, loads, mech, " Emit" if emit else "")


def race_histories(run):
    thorough = run.tier == "thorough"
    bad = run.tlc("LoaderRace", rcfg(2, 2, "unguarded", False), workers=4, allow_violation=True, collect_json=False)
    if bad.ok or "Invariant CacheNeverStale is violated" not in bad.stdout:
        vf.die_tooling("LoaderRace.tla: caching whatever was read no longer violates CacheNeverStale — the model is vacuous")
    r = run.tlc("LoaderRace", rcfg(2, 2 if not thorough else 3, "epoch", True), workers=8, timeout=2400)
    out = []
    seen = set()
    for c in r.json:
        h = c["h"]
        # the implementation reads the file on its way to the yield point: only behaviours in which a load's read directly follows its lookup
        ok = all(h[i + 1]["e"] == "read" and h[i + 1]["id"] == e["id"] for i, e in enumerate(h[:-1]) if e["e"] == "begin") and h[-1]["e"] != "begin"
        k = json.dumps(h, sort_keys=True)
        if ok and k not in seen:
            seen.add(k)
            out.append(h)
    cap = 3000 if not thorough else 40000
    if len(out) > cap:
        out = run.rng.sample(out, cap)
    return out


def race_evaluate(h, res):
    if "panic" in res:
        return [("panic", "loader panicked: " + res["panic"])]
    if res.get("stuck"):
        return [("race:stuck", res["stuck"])]
    divs = []
    last = max([e["ver"] for e in h if e["e"] == "edit"] + [1])
    if res["fresh"] != last:
        vf.die_tooling("loaderrace: a fresh loader serves version %s, the last edit wrote %s" % (res["fresh"], last))
    if res["final"] != last:
        divs.append(("race:stale-cache", "after %s a load serves version %d of b.journal, the file holds version %d (a fresh loader serves %d)" % (
            [(e["e"], e.get("id") or e.get("ver")) for e in h], res["final"], last, res["fresh"])))
    hits = [e for e in h if e["e"] == "hit"]
    for e, got in zip(hits, res["hits"]):
        if got != e["disk"]:
            divs.append(("race:stale-hit", "load %d (no load in between was still in flight for it) serves version %d, the file holds %d; schedule %s" % (
                e["id"], got, e["disk"], [(x["e"], x.get("id") or x.get("ver")) for x in h])))
            break
    return divs


def gcfg(maxops, mech, emit):
    return "CONSTANTS MaxOps = %d Mech = \"%s\"\nSPECIFICATION Spec\nINVARIANTS NoStaleExpansion%s\nCHECK_DEADLOCK FALSE\n" % (maxops, mech, " Emit" if emit else "")


def glob_histories(run):
    thorough = run.tier == "thorough"
    bad = run.tlc("IncludeGlobHist", gcfg(4, "matched-only", False), workers=4, allow_violation=True, collect_json=False)
    if bad.ok or "Invariant NoStaleExpansion is violated" not in bad.stdout:
        vf.die_tooling("IncludeGlobHist.tla: forgetting a remembered expansion only for matched files no longer violates NoStaleExpansion — the model is vacuous")
    r = run.tlc("IncludeGlobHist", gcfg(5 if not thorough else 6, "sound", True), workers=8, timeout=2400)
    hs = [c["h"] for c in r.json]
    cap = 4000 if not thorough else 60000
    if len(hs) > cap:
        hs = run.rng.sample(hs, cap)
    return hs


GNAMES = {1: "f1.journal", 2: "f2.journal", 3: "sub/f3.journal", 4: "sub/f4.journal"}


def glob_text(f, ver):
    inc = {1: "include sub/*.journal\ninclude f2.journal\n", 2: "include sub/*.journal\n"}.get(f, "")
    return "%s\n2024-01-0%d file %d version %d\n    assets:cash  %d\n    equity:open\n" % (inc, f, f, ver, f)


def glob_to_harness(idx, h):
    present = h[0]["present"]
    files = {GNAMES[1]: glob_text(1, 1), GNAMES[2]: glob_text(2, 1), "sub/.keep": ""}
    for f in present:
        files[GNAMES[f]] = glob_text(f, 1)
    ops = []
    for st in h[1:]:
        if st["op"] == "load":
            ops.append({"op": "load", "file": GNAMES[1]})
        elif st["op"] in ("create", "edit"):
            ops.append({"op": "write", "file": GNAMES[st["file"]], "invalidate": True, "content": glob_text(st["file"], st["ver"])})
        elif st["op"] == "remove":
            ops.append({"op": "remove", "file": GNAMES[st["file"]], "invalidate": True})
        elif st["op"] == "clear":
            ops.append({"op": "clear"})
    return {"id": str(idx), "files": files, "fresh": True, "depth": 0, "size": 0, "ops": ops}


def glob_evaluate(h, res):
    if "panic" in res:
        return [("panic", "loader panicked: " + res["panic"])]
    for k, (st, step) in enumerate(zip(h[1:], res["steps"])):
        if st["op"] != "load":
            continue
        sh, fr = step["shared"], step["fresh"]
        want = sorted([GNAMES[2]] + [GNAMES[f] for f in st["expect"]])
        if sorted(fr["files"]) != want:
            return [("spec:glob-files", "step %d: a fresh loader loads %s, the contract says %s" % (k + 1, sorted(fr["files"]), want))]
        a, b = canon(sh), canon(fr)
        if a != b:
            if a["files"] != b["files"]:
                lost = sorted(set(b["files"]) - set(a["files"]))
                sig = "glob:shared-loses-files" if lost else "glob:shared-extra-files"
            elif a["content"] != b["content"]:
                sig = "glob:shared-content-stale"
            else:
                sig = "glob:shared-differs"
            return [(sig, "step %d load after %s: shared loader files %s, fresh loader files %s (files in sub/ now: %s)" % (
                k + 1, [(x["op"], x.get("file")) for x in h[1:k + 1]], a["files"], b["files"], st["expect"]))]
    return []


def confirm(run, d):
    h = d["case"]["history"]
    if d["case"].get("race"):
        res = run.harness("loaderrace", [{"id": "0", "h": h}])[0]
        return any(sig == d["sig"] for sig, _ in race_evaluate(h, res))
    if d["case"].get("glob"):
        res = run.harness("include", [glob_to_harness(0, h)])[0]
        return any(sig == d["sig"] for sig, _ in glob_evaluate(h, res))
    if d["case"].get("server"):
        res = run.harness("srvinclude", [srv_to_harness(0, h, d["case"]["workspace"])])[0]
        return any(sig == d["sig"] for sig, _, _ in srv_evaluate(h, res))
    hc, disks = to_harness(0, h)
    res = run.harness("include", [hc])[0]
    return any(sig == d["sig"] for sig, _, _ in evaluate(h, disks, res))
