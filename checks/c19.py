"""C19 — Configuration is total, validated and effective.

Settings.tla is the configuration state machine (contract next-state function Apply).  TLC
(a) enumerates every single payload: every documented key (+ one alias, one unknown key) x
18 value classes x nested/dotted spelling x with/without the "hledger" wrapper, plus
non-object payloads, checking TypeOK, Idempotent and Frame; (b) simulates histories of 4
payloads with 0..3 entries each.  Every behaviour is replayed on a real server: the first
payload through initialize (initializationOptions), the others through
didChangeConfiguration -> workspace/configuration (cfg.done hook tells when the refresh has
been applied).  After each event the server's normalised settings (and the limits the
include loader actually holds) must equal the contract's state, the advertised capabilities
must match features.* at initialisation, and behavioural probes (completion limit,
formatting indent, diagnostic categories) must show the values in effect.
"""
import json

import vf

MC = "---- MODULE MCSettings ----\nEXTENDS Settings\nAllKeys == Keys\n====\n"


def cfg(maxops, rand, pairs=False, overlap=False):
    return ("CONSTANTS MaxOps = %d  Rand = %s  Pairs = %s  Overlap = %s\n KeySet <- AllKeys\nSPECIFICATION Spec\nINVARIANTS TypeOK Idempotent Frame Emit\nCHECK_DEADLOCK FALSE\n"
            % (maxops, "TRUE" if rand else "FALSE", "TRUE" if pairs else "FALSE", "TRUE" if overlap else "FALSE"))


def render_payload(p, jsonof):
    if p["shape"] == "number":
        return "42"
    if p["shape"] == "string":
        return "\"hledger\""
    if p["shape"] == "array":
        return "[{\"completion\":{\"maxResults\":3}}]"
    if p["shape"] == "null":
        return "null"
    obj = {}
    for e in p["entries"]:
        val = json.loads(jsonof[e["cls"]])
        group, name = e["key"].split(".", 1)
        if e["form"] == "dotted":
            obj[e["key"]] = val
        else:
            obj.setdefault(group, {})
            if isinstance(obj[group], dict):
                obj[group][name] = val
    if p["wrapper"]:
        obj = {"hledger": obj}
    return json.dumps(obj)


def gen(run):
    thorough = run.tier == "thorough"
    out = []
    r = run.tlc("MCSettings", cfg(1, False), workers=4, timeout=1800, extra_modules={"MCSettings": MC})
    out += [("single-init", c) for c in r.json]
    # the same payloads arriving as a configuration change after a default initialisation
    for c in r.json:
        h0 = {"via": "init", "payload": {"shape": "null", "wrapper": False, "entries": []}, "expect": None, "caps": None}
        out.append(("single-change", {"h": [h0, dict(c["h"][0], via="change")], "json": c["json"]}))
    # every pair of payloads on the same field: a value that takes the field off its default (6 classes x 2 spellings), then
    # any of the 18 classes in either spelling -- "falls back to the default" and "leaves the previous value" differ only here.
    # Half of the pairs start at initialisation, the other half arrive as two changes.
    r = run.tlc("MCSettings", cfg(2, False, pairs=True), workers=8, timeout=1800, extra_modules={"MCSettings": MC})
    h0 = {"via": "init", "payload": {"shape": "null", "wrapper": False, "entries": []}, "expect": None, "caps": None}
    for i, c in enumerate(sorted(r.json, key=lambda c: json.dumps(c["h"], sort_keys=True))):
        if (i + run.seed) % 2 == 0 and not thorough:
            out.append(("pair-init", c))
        else:
            out.append(("pair-change", {"h": [h0] + [dict(st, via="change") for st in c["h"]], "json": c["json"]}))
            if thorough:
                out.append(("pair-init", c))
    # two changes on DIFFERENT fields whose configuration pulls overlap: the client answers the first pull only after the
    # second change has been applied. Whichever is applied last, both values must be in effect afterwards.
    r = run.tlc("MCSettings", cfg(2, False, overlap=True), workers=8, timeout=1800, extra_modules={"MCSettings": MC})
    ov = sorted(r.json, key=lambda c: json.dumps(c["h"], sort_keys=True))
    if not thorough and len(ov) > 1500:
        ov = run.rng.sample(ov, 1500)
    for c in ov:
        a, b = c["h"]
        out.append(("overlap", {"h": [h0, dict(a, via="change-held", expect=None), dict(b, via="change")], "json": c["json"]}))
    for depth, num in ([(4, 500)] if not thorough else [(4, 8000), (6, 3000)]):
        r = run.tlc("MCSettings", cfg(depth, True), mode="simulate", simulate=num, depth=depth + 1, workers=1, timeout=1800,
                    extra_modules={"MCSettings": MC})
        seen = set()
        for c in r.json:
            k = json.dumps(c["h"], sort_keys=True)
            if k not in seen:
                seen.add(k)
                out.append(("sim%d" % depth, c))
    return out


DEFAULTS = None


def to_harness(idx, c, probe, workspace=False):
    steps = [{"via": st["via"], "payload": json.loads(render_payload(st["payload"], c["json"]))} for st in c["h"]]
    return {"id": str(idx), "steps": steps, "probe": probe, "workspace": workspace}


def expected_probes(st):
    exp = {"completionCount": st["completion.maxResults"] if st["completion.maxResults"] <= 60 else None,
           "indent": st["formatting.indentSize"]}
    codes = set()
    if st["features.diagnostics"]:
        if st["diagnostics.undeclaredAccounts"]:
            codes.add("UNDECLARED_ACCOUNT")
        if st["diagnostics.undeclaredCommodities"]:
            codes.add("UNDECLARED_COMMODITY")
        if st["diagnostics.unbalancedTransactions"]:
            codes.add("UNBALANCED")
    exp["codes"] = codes
    exp["hoverAnswers"] = bool(st["features.hover"])
    # the probe's included file has 3.1 kB; diagnostics must be on for the report to be seen
    # (the including document itself has about 31 bytes: below that the load stops at the document)
    # a depth limit of 1 stops at the document's own include directive, before the file is even looked at
    seen = st["features.diagnostics"] and st["limits.maxFileSizeBytes"] >= 40
    exp["tooDeep"] = (st["limits.maxIncludeDepth"] == 1) if seen else None
    exp["bigTooLarge"] = (st["limits.maxFileSizeBytes"] < 3000) if (seen and st["limits.maxIncludeDepth"] >= 2) else None
    # a document opened once and never edited: deep.journal -> l1.journal -> l2.journal (3.1 kB).  What completion offers
    # from l2 follows the limits IN FORCE NOW, in both directions (raised as well as lowered)
    exp["deepOffered"] = (st["limits.maxIncludeDepth"] >= 3 and st["limits.maxFileSizeBytes"] >= 3300) if (st["limits.maxFileSizeBytes"] >= 70 and st["completion.maxResults"] >= 5) else None
    return exp


def evaluate(c, res):
    if "panic" in res:
        return [("panic", "server panicked: " + res["panic"])]
    divs = []
    for k, (st, obs) in enumerate(zip(c["h"], res["steps"])):
        if obs.get("err"):
            divs.append(("payload-fails", "step %d (%s): %s" % (k, st["via"], obs["err"])))
            break
        exp = st["expect"]
        if exp is None:
            continue
        pj = render_payload(st["payload"], c["json"])
        bad = []
        for f, v in exp.items():
            got = obs["state"].get(f)
            if got != v:
                bad.append((f, v, got))
        for f, lf in (("limits.maxFileSizeBytes", "loader.maxFileSizeBytes"), ("limits.maxIncludeDepth", "loader.maxIncludeDepth")):
            if obs["state"].get(lf) != exp[f]:
                bad.append((lf, exp[f], obs["state"].get(lf)))
        if bad:
            f, v, got = bad[0]
            kind = "bool" if isinstance(v, bool) else ("int" if isinstance(v, int) else "str")
            divs.append(("setting-differs:%s" % kind, "step %d (%s) payload %s: %s is %r, contract says %r" % (k, st["via"], pj[:200], f, got, v)))
            break
        if st["via"] == "init" and st.get("caps") and obs.get("caps"):
            capbad = [(f, v, obs["caps"].get(f)) for f, v in st["caps"].items() if f in obs["caps"] and obs["caps"][f] != v]
            if capbad:
                divs.append(("capability-differs", "initialize with %s: capability for %s advertised=%r, features say %r" % (pj[:200], capbad[0][0], capbad[0][2], capbad[0][1])))
                break
        if obs.get("probes"):
            ep = expected_probes(exp)
            gp = obs["probes"]
            tiny_limit = exp["limits.maxFileSizeBytes"] < 100000
            if ep["completionCount"] is not None and not tiny_limit and gp.get("completionCount") != ep["completionCount"]:
                divs.append(("probe:completion-limit", "step %d payload %s: completion returned %r items, maxResults in effect should be %r" % (k, pj[:200], gp.get("completionCount"), ep["completionCount"])))
                break
            if gp.get("indent") != ep["indent"]:
                divs.append(("probe:indent", "step %d payload %s: formatting indents by %r, indentSize in effect should be %r" % (k, pj[:200], gp.get("indent"), ep["indent"])))
                break
            if "hoverAnswers" in gp and not tiny_limit and gp["hoverAnswers"] != ep["hoverAnswers"] and st["via"] != "init":
                # (at initialisation the switch decides what is advertised; a client does not ask for what is not advertised)
                trig = "feature-switched-at-runtime"
                divs.append(("probe:feature-switch:hover", "step %d payload %s: features.hover in effect is %r, a hover request %s" % (
                    k, pj[:200], ep["hoverAnswers"], "is answered" if gp["hoverAnswers"] else "gets no answer")))
                break
            if ep["bigTooLarge"] is not None and "bigTooLarge" in gp and gp["bigTooLarge"] != ep["bigTooLarge"]:
                divs.append(("probe:include-size-limit", "step %d payload %s: a document that includes a file of 3.1 kB (already in the loader's cache) %s 'too large', limits.maxFileSizeBytes in effect is %r" % (
                    k, pj[:200], "reports" if gp["bigTooLarge"] else "does not report", exp["limits.maxFileSizeBytes"])))
                break
            if ep["deepOffered"] is not None and "deepOffered" in gp and gp["deepOffered"] != ep["deepOffered"]:
                divs.append(("probe:limits-reach-open-documents", "step %d payload %s: a document that was opened earlier and not edited since includes l1 -> l2 (3.1 kB): completion %s the account of l2, limits in effect are depth %r, size %r" % (
                    k, pj[:200], "offers" if gp["deepOffered"] else "does not offer", exp["limits.maxIncludeDepth"], exp["limits.maxFileSizeBytes"])))
                break
            if ep["tooDeep"] is not None and "tooDeep" in gp and gp["tooDeep"] != ep["tooDeep"]:
                divs.append(("probe:include-depth-limit", "step %d payload %s: a document with one include directive %s 'include depth limit exceeded', limits.maxIncludeDepth in effect is %r" % (
                    k, pj[:200], "reports" if gp["tooDeep"] else "does not report", exp["limits.maxIncludeDepth"])))
                break
            gc = set(x for x, on in (gp.get("codes") or {}).items() if on and x in ("UNDECLARED_ACCOUNT", "UNDECLARED_COMMODITY", "UNBALANCED"))
            if gc != ep["codes"]:
                divs.append(("probe:diagnostic-categories", "step %d payload %s: diagnostic categories %s, expected %s" % (k, pj[:200], sorted(gc), sorted(ep["codes"]))))
                break
    return divs


def main(args):
    run = vf.Run("C19", args.tier, args.seed, level="model_checking")
    if args.replay:
        with open(args.replay) as f:
            rp = json.load(f)
        cases = [(rp["case"]["family"], rp["case"]["spec_case"])]
    else:
        cases = gen(run)
    # every other probed case runs in a workspace folder whose root journal is the document of the limits probe
    hcases = [to_harness(i, c, probe=(fam.startswith("sim") or i % 5 == 0), workspace=(i % 2 == 1)) for i, (fam, c) in enumerate(cases)]
    results = run.harness("settings", hcases, timeout=3000)
    for (fam, c), hc, res in zip(cases, hcases, results):
        nt = any(st["payload"]["shape"] == "object" and st["payload"]["entries"] for st in c["h"])
        run.count(vf.digest(c["h"]), nt)
        for sig, what in evaluate(c, res):
            run.diverge(sig, what + ("  [workspace folder]" if hc["workspace"] else ""), {"family": fam, "spec_case": c, "probe": hc["probe"], "workspace": hc["workspace"]}, res)
    run.traces_validated = len(cases)
    sims = [(c, hc) for (fam, c), hc in zip(cases, hcases) if fam.startswith("sim")]
    if sims:
        run.sample({"payloads": [s["payload"] for s in sims[0][1]["steps"]], "expected_final": sims[0][0]["h"][-1]["expect"]})
    run.sample({"payloads": [s["payload"] for s in hcases[7]["steps"]]})
    run.rule = ("one case per behaviour of Settings.tla: every single payload (26 keys x 18 value classes x nested/dotted x wrapper, + 4 non-object payloads) once through "
                "initialize and once through didChangeConfiguration, and simulated histories of 4..6 payloads with 0..3 entries; non-trivial = some object payload with an entry")
    run.assumptions = ["payloads reach the server as encoding/json decodes them (numbers are float64), as over the wire",
                       "fractional and non-representable numbers are not generated (the statement does not fix them)",
                       "a feature switch changed after initialisation must be stored; LSP cannot withdraw a statically advertised capability"]
    run.finish(confirm=lambda d: confirm(run, d))


def confirm(run, d):
    c = d["case"]["spec_case"]
    res = run.harness("settings", [to_harness(0, c, d["case"].get("probe", False), d["case"].get("workspace", False))])[0]
    return any(sig == d["sig"] for sig, _ in evaluate(c, res))
