"""Shared pipeline of the formatting checks C04 and C05.

Inputs come from Format.tla (valid journals x options x commodity formats declared in the file or in a
workspace sibling) and from Damage.tla (journals with one damaged entry, no display format in scope).
Each input is formatted on a real server; the returned edits are applied by the reference applier
(lib/lspedit.py, DocSync semantics); the result is parsed, analysed and formatted again."""
import json

import vf
import jcommon
import lspedit
import c07


def fcfg(fam, maxentries=6):
    return "CONSTANTS Family = \"%s\" MaxEntries = %d\nINIT Init\nNEXT Next\nINVARIANTS Theorems Emit\nCHECK_DEADLOCK FALSE\n" % (fam, maxentries)


def settings_of(opts):
    return {"formatting": {"indentSize": opts["indent"], "alignAmounts": opts["align"], "minAlignmentColumn": opts["mincol"]}}


def gen_valid(run, nrandom, fams=("decimals", "options", "quoted"), caps=None):
    out = []
    for fam in fams:
        r = run.tlc("Format", fcfg(fam), workers=16, timeout=2400)
        cs = r.json
        cap = (caps or {}).get(fam)
        if cap and len(cs) > cap:
            cs = run.rng.sample(cs, cap)
        out += cs
    js = run.tlc_simulate_many("Format", fcfg("random", 6), nrandom, 3, procs=8, timeout=2400)
    seen = set()
    for c in js:
        k = json.dumps([c["lines"], c["opts"], c["sibling"]], ensure_ascii=False)
        if k not in seen:
            seen.add(k)
            out.append(c)
    return out


def gen_broken(run, njournals, per_journal):
    """journals with one damaged entry; only journals that bring no display format into scope"""
    js = run.tlc_simulate_many("Damage", c07.cfg(5), njournals, 2, procs=8, timeout=2400)
    js.sort(key=lambda c: json.dumps(c["lines"], ensure_ascii=False))
    out = []
    seen = set()
    for jc in js:
        k = json.dumps(jc["lines"], ensure_ascii=False)
        if k in seen:
            continue
        seen.add(k)
        if any(e["type"] == "D" or (e["type"] == "commodity" and e.get("format")) for e in jc["abs"]):
            continue
        items = [it for it in c07.damaged_cases(jc) if not c07.Junk_is_heavy(it[1])]
        if len(items) > per_journal:
            items = run.rng.sample(items, per_journal)
        for i0, d, dl, span, firsts in items:
            out.append({"fam": "broken", "opts": {"indent": run.rng.choice([1, 2, 4, 8]), "align": run.rng.random() < 0.8, "mincol": run.rng.choice([0, 0, 20, 80])},
                        "place": "none", "lines": dl, "firsts": firsts, "abs": jc["abs"], "sibling": [], "damaged": i0, "span": span, "damage": d, "journal": jc})
    return out


def text_of_lines(lines):
    return c07.to_bytes("\n".join(lines) + "\n")


def script_case(idx, c, text_bytes):
    """formatting session: open the document, ask for its diagnostics and its formatting"""
    try:
        text = text_bytes.decode("utf-8")
    except UnicodeDecodeError:
        return None      # the script command carries text as JSON strings; invalid UTF-8 is C06's business
    files = {}
    ws = False
    if c.get("place") == "workspace":
        ws = True
        files["main.journal"] = "include doc.journal\ninclude formats.journal\n"
        files["formats.journal"] = "\n".join(c["sibling"]) + "\n"
        files["doc.journal"] = text
    files.update(c07.INCLUDED)
    return {"id": str(idx), "files": files, "workspace": ws, "settings": settings_of(c["opts"]),
            "ops": [{"op": "open", "file": "doc.journal", "text": text}, {"op": "req", "kind": "formatting", "file": "doc.journal"}]}


class Formatted:
    __slots__ = ("case", "text", "edits", "formatted", "parse", "parse0", "diags0", "diags1", "edits2", "formatted2", "panic")


def unsplit(text):
    """An edit that splits a surrogate pair (reported as such by lspedit.validate_edits) leaves half a character behind:
    the halves are replaced by U+FFFD so that the text can still be sent on."""
    try:
        text.encode("utf-8")
        return text
    except UnicodeEncodeError:
        return text.encode("utf-16-le", "surrogatepass").decode("utf-16-le", "replace")


def run_format(run, cases):
    """-> list of Formatted (None for cases that cannot be carried)"""
    hcs = []
    idx = []
    for i, c in enumerate(cases):
        hc = script_case(i, c, text_of_lines(c["lines"]))
        if hc is not None:
            hcs.append(hc)
            idx.append(i)
    res1 = run.harness("script", hcs, timeout=3000)
    outs = [None] * len(cases)
    hcs2 = []
    idx2 = []
    for i, hc, r in zip(idx, hcs, res1):
        f = Formatted()
        f.case = cases[i]
        f.text = hc["ops"][0]["text"]
        f.panic = r.get("panic")
        f.edits = f.formatted = f.parse = f.parse0 = f.diags0 = f.diags1 = f.edits2 = f.formatted2 = None
        outs[i] = f
        if f.panic:
            continue
        f.diags0 = r["steps"][0].get("diags") or []
        f.edits = r["steps"][1].get("reply") or []
        f.formatted = unsplit(lspedit.apply_edits(f.text, f.edits))
        hc2 = dict(hc)
        files = dict(hc["files"])
        if "doc.journal" in files:
            files["doc.journal"] = f.formatted
        hc2["files"] = files
        hc2["ops"] = [{"op": "open", "file": "doc.journal", "text": f.formatted}, {"op": "req", "kind": "formatting", "file": "doc.journal"}]
        hcs2.append(hc2)
        idx2.append(i)
    res2 = run.harness("script", hcs2, timeout=3000)
    pres = run.harness("parse", [{"id": str(i), "text": outs[i].formatted} for i in idx2], timeout=3000)
    pres0 = run.harness("parse", [{"id": str(i), "text": outs[i].text} for i in idx2], timeout=3000)
    for i, r, p, p0 in zip(idx2, res2, pres, pres0):
        f = outs[i]
        f.parse = p
        f.parse0 = p0
        if r.get("panic"):
            f.panic = r["panic"]
            continue
        f.diags1 = r["steps"][0].get("diags") or []
        f.edits2 = r["steps"][1].get("reply") or []
        f.formatted2 = unsplit(lspedit.apply_edits(f.formatted, f.edits2))
    return outs


def posting_lines(c):
    """0-based line numbers of real posting lines of a valid case"""
    return {li for li, (ent, post) in enumerate(c["pmap"]) if post > 0}


def diag_key(d):
    return (d["sl"], d["code"], c07.norm_msg(d["code"], d["msg"]))
