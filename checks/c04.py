"""C04 — Formatting never changes what the journal says.

Format.tla supplies valid journals of G with their abstract content, formatting options (indent
1..8, alignment on/off, minimum column) and commodity display formats (12 formats: point/comma
decimal mark, comma/point/space/no group mark, 0..8 decimals) declared in the file or in a
workspace sibling: every format x amounts with more decimals than the format shows, a rich
journal x every option combination, and random journals x random options.  Damage.tla supplies
journals with one damaged entry (no display format in scope).  Each input is formatted on a real
server and the edits are applied by the reference applier.  Valid input: the formatted text must
parse to the same abstract journal (exact quantities), every line that is not a posting line may
only have lost trailing blanks, and the diagnostics must be the same.  Damaged input: what the
parser understood of the text (entries, exact quantities, syntax errors) is the same before and
after, every line on which the parser reported an error is left alone (nothing it did not
understand is deleted), lines without a posting only lose trailing blanks, and the entries the
model knows to be intact keep their abstract content.
"""
import collections
import json
import os
import re
from decimal import Decimal, InvalidOperation

import vf
import jcommon
import fcommon
import c07


# the case directories of the harness (harness/common.go caseDirName)
SCRATCH = re.compile(r"/\S*?/(?:c\d+|my ledger \d+|бухгалтерия\d+|taxes \[\d+\]|books\{\d+\}|R&D 2024\+25 @home=\d+)/")


def norm_diag(d):
    code, msg = d["code"], SCRATCH.sub("", d["msg"])
    if code == "UNBALANCED" and ": " in msg:
        head, rest = msg.split(": ", 1)
        parts = []
        for p in rest.split("; "):
            if " off by " in p:
                comm, num = p.rsplit(" off by ", 1)
                try:
                    num = str(Decimal(num).normalize() + 0)
                except InvalidOperation:
                    pass
                parts.append((comm, num))
            else:
                parts.append((p, ""))
        msg = head + ": " + repr(sorted(parts))
    return (d["sl"], code, msg)


def nonblank(s):
    return "".join(ch for ch in s if ch not in " \t")


def structure(line):
    """the characters of a line that formatting has no business with: letters and structural punctuation"""
    line = line.rstrip(" \t")
    if line.endswith(";"):
        line = line[:-1]          # an empty comment says nothing: dropping its semicolon is not a loss
    # the exponent mark of a number (-125e-3, 1E3) is number notation, which formatting may rewrite (-0.125): not a letter
    line = re.sub(r"(?<=[0-9.,])[eE](?=[-+]?[0-9])", "", line)
    return "".join(ch for ch in line if ch.isalpha() or ch in "@={}()[]|;*!\"")


def is_subsequence(a, b):
    it = iter(b)
    return all(ch in it for ch in a)


def evaluate(f):
    c = f.case
    if f.panic:
        return [("panic", "server panicked: " + f.panic[:300])]
    divs = []
    ol = f.text.split("\n")
    fl = f.formatted.split("\n")
    if len(ol) != len(fl):
        divs.append(("line-count-changed", "%d lines became %d" % (len(ol), len(fl))))
        return divs
    if c["fam"] != "broken":
        if "panic" in f.parse:
            return [("panic", "parser panicked on the formatted text")]
        for sig, what in jcommon.compare_journal(c, f.parse):
            divs.append(("reparse:" + sig, "after formatting: " + what))
        post = fcommon.posting_lines(c)
        for li, (a, b) in enumerate(zip(ol, fl)):
            if li in post:
                continue
            if b != a.rstrip(" \t"):
                divs.append(("nonposting-line-changed", "line %d %r became %r" % (li + 1, a, b)))
                break
        d0 = sorted(norm_diag(d) for d in f.diags0)
        d1 = sorted(norm_diag(d) for d in (f.diags1 or []))
        if d0 != d1:
            divs.append(("diagnostics-changed", "diagnostics before %s, after %s" % ([x for x in d0 if x not in d1], [x for x in d1 if x not in d0])))
    else:
        # damaged input: what the parser understood must stay the same, and every line it reported an error on
        # (where the syntax tree does not say all the line contains) must be left alone
        if "panic" in f.parse or "panic" in f.parse0:
            return [("panic", "parser panicked")]
        e0, r0 = jcommon.canon_projection(f.parse0)
        e1, r1 = jcommon.canon_projection(f.parse)
        if r0 != r1:
            divs.append(("syntax-errors-changed", "syntax errors before %s, after formatting %s" % ([x for x in r0 if x not in r1], [x for x in r1 if x not in r0])))
        if e0 != e1:
            k = next((i for i, (x, y) in enumerate(zip(e0, e1)) if x != y), min(len(e0), len(e1)))
            divs.append(("understood-content-changed", "entry %d understood as %s before, as %s after formatting" % (
                k + 1, e0[k][:300] if k < len(e0) else None, e1[k][:300] if k < len(e1) else None)))
        # independent of what the parser says it understood: formatting moves blanks and (with a display format in scope,
        # which damaged inputs never have) re-renders numbers; letters and the punctuation that carries structure are never lost
        for li, (a, b) in enumerate(zip(ol, fl)):
            if not is_subsequence(structure(a), structure(b)):      # added characters (a closing quote) are not a loss
                divs.append(("text-lost:structure", "line %d %r became %r: letters / structural punctuation %r became %r" % (li + 1, a, b, structure(a), structure(b))))
                break
        errlines = {e["line"] for e in (f.parse0.get("errs") or [])}
        plines = {p["line"] for e in (f.parse0.get("entries") or []) for p in (e.get("postings") or [])}
        for li, (a, b) in enumerate(zip(ol, fl)):
            if (li + 1) in errlines and b.rstrip(" \t") != a.rstrip(" \t"):
                divs.append(("text-lost", "line %d, on which the parser reported an error, %r became %r" % (li + 1, a, b)))
                break
            if (li + 1) not in plines and b != a.rstrip(" \t"):
                divs.append(("nonposting-line-changed", "line %d %r became %r" % (li + 1, a, b)))
                break
        others = set(range(len(c["abs"]))) - {c["damaged"]}
        for sig, what in jcommon.compare_journal({"abs": c["abs"], "firsts": c["firsts"], "lines": c["lines"]}, f.parse, only=others, ignore_errs=True):
            divs.append(("intact-entry:" + sig, "after formatting: " + what))
    seen = set()
    return [(s, w) for s, w in divs if not (s in seen or seen.add(s))]


def trigger_of(c):
    """the one known trigger in this input space: a line of nothing but blanks inside a transaction (the parser skips
    it, the formatter turns it into an empty line, which ends the transaction)"""
    ls = c["lines"]
    for i in range(1, len(ls) - 1):
        if ls[i] != "" and ls[i].strip(" \t") == "" and ls[i - 1] != "" and ls[i + 1][:1] in (" ", "\t"):
            return "blank-only-line-inside-transaction"
    return None


# the single-trigger case of the known finding blank-only-line-trimmed-inside-transaction
TRIGGER_CASE = {"fam": "broken", "opts": {"indent": 4, "align": True, "mincol": 0}, "place": "none", "sibling": [],
                "lines": ["2024-01-15 x", "    assets:bank  1", "   ", "    assets:cash"], "firsts": [], "abs": [], "damaged": 0,
                "span": [1, 4], "damage": {"k": "fixed"}}


def gen(run, args):
    thorough = run.tier == "thorough"
    cases = fcommon.gen_valid(run, 400 if not thorough else 6000, caps=None if thorough else {"decimals": 600, "options": 240})
    cases += fcommon.gen_broken(run, 16 if not thorough else 200, 60 if not thorough else 200)
    cases.append(TRIGGER_CASE)
    return cases


def main(args, prop="C04"):
    run = vf.Run(prop, args.tier, args.seed, level="exploration")
    if args.replay:
        with open(args.replay) as f:
            rp = json.load(f)
        cases = [rp["case"]["spec_case"]]
    else:
        cases = gen(run, args)
    outs = fcommon.run_format(run, cases)
    table = collections.Counter()
    fams = collections.Counter()
    for c, f in zip(cases, outs):
        if f is None:
            continue
        fams[c["fam"]] += 1
        run.count(vf.digest([c["lines"], c["opts"], c.get("sibling")]), f.edits is not None and len(f.edits) > 0)
        for sig, what in evaluate(f):
            table[(c["fam"], c.get("place"), sig)] += 1
            cc = {k: v for k, v in c.items() if k != "journal"}
            run.diverge(sig, "%s  [options %s, formats %s in %s; text %r]" % (what, c["opts"], [x["txt"] for x in c.get("formats", [])], c.get("place"), f.text[:300]),
                        {"spec_case": cc}, {"edits": f.edits, "formatted": f.formatted}, trigger=trigger_of(c))
    if os.environ.get("VERIF_TABLE"):
        for k, n in sorted(table.items(), key=str):
            print("TABLE", k, n)
    run.traces_validated = sum(fams.values())
    run.extra["families"] = dict(fams)
    for fam in ("decimals", "random", "broken"):
        for c, f in zip(cases, outs):
            if f is not None and c["fam"] == fam and f.formatted is not None:
                run.sample({"family": fam, "options": c["opts"], "formats": c.get("formats"), "declared_in": c.get("place"), "text": f.text, "formatted": f.formatted})
                break
    run.rule = ("one case per (journal, options, formats, placement) from Format.tla (decimals: every format x over-precise values; options: every option combination; random) "
                "and per (journal, damaged entry, damage) from Damage.tla; non-trivial = formatting returned at least one edit; distinct by (lines, options, sibling)")
    run.assumptions = ["edits are applied with the DocSync reference semantics (lib/lspedit.py)",
                       "for damaged input \"text the parser failed to understand\" is read as: the lines on which the parser reports a syntax error",
                       "comment text is compared modulo surrounding blanks; the order of parts of an UNBALANCED message is C15's business"]
    run.finish(confirm=lambda d: confirm(run, d))


def confirm(run, d):
    c = d["case"]["spec_case"]
    outs = fcommon.run_format(run, [c])
    return outs[0] is not None and any(sig == d["sig"] for sig, _ in evaluate(outs[0]))
