"""Rendering of Include-spec graphs into real files, and comparison of loader projections
with the contract's Resolve (shared by C10 and C11)."""

NAMES = {1: "f1.journal", 2: "f2.journal", 3: "sub/f3.journal", 4: "sub/f4.journal"}
KIND_NAMES = {0: "FileNotFound", 1: "CycleDetected", 2: "ParseError", 3: "ReadError", 4: "FileTooLarge", 5: "PathTraversal"}
BIG_PAD = 4096  # bytes of padding that make a file "oversized" under size limit 2048
SIZE_LIMIT = 2048


def line_of(f, i):
    """Line (1-based) of directive i of file f: unique across the workspace."""
    return (f - 1) * 24 + 2 * i


def rel_path(f, g):
    """Relative include path from file f to file g."""
    fsub, gsub = f >= 3, g >= 3
    base = NAMES[g].split("/")[-1]
    if fsub == gsub:
        return base
    if fsub and not gsub:
        return "../" + base
    return "sub/" + base


def spell(f, i, tgts, pat, form):
    if pat == "plain":
        g = tgts[0]
        if g == 0:
            return "missing%d_%d.journal" % (f, i)
        if form == 1:
            return "@ROOT@/" + NAMES[g]
        if form == 2:
            return "~/@HOMEREL@/" + NAMES[g]
        if form == 3:
            return "@ROOT@/./" + NAMES[g]          # the same file under a spelling that is not the shortest one
        if form == 4:
            return "@ROOT@/sub/../" + NAMES[g]
        if form == 5:
            return "./" + rel_path(f, g)
        return rel_path(f, g)
    # a glob under the spellings of its directory: relative, home-relative, absolute
    here = "sub/" if f >= 3 else ""
    pre = {2: "~/@HOMEREL@/" + here, 3: "@ROOT@/" + here}.get(form, "")
    if pat == "same":
        return pre + "*.journal"
    if pat == "all":
        return "<->/*.journal" if form != 1 else "**/*.journal"
    if pat == "sub":
        return pre + "sub/*.journal"
    return "nomatch*.journal"


def render_file(f, dirs, pats, version, big, forms):
    """Text of file f: directives on their unique lines, padding comments elsewhere, one marker transaction."""
    lines = {}
    for i, tg in enumerate(dirs, start=1):
        lines[line_of(f, i) - (f - 1) * 24] = "include " + spell(f, i, tg, pats[i - 1], forms(f, i))
    n = max(lines) if lines else 0
    out = []
    # lines before this file's block are blank comment padding so that line numbers are globally unique
    for _ in range((f - 1) * 24):
        out.append("; pad")
    for k in range(1, n + 1):
        out.append(lines.get(k, "; pad"))
    out.append("")
    out.append("2024-01-0%d file %d version %d" % (f, f, version))
    out.append("    assets:cash  %d" % f)
    out.append("    equity:open")
    text = "\n".join(out) + "\n"
    if f in big:
        text += ("; " + "x" * 62 + "\n") * (BIG_PAD // 64)
    return text


def render_disk(disk, pats, big, versions=None, forms=None):
    forms = forms or (lambda f, i: 0)
    files = {}
    for f in range(1, len(disk) + 1):
        v = versions[f - 1] if versions else 1
        files[NAMES[f]] = render_file(f, disk[f - 1], pats[f - 1], v, big, forms)
    return files


def line_to_dir(disk):
    m = {}
    for f in range(1, len(disk) + 1):
        for i in range(1, len(disk[f - 1]) + 1):
            m[line_of(f, i)] = (f, i)
    return m


def kind_matches(expected, kind):
    if expected == "cycle":
        return kind == 1
    if expected == "missing":
        return kind in (0, 3)
    if expected == "toolarge":
        return kind == 4
    if expected == "depth":
        return True          # which constant a too-deep include carries is not part of the property
    if expected == "nomatch":
        return kind in (0, 3)
    return False


def compare_load(disk, exp, obs, root=1):
    """Compare one observed load projection with one expected Resolve result.
    Returns list of (sig, what)."""
    divs = []
    if obs.get("nil"):
        return [("result-nil", "loader returned no journal")]
    exp_files = sorted(NAMES[g] for g in exp["loaded"] if g != root)
    if sorted(obs["files"]) != exp_files:
        missing = sorted(set(exp_files) - set(obs["files"]))
        extra = sorted(set(obs["files"]) - set(exp_files))
        if missing:
            divs.append(("files-missing", "reachable files not loaded: %s (got %s)" % (missing, obs["files"])))
        if extra:
            divs.append(("files-extra", "files loaded that the contract does not load: %s" % extra))
    if sorted(obs["order"]) != sorted(set(obs["order"])):
        divs.append(("order-duplicate", "a file is listed more than once: %s" % obs["order"]))
    elif sorted(obs["order"]) != sorted(obs["files"]):
        divs.append(("order-files-mismatch", "FileOrder %s vs Files %s" % (obs["order"], obs["files"])))
    l2d = line_to_dir(disk)
    want = {}
    optional = {}
    for (f, i, g, kind) in exp["diags"]:
        if kind == "nomatch":
            optional[(f, i)] = optional.get((f, i), 0) + 1
        else:
            want.setdefault((f, i), []).append((g, kind))
    got = {}
    for e in obs["errs"]:
        d = l2d.get(e["line"])
        if d is None:
            divs.append(("diag-without-directive", "diagnostic kind=%s path=%s at line %d is not on an include directive" % (
                KIND_NAMES.get(e["kind"], e["kind"]), e["path"], e["line"])))
            continue
        got.setdefault(d, []).append(e)
    for d in sorted(set(want) | set(got)):
        w = list(want.get(d, []))
        gl = list(got.get(d, []))
        # match greedily by kind
        for e in list(gl):
            hit = None
            for x in w:
                if kind_matches(x[1], e["kind"]):
                    hit = x
                    break
            if hit is not None:
                w.remove(hit)
                gl.remove(e)
        if gl and d in optional:
            gl = [e for e in gl if not kind_matches("nomatch", e["kind"])] + [e for e in gl if kind_matches("nomatch", e["kind"])][optional[d]:]
        for e in gl:
            tgt = disk[d[0] - 1][d[1] - 1]
            cls = "second-path" if (e["kind"] == 1) else "other"
            divs.append(("extra-diag:%s:%s" % (KIND_NAMES.get(e["kind"], e["kind"]), cls),
                         "unexpected %s diagnostic on directive %d of file %d (targets %s): %s" % (
                             KIND_NAMES.get(e["kind"], e["kind"]), d[1], d[0], tgt, e.get("msg", ""))))
        for (g, kind) in w:
            divs.append(("missing-diag:%s" % kind, "no %s diagnostic on directive %d of file %d (target %d)" % (kind, d[1], d[0], g)))
    return divs
