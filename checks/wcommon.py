"""Shared helpers for the checks that consume WorkspaceFiles.tla cases (C09, C15, C16, C20)."""
import json
from decimal import Decimal

import vf


def cfg(maxtx=3, shape=0, extra=False, prices=False):
    return ("CONSTANTS MaxTx = %d Shape = %d Extra = %s Prices = %s\nINIT Init\nNEXT Next\nINVARIANTS Theorems Emit\nCHECK_DEADLOCK FALSE\n" % (
        maxtx, shape, "TRUE" if extra else "FALSE", "TRUE" if prices else "FALSE"))


def gen(run, num, maxtx=3, shape=0, workers=8, timeout=2400, extra=False, prices=False):
    """num workspaces in total (TLC's num is per worker)."""
    js = run.tlc_simulate_many("WorkspaceFiles", cfg(maxtx, shape, extra, prices), num, 2, procs=workers, timeout=timeout)
    seen = set()
    out = []
    for c in js:
        k = json.dumps([f["lines"] for f in c["files"]], ensure_ascii=False)
        if k not in seen:
            seen.add(k)
            out.append(c)
    # a deterministic order (TLC processes finish in any order), then a seeded shuffle: truncating the sorted list would
    # favour whatever sorts first (single-file workspaces start with a date, multi-file ones with "include")
    out.sort(key=lambda c: json.dumps([f["lines"] for f in c["files"]], ensure_ascii=False))
    run.rng.shuffle(out)
    return out[:num]


def text_of(f):
    return "\n".join(f["lines"]) + "\n"


def files_of(c):
    return {f["name"]: text_of(f) for f in c["files"]}


def u16len(s):
    return len(s.encode("utf-16-le")) // 2


def exact_from_buckets(b):
    """spec total (one integer per written scale) -> exact Decimal"""
    tot = Decimal(0)
    for s, m in b.items():
        tot += Decimal(int(m)).scaleb(-int(s))
    return tot


def canon(d):
    """canonical form of an exact Decimal for comparison (no exponent games)"""
    d = Decimal(d)
    if d == 0:
        return Decimal(0)
    return d.normalize()


def tables_index(t):
    """dict views of a spec Tables record"""
    totals = {}
    for r in t["totals"]:
        totals.setdefault(r["account"], {})[r["comm"]] = exact_from_buckets(r["buckets"])
    return {
        "totals": totals,
        "postings": {r["account"]: r["n"] for r in t["postings"]},
        "txcount": {r["payee"]: r["n"] for r in t["txcount"]},
        "taguse": {r["name"]: r["n"] for r in t["taguse"]},
        "tagvalue": {(r["name"], r["value"]): r["n"] for r in t["tagvalue"]},
    }


def spec_amount_decimal(a):
    return Decimal(int(a["mant"])).scaleb(-int(a["scale"]))


def scope_root(c, ws, origin):
    """index of the file whose include tree a request made from file `origin` is answered from: the workspace root's when
    there is a workspace root AND the file belongs to its tree, else the file's own"""
    if ws and (origin + 1) in c["files"][0]["tree"]:
        return 0
    return origin
