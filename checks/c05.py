"""C05 — Formatting is idempotent, aligned and returns well-formed edits.

Same inputs and pipeline as C04 (Format.tla: every format x over-precise values, a rich journal x
every option combination, random journals x random options x formats in file / workspace;
Damage.tla: journals with one damaged entry).  (a) The edit list is validated against the
reference notion of a range on the ORIGINAL text (lib/lspedit.py, DocSync semantics): inside
the document, start <= end, not inside a surrogate pair, pairwise non-overlapping.  (b) The
formatted text is formatted again: applying the second edit list must change nothing.  (c) With
alignment on, for valid journals: every posting line starts with exactly `indent` blanks, and
the amounts of postings without status mark all start in one column (counted in characters)
that is at least MinCol = indent + widest account form + 2, MinCol computed by Format.tla.
"""
import collections
import json
import os

import vf
import fcommon
import lspedit
import c04


# single-trigger case of the known finding blank-only-line-trimmed-inside-transaction (see C04): after the first pass the
# posting below the trimmed line is orphaned, the widest account disappears and the second pass re-aligns
TRIGGER_CASE = {"fam": "broken", "opts": {"indent": 4, "align": True, "mincol": 0}, "place": "none", "sibling": [],
                "lines": ["2024-01-15 x", "    assets:bank  1", "   ", "    expenses:food:épicerie  2"], "firsts": [], "abs": [], "damaged": 0,
                "span": [1, 4], "damage": {"k": "fixed"}}


def form_of(p):
    o, c = {"real": ("", ""), "paren": ("(", ")"), "bracket": ("[", "]")}[p["kind"]]
    return o + p["account"] + c


def evaluate(f):
    c = f.case
    if f.panic:
        return [("panic", "server panicked: " + f.panic[:300])]
    divs = []
    for sig, what in lspedit.validate_edits(f.text, f.edits):
        divs.append((sig, what))
    if f.edits2 is not None:
        for sig, what in lspedit.validate_edits(f.formatted, f.edits2):
            divs.append(("second-pass:" + sig, what))
        if f.formatted2 != f.formatted:
            a = f.formatted.split("\n")
            b = f.formatted2.split("\n")
            k = next((i for i, (x, y) in enumerate(zip(a, b)) if x != y), min(len(a), len(b)))
            divs.append(("not-idempotent", "formatting the formatted text changes line %d: %r -> %r" % (
                k + 1, a[k] if k < len(a) else None, b[k] if k < len(b) else None)))
    if c["fam"] != "broken" and c["opts"]["align"]:
        fl = f.formatted.split("\n")
        indent = c["opts"]["indent"]
        cols = {}
        for li, (ent, post) in enumerate(c["pmap"]):
            if post <= 0 or li >= len(fl):
                continue
            line = fl[li]
            p = c["abs"][ent - 1]["postings"][post - 1]
            if not (line[:indent] == " " * indent and line[indent:indent + 1] not in ("", " ", "\t")):
                divs.append(("posting-indent", "line %d does not start with exactly %d blanks: %r" % (li + 1, indent, line)))
                continue
            if p["status"] != "" or not p["amount"]:
                continue
            prefix = " " * indent + form_of(p)
            if not line.startswith(prefix):
                continue        # what the line says is C04's business
            rest = line[len(prefix):]
            blanks = len(rest) - len(rest.lstrip(" "))
            if blanks < 2:
                divs.append(("amount-gap", "line %d: fewer than two blanks between account and amount: %r" % (li + 1, line)))
                continue
            cols[li + 1] = len(prefix) + blanks
        if cols:
            distinct = sorted(set(cols.values()))
            if len(distinct) > 1:
                divs.append(("amounts-not-in-one-column", "amounts of postings without status start in columns %s (line -> column %s)" % (distinct, cols)))
            elif distinct[0] < c["mincolumn"]:
                divs.append(("amount-column-too-small", "amounts start in column %d; indent %d + widest account form %d + 2 = %d" % (
                    distinct[0], indent, c["widest"], c["mincolumn"])))
    seen = set()
    return [(s, w) for s, w in divs if not (s in seen or seen.add(s))]


def main(args):
    run = vf.Run("C05", args.tier, args.seed, level="exploration")
    if args.replay:
        with open(args.replay) as f:
            rp = json.load(f)
        cases = [rp["case"]["spec_case"]]
    else:
        cases = c04.gen(run, args)
        cases.append(TRIGGER_CASE)
    outs = fcommon.run_format(run, cases)
    table = collections.Counter()
    fams = collections.Counter()
    aligned = 0
    for c, f in zip(cases, outs):
        if f is None:
            continue
        fams[c["fam"]] += 1
        if c["fam"] != "broken" and c["opts"]["align"]:
            aligned += 1
        run.count(vf.digest([c["lines"], c["opts"], c.get("sibling")]), f.edits is not None and len(f.edits) > 0)
        for sig, what in evaluate(f):
            table[(c["fam"], sig)] += 1
            cc = {k: v for k, v in c.items() if k != "journal"}
            run.diverge(sig, "%s  [options %s, formats %s in %s; text %r]" % (what, c["opts"], [x["txt"] for x in c.get("formats", [])], c.get("place"), f.text[:300]),
                        {"spec_case": cc}, {"edits": f.edits, "formatted": f.formatted, "edits2": f.edits2}, trigger=c04.trigger_of(c))
    # the same documents with CR LF line ends (every fourth valid case): the edit list must be well-formed there as well --
    # a line ends before its CR
    import lspedit
    crlf = [c for i, c in enumerate(cases) if c["fam"] != "broken" and (i + run.seed) % 4 == 0 and c.get("place") != "workspace"]
    if args.replay and rp["case"].get("crlf"):
        crlf = cases
    hcs = []
    for i, c in enumerate(crlf):
        hc = fcommon.script_case(i, c, ("\r\n".join(c["lines"]) + "\r\n").encode("utf-8"))
        if hc is not None:
            hcs.append((c, hc))
    for (c, hc), res in zip(hcs, run.harness("script", [h for _, h in hcs], timeout=3000) if hcs else []):
        if "panic" in res:
            continue
        text = hc["ops"][0]["text"]
        edits = res["steps"][1].get("reply") or []
        run.count(vf.digest(["crlf", c["lines"], c["opts"]]), len(edits) > 0)
        bad = lspedit.validate_edits(text, edits)
        if bad:
            sig, what = bad[0]
            table[(c["fam"], "crlf:" + sig)] += 1
            cc = {k: v for k, v in c.items() if k != "journal"}
            run.diverge("crlf:" + sig, "%s  [the document with CR LF line ends; options %s; text %r]" % (what, c["opts"], text[:200]), {"spec_case": cc, "crlf": True}, {"edits": edits[:6]})
    if os.environ.get("VERIF_TABLE"):
        for k, n in sorted(table.items(), key=str):
            print("TABLE", k, n)
    run.traces_validated = sum(fams.values())
    run.extra["families"] = dict(fams)
    run.extra["alignment_checked_on"] = aligned
    for fam in ("options", "random", "broken"):
        for c, f in zip(cases, outs):
            if f is not None and c["fam"] == fam and f.formatted is not None and f.edits:
                run.sample({"family": fam, "options": c["opts"], "text": f.text, "edits": f.edits[:4], "formatted": f.formatted, "mincolumn": c.get("mincolumn")})
                break
    run.rule = ("same cases as C04; non-trivial = formatting returned at least one edit; distinct by (lines, options, sibling)")
    run.assumptions = ["ranges are judged with the DocSync reference semantics (lib/lspedit.py); two insertions at one point do not overlap",
                       "the alignment clauses are checked for valid journals with alignment on; the column of an amount is located from the abstract posting (indent + account form + blanks)",
                       "'at least two spaces after the longest account' is read over all postings of the document, as the widest account form incl. its brackets"]
    run.finish(confirm=lambda d: confirm(run, d))


def confirm(run, d):
    c = d["case"]["spec_case"]
    if d["case"].get("crlf"):
        import lspedit
        hc = fcommon.script_case(0, c, ("\r\n".join(c["lines"]) + "\r\n").encode("utf-8"))
        res = run.harness("script", [hc])[0]
        bad = lspedit.validate_edits(hc["ops"][0]["text"], res["steps"][1].get("reply") or [])
        return any("crlf:" + sig == d["sig"] for sig, _ in bad)
    outs = fcommon.run_format(run, [c])
    return outs[0] is not None and any(sig == d["sig"] for sig, _ in evaluate(outs[0]))
