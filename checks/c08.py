"""C08 — Every reported range is well-formed, UTF-16 correct and on target.

JournalGen.tla (with the lexeme table: for every lexeme of every line its kind and its exact
UTF-16 span) supplies journals of G with non-ASCII and non-BMP characters in descriptions,
accounts, comments, tags and commodities; WorkspaceFiles.tla supplies workspaces of several
files.  Each document is opened on a real server and EVERY cursor position of EVERY line (plus
one past each line end) is swept with hover, definition, references, prepareRename and rename
(completion and inline completion on every lexeme boundary); document symbols, workspace
symbols, links, folding ranges and the published diagnostics are requested once.

Generic validator, on every Position / Range / Location / TextEdit / FoldingRange of every
reply: inside the document it refers to, start <= end, never inside a surrogate pair.
On target: the range of a hover or prepareRename answer must be exactly the span of a lexeme of
the line that contains the cursor; every location of references / rename must be exactly the
span of a lexeme spelling that symbol; a document link must cover exactly the include path; an
UNDECLARED_COMMODITY diagnostic exactly a commodity; fold regions and outline symbols of
different entries must be nested or disjoint; a workspace symbol's range is exactly a lexeme of its kind
(account, commodity, payee) spelling its name; an outline symbol starts at column 0 of the first line of an entry
and is named after that entry (its date / its directive's subject).
"""
import collections
import json
import os

import vf
import jcommon
import wcommon


SWEEP_KINDS = ["hover", "definition", "references", "prepareRename", "rename"]
EDGE_KINDS = ["completion", "inlineCompletion"]
DOC_KINDS = ["documentSymbol", "foldingRange", "documentLink", "workspaceSymbol"]
SETTINGS = {"completion": {"maxResults": 5}}


# ------------------------------------------------------------------ documents
class Doc:
    def __init__(self, text):
        self.text = text
        self.lines = text.split("\n")
        self.lines = [l[:-1] if l.endswith("\r") else l for l in self.lines]
        self.u16 = [l.encode("utf-16-le") for l in self.lines]

    def nlines(self):
        return len(self.lines)

    def linelen(self, i):
        return len(self.u16[i]) // 2

    def mid_surrogate(self, i, c):
        b = self.u16[i]
        if c <= 0 or 2 * c >= len(b):
            return False
        u = int.from_bytes(b[2 * c:2 * c + 2], "little")
        return 0xDC00 <= u <= 0xDFFF


def check_pos(doc, pos, what):
    l, c = pos["line"], pos["character"]
    if l >= doc.nlines():
        return ("outside-document", "%s %d:%d: the document has %d lines" % (what, l, c, doc.nlines()))
    if c > doc.linelen(l):
        return ("outside-document", "%s %d:%d: line %d has %d UTF-16 units" % (what, l, c, l, doc.linelen(l)))
    if doc.mid_surrogate(l, c):
        return ("splits-surrogate-pair", "%s %d:%d lies inside a surrogate pair" % (what, l, c))
    return None


def check_range(doc, r, what):
    out = []
    for nm in ("start", "end"):
        x = check_pos(doc, r[nm], what + " " + nm)
        if x:
            out.append(x)
    if (r["start"]["line"], r["start"]["character"]) > (r["end"]["line"], r["end"]["character"]):
        out.append(("start-after-end", "%s: start %d:%d after end %d:%d" % (what, r["start"]["line"], r["start"]["character"], r["end"]["line"], r["end"]["character"])))
    return out


def is_range(x):
    return isinstance(x, dict) and isinstance(x.get("start"), dict) and isinstance(x.get("end"), dict) and "line" in x["start"] and "line" in x["end"]


def walk_ranges(obj, uri=None, path=""):
    """yield (path, uri, range) for every Range found in a reply; FoldingRange as ('fold', ...)"""
    if isinstance(obj, list):
        for i, x in enumerate(obj):
            yield from walk_ranges(x, uri, path + "[]")
    elif isinstance(obj, dict):
        if is_range(obj):
            yield (path, uri, obj)
            return
        if "startLine" in obj and "endLine" in obj:
            yield (path + ".fold", uri, obj)
            return
        u = obj.get("uri", uri)
        if isinstance(obj.get("textDocument"), dict) and "uri" in obj["textDocument"]:
            u = obj["textDocument"]["uri"]
        for k, v in obj.items():
            if k == "changes" and isinstance(v, dict):
                for uk, edits in v.items():
                    yield from walk_ranges(edits, uk, path + ".changes")
            else:
                yield from walk_ranges(v, u, path + "." + k)


# ------------------------------------------------------------------ spans of the spec's lexeme table
def spans_of_line(lex):
    """all spans a range about 'that text' may equal: every lexeme, a tag name without its colon, a quoted commodity without its quotes"""
    out = set()
    for lx in lex:
        out.add((lx["c0"], lx["c1"]))
        if lx["k"] == "tagname":
            out.add((lx["c0"], lx["c1"] - 1))
            out.add((lx["c1"], lx["c1"]))          # an empty tag value is the empty text right after the colon
        if lx["k"] == "commodity" and lx["t"].startswith('"'):
            out.add((lx["c0"] + 1, lx["c1"] - 1))
        if lx["k"] == "format":
            # a display format spells its commodity inside the format lexeme: the run of characters that is not number text
            t = lx["t"]
            idx = [i for i, ch in enumerate(t) if ch not in "0123456789., "]
            if idx:
                a, b = idx[0], idx[-1] + 1
                if t[a] == '"':          # a quoted symbol may contain blanks and digits
                    b = t.rfind('"') + 1
                c0 = lx["c0"] + wcommon.u16len(t[:a])
                c1 = lx["c0"] + wcommon.u16len(t[:b])
                out.add((c0, c1))
                if t[a] == '"':
                    out.add((c0 + 1, c1 - 1))
    return out


def name_spans(lexlines, kinds, names):
    """{(line, c0, c1)} of lexemes of the kinds whose text is one of names (quoted commodities with and without quotes)"""
    out = set()
    for li, lex in enumerate(lexlines):
        for lx in lex:
            if lx["k"] not in kinds:
                continue
            t = lx["t"]
            if t in names:
                out.add((li, lx["c0"], lx["c1"]))
            if t.startswith('"') and t.endswith('"') and t[1:-1] in names:
                out.add((li, lx["c0"], lx["c1"]))
                out.add((li, lx["c0"] + 1, lx["c1"] - 1))
        if "commodity" in kinds:
            # a display format ('$1,000.00', '1 000,00 "A B"') spells its commodity inside the format lexeme
            for lx in lex:
                if lx["k"] != "format":
                    continue
                for n in names:
                    for cand in (n, '"' + n + '"'):
                        i = lx["t"].find(cand)
                        if i >= 0:
                            a = lx["c0"] + wcommon.u16len(lx["t"][:i])
                            out.add((li, a, a + wcommon.u16len(cand)))
                            if cand.startswith('"'):
                                out.add((li, a + 1, a + wcommon.u16len(cand) - 1))
    return out


def trigger_class(line, c):
    """a coarse description of what precedes column c on the line (for grouping only)"""
    b = line.encode("utf-16-le")[:2 * c]
    try:
        pre = b.decode("utf-16-le", "surrogatepass")
    except Exception:
        pre = ""
    if any(ord(ch) > 0xFFFF for ch in pre):
        return "after-astral"
    if any(ord(ch) > 0x7F for ch in pre):
        return "after-non-ascii"
    return "ascii"


# ------------------------------------------------------------------ one document
def script_ops(name, text, lexlines):
    d = Doc(text)
    edge = []
    for li, lex in enumerate(lexlines):
        cols = {0, d.linelen(li)}
        for lx in lex:
            cols.add(lx["c0"])
            cols.add(lx["c1"])
        for c in sorted(cols):
            edge.append([li, c])
    ops = [{"op": "open", "file": name, "text": text},
           {"op": "sweep", "file": name, "kinds": SWEEP_KINDS, "pastEnd": True},
           {"op": "sweep", "file": name, "kinds": EDGE_KINDS, "positions": edge}]
    for k in DOC_KINDS:
        ops.append({"op": "req", "file": name, "kind": k})
    return ops


def rel_uri(uri, dirpath):
    from urllib.parse import unquote
    uri = unquote(uri)          # URIs are percent-encoded; the case's directory may be called "my ledger 7"
    pre = "file://" + dirpath + "/"
    return uri[len(pre):] if uri.startswith(pre) else uri


def evaluate(docs, lexs, name, res, tally, generic_only=False):
    """docs: {file name: Doc}; lexs: {file name: lexeme table}; name: the opened file; res: script result"""
    divs = []
    dirpath = res.get("dir", "")
    doc = docs[name]
    lex = lexs[name]

    def add(sig, what):
        divs.append((sig, what))

    def doc_of(uri):
        if uri is None:
            return doc, name
        r = rel_uri(uri, dirpath)
        return docs.get(r), r

    def generic(feature, reply, where):
        for path, uri, r in walk_ranges(reply):
            dd, rn = doc_of(uri)
            if dd is None:
                add(feature + ":unknown-document", "%s: a range refers to %s" % (where, uri))
                continue
            tally["ranges"] += 1
            if path.endswith(".fold"):
                if r["startLine"] >= dd.nlines() or r["endLine"] >= dd.nlines():
                    add(feature + ":outside-document", "%s: fold %d..%d, the document has %d lines" % (where, r["startLine"], r["endLine"], dd.nlines()))
                if r["startLine"] > r["endLine"]:
                    add(feature + ":start-after-end", "%s: fold %d..%d" % (where, r["startLine"], r["endLine"]))
                continue
            for sig, what in check_range(dd, r, "%s %s in %s" % (where, path, rn)):
                tc = trigger_class(dd.lines[r["start"]["line"]], r["start"]["character"]) if r["start"]["line"] < dd.nlines() else "past-end"
                add("%s:%s" % (feature, sig), "%s [%s]" % (what, tc))

    steps = res["steps"]
    # published diagnostics
    for dg in steps[0].get("diags") or []:
        r = {"start": {"line": dg["sl"], "character": dg["sc"]}, "end": {"line": dg["el"], "character": dg["ec"]}}
        tally["ranges"] += 1
        for sig, what in check_range(doc, r, "diagnostic %s" % (dg["code"] or "syntax")):
            add("diagnostic:" + sig, what + " (%s)" % dg["msg"][:60])
        if dg["code"] == "UNDECLARED_COMMODITY" and dg["sl"] < len(lex) and not generic_only:
            spans = {(lx["c0"], lx["c1"]) for lx in lex[dg["sl"]] if lx["k"] == "commodity"} | \
                    {(lx["c0"] + 1, lx["c1"] - 1) for lx in lex[dg["sl"]] if lx["k"] == "commodity" and lx["t"].startswith('"')}
            if dg["sl"] == dg["el"] and (dg["sc"], dg["ec"]) not in spans:
                add("diagnostic:commodity-off-target", "UNDECLARED_COMMODITY at %d:%d-%d, commodities of that line are at %s: %r" % (dg["sl"], dg["sc"], dg["ec"], sorted(spans), doc.lines[dg["sl"]]))
    # position sweeps
    for st in steps[1:3]:
        for it in st.get("sweep") or []:
            k, l, c, reply = it["k"], it["l"], it["c"], it["r"]
            tally["requests"] += 1
            if reply is None:
                continue
            where = "%s at %d:%d" % (k, l, c)
            generic(k, reply, where)
            if l >= len(lex) or generic_only:
                continue
            line_spans = spans_of_line(lex[l])
            if k in ("hover", "prepareRename"):
                r = reply.get("range") if k == "hover" else reply
                if not r:
                    continue
                tally["on_target_checked"] += 1
                if r["start"]["line"] != l or r["end"]["line"] != l:
                    add(k + ":off-target", "%s: range %s is not on the cursor's line" % (where, fmt_range(r)))
                    continue
                span = (r["start"]["character"], r["end"]["character"])
                ok = span in line_spans and span[0] <= c <= span[1]
                if not ok:
                    tc = trigger_class(doc.lines[l], min(c, doc.linelen(l)))
                    add("%s:off-target" % k, "%s: range %d-%d is not the span of a lexeme under the cursor (lexemes of the line: %s) on %r [%s]" % (
                        where, span[0], span[1], sorted(x for x in line_spans if x[0] <= c <= x[1]) or "none here", doc.lines[l], tc))
            elif k in ("references", "rename"):
                # the symbol under the cursor, from the lexeme table
                under = [lx for lx in lex[l] if lx["k"] in ("account", "commodity", "payee") and lx["c0"] <= c <= lx["c1"]]
                if not under:
                    continue
                names = set()
                for lx in under:
                    t = lx["t"]
                    names.add(t[1:-1] if t.startswith('"') and t.endswith('"') and len(t) > 1 else t)
                kinds = {lx["k"] for lx in under}
                allowed = {}
                for fn in docs:
                    allowed[fn] = name_spans(lexs[fn], kinds, names)
                for path, uri, r in walk_ranges(reply):
                    dd, rn = doc_of(uri)
                    if dd is None or rn not in allowed or path.endswith(".fold"):
                        continue
                    tally["on_target_checked"] += 1
                    key = (r["start"]["line"], r["start"]["character"], r["end"]["character"])
                    if r["start"]["line"] != r["end"]["line"] or key not in allowed[rn]:
                        tc = trigger_class(dd.lines[r["start"]["line"]], r["start"]["character"]) if r["start"]["line"] < dd.nlines() else "past-end"
                        add("%s:off-target" % k, "%s on %s %s: location %s in %s is not an occurrence of it (line %r) [%s]" % (
                            where, sorted(kinds), sorted(names), fmt_range(r), rn, dd.lines[r["start"]["line"]] if r["start"]["line"] < dd.nlines() else None, tc))
    # document-level requests
    for st, kind in zip(steps[3:], DOC_KINDS):
        reply = st.get("reply")
        tally["requests"] += 1
        if reply is None:
            continue
        generic(kind, reply, kind)
        if generic_only:
            continue
        if kind == "documentLink":
            for ln in reply:
                r = ln["range"]
                l = r["start"]["line"]
                tally["on_target_checked"] += 1
                spans = {(lx["c0"], lx["c1"]) for lx in (lex[l] if l < len(lex) else []) if lx["k"] == "incpath"}
                if r["start"]["line"] != r["end"]["line"] or (r["start"]["character"], r["end"]["character"]) not in spans:
                    add("documentLink:off-target", "link range %s does not cover exactly the include path %s of %r" % (fmt_range(r), sorted(spans), doc.lines[l] if l < doc.nlines() else None))
        if kind == "workspaceSymbol":
            # a workspace symbol names an account (kind 5, Class), a commodity (10, Enum) or a payee (12, Function):
            # its range covers exactly one lexeme of that kind spelling that name
            lexkind = {5: "account", 10: "commodity", 12: "payee"}
            for sy in reply:
                loc = sy.get("location") or {}
                r = loc.get("range")
                dd, rn = doc_of(loc.get("uri"))
                k = lexkind.get(int(sy.get("kind") or 0))
                if not r or dd is None or rn not in lexs or k is None:
                    continue
                tally["on_target_checked"] += 1
                allowed = name_spans(lexs[rn], {k}, {sy.get("name")})
                key = (r["start"]["line"], r["start"]["character"], r["end"]["character"])
                if r["start"]["line"] != r["end"]["line"] or key not in allowed:
                    add("workspaceSymbol:off-target", "workspace symbol %s %r: range %s in %s is not an occurrence of it (line %r)" % (
                        k, sy.get("name"), fmt_range(r), rn, dd.lines[r["start"]["line"]] if r["start"]["line"] < dd.nlines() else None))
        if kind == "documentSymbol":
            # an outline symbol starts on the first line of an entry of the journal (a transaction header or a
            # directive line: a line that begins with a date or a directive lexeme)
            for sy in reply:
                r = sy.get("range")
                if not r:
                    continue
                for rr, nm in ((r, "range"), (sy.get("selectionRange") or r, "selectionRange")):
                    l0 = rr["start"]["line"]
                    tally["on_target_checked"] += 1
                    first = lex[l0][0] if l0 < len(lex) and lex[l0] else None
                    if first is None or first["c0"] != 0 or first["k"] not in ("date", "directive") or rr["start"]["character"] != 0:
                        add("documentSymbol:off-target", "outline symbol %r: its %s %s does not start at the beginning of an entry (line %r)" % (
                            sy.get("name"), nm, fmt_range(rr), doc.lines[l0] if l0 < doc.nlines() else None))
                        break
                # the name of the symbol is spelled on that first line: the directive's subject or the header's date
                l0 = r["start"]["line"]
                if l0 < len(lex) and lex[l0] and lex[l0][0]["c0"] == 0:
                    nm = sy.get("name") or ""
                    fl = lex[l0]
                    if fl[0]["k"] == "date":
                        import re as _re
                        m = _re.match(r"(\d+)[-/.](\d+)[-/.](\d+)$", fl[0]["t"])
                        want = "%04d-%02d-%02d" % tuple(int(x) for x in m.groups()) if m else None
                        if want and not nm.startswith(want):
                            add("documentSymbol:wrong-entry", "outline symbol %r lies on the transaction of %r" % (nm, doc.lines[l0]))
                    elif fl[0]["t"] in ("account", "commodity", "include") and len(fl) > 1 and nm.startswith(fl[0]["t"] + " "):
                        subj = nm[len(fl[0]["t"]) + 1:]
                        texts = [x["t"] for x in fl[1:]] + [x["t"][1:-1] for x in fl[1:] if x["t"].startswith('"')]
                        if not any(subj == t or (x_k == "format" and subj and subj in t) for t, x_k in [(x["t"], x["k"]) for x in fl[1:]] + [(t, "") for t in texts]):
                            add("documentSymbol:wrong-entry", "outline symbol %r lies on the directive %r" % (nm, doc.lines[l0]))
        if kind in ("documentSymbol", "foldingRange"):
            ivs = []
            if kind == "documentSymbol":
                for s in reply:
                    r = s.get("range") or (s.get("location") or {}).get("range")
                    if r:
                        ivs.append(((r["start"]["line"], r["start"]["character"]), (r["end"]["line"], r["end"]["character"]), s.get("name")))
            else:
                for s in reply:
                    ivs.append(((s["startLine"], 0), (s["endLine"], 1 << 30), "fold %d..%d" % (s["startLine"], s["endLine"])))
            bad = partial_overlap(ivs)
            if bad:
                add(kind + ":partial-overlap", "%s and %s partially overlap" % bad)
    seen = set()
    return [(s, w) for s, w in divs if not (s in seen or seen.add(s))]


def partial_overlap(ivs):
    for i in range(len(ivs)):
        for j in range(i + 1, len(ivs)):
            (a0, a1, an), (b0, b1, bn) = ivs[i], ivs[j]
            if a1 <= b0 or b1 <= a0:
                continue          # disjoint (touching allowed)
            if (a0 <= b0 and b1 <= a1) or (b0 <= a0 and a1 <= b1):
                continue          # nested
            return ("%s [%d:%d..%d:%d]" % (an, a0[0], a0[1], a1[0], min(a1[1], 99999)), "%s [%d:%d..%d:%d]" % (bn, b0[0], b0[1], b1[0], min(b1[1], 99999)))
    return None


def fmt_range(r):
    return "%d:%d-%d:%d" % (r["start"]["line"], r["start"]["character"], r["end"]["line"], r["end"]["character"])


# ------------------------------------------------------------------ cases
def gen(run):
    thorough = run.tier == "thorough"
    singles = []
    r = run.tlc_simulate_many("JournalGen", jcommon.gen_cfg("random", 8, True), 60 if not thorough else 1500, 2, procs=8)
    seen = set()
    for c in r:
        k = json.dumps(c["lines"], ensure_ascii=False)
        if k not in seen and c.get("eol", "LF") == "LF":
            seen.add(k)
            singles.append(c)
    for fam, cap in (("headers", 120), ("postings", 120), ("pairs", 80), ("desc-chars", 100), ("lexicon", 120)):
        cs = run.tlc("JournalGen", jcommon.gen_cfg(fam, 6, True), workers=8, timeout=2400).json
        cs = [c for c in cs if not c["trig"]]
        if not thorough or len(cs) > cap * 10:
            cs = run.rng.sample(cs, min(len(cs), cap if not thorough else cap * 10))
        singles += cs
    works = wcommon.gen(run, 12 if not thorough else 300, maxtx=2)
    return singles, works


def main(args):
    run = vf.Run("C08", args.tier, args.seed, level="exploration")
    tally = collections.Counter()
    if args.replay:
        with open(args.replay) as f:
            rp = json.load(f)
        items = [rp["case"]]
    else:
        singles, works = gen(run)
        items = []
        for c in singles:
            items.append({"kind": "single", "files": {"doc.journal": jcommon.text_of(c, "LF", True)}, "lex": {"doc.journal": c["lex"]}, "open": "doc.journal", "ws": False})
        for c in works:
            files = wcommon.files_of(c)
            lex = {f["name"]: f["lex"] for f in c["files"]}
            for ws in (False, True):
                for f in c["files"]:
                    items.append({"kind": "workspace", "files": files, "lex": lex, "open": f["name"], "ws": ws})
    # a problem with an include directive INSIDE an included file (its target does not exist), far below the length of the
    # root document: whatever is published about it for the root must still be a range of the root
    if not args.replay:
        extra = []
        for it in items:
            if it["kind"] == "workspace" and it["open"] == "main.journal" and len(it["files"]) >= 2 and len(extra) < 8:
                inc = sorted(n for n in it["files"] if n != "main.journal")[0]
                if ("include " + inc.split("/")[-1]) not in it["files"]["main.journal"] and ("include " + inc) not in it["files"]["main.journal"]:
                    continue
                files = dict(it["files"])
                files[inc] = files[inc] + "; pad\n" * 80 + "include nosuchfile.journal\n"
                extra.append({"kind": "workspace", "files": files, "lex": it["lex"], "open": "main.journal", "ws": it["ws"], "trigger": "nested-include-problem"})
        items += extra
    # damaged journals (Damage.tla): no lexeme table is claimed for them, but whatever the server reports about them must
    # still be a range of the document (inside it, start <= end, no surrogate pair split)
    if not args.replay:
        import fcommon
        thorough = run.tier == "thorough"
        for bc in fcommon.gen_broken(run, 10 if not thorough else 120, 40):
            text = fcommon.text_of_lines(bc["lines"])
            if isinstance(text, bytes):
                try:
                    text = text.decode("utf-8")
                except UnicodeDecodeError:
                    continue
            items.append({"kind": "damaged", "files": {"doc.journal": text}, "lex": {"doc.journal": []}, "open": "doc.journal", "ws": False})
    hcs = []
    for i, it in enumerate(items):
        files = dict(it["files"]) if it["kind"] == "workspace" else {}
        hcs.append({"id": str(i), "files": files, "workspace": it["ws"], "settings": SETTINGS,
                    "ops": script_ops(it["open"], it["files"][it["open"]], it["lex"][it["open"]])})
    results = run.harness("script", hcs, timeout=3400)
    table = collections.Counter()
    for it, res in zip(items, results):
        run.count(vf.digest([it["files"], it["open"], it["ws"]]), True)
        if "panic" in res:
            run.diverge("panic", "server panicked: " + res["panic"][:300], it, None)
            continue
        docs = {n: Doc(t) for n, t in it["files"].items()}
        lexs = {}
        for n in it["files"]:
            lx = list(it["lex"][n])
            while len(lx) < docs[n].nlines():
                lx.append([])
            lexs[n] = lx
        for sig, what in evaluate(docs, lexs, it["open"], res, tally, generic_only=it["kind"] == "damaged"):
            if it["kind"] == "damaged":
                sig = "damaged-input:" + sig
            table[sig] += 1
            run.diverge(sig, what, it, None, trigger=it.get("trigger"))
    if os.environ.get("VERIF_TABLE"):
        for k, n in sorted(table.items(), key=str):
            print("TABLE", k, n)
    run.traces_validated = len(items)
    run.extra.update({k: v for k, v in tally.items()})
    run.sample({"opened": items[0]["open"], "text": items[0]["files"][items[0]["open"]], "lexemes_line_1": items[0]["lex"][items[0]["open"]][:2]})
    run.rule = ("one evaluation per (document, workspace root on/off): every cursor position of every line x 5 position requests, every lexeme boundary x 2 completion requests, "
                "4 document requests, published diagnostics; distinct by (files, opened file, root)")
    run.assumptions = ["positions inside a surrogate pair are not sent", "a range about a quoted commodity may include or exclude the quotes; a tag name's range excludes its colon",
                       "a definition answer may cover the whole declaring directive (generic validity only)",
                       "a line index equal to the number of newline characters (the empty last line) is inside the document"]
    run.finish(confirm=lambda d: confirm(run, d))


def confirm(run, d):
    it = d["case"]
    hc = {"id": "0", "files": dict(it["files"]) if it["kind"] == "workspace" else {}, "workspace": it["ws"], "settings": SETTINGS,
          "ops": script_ops(it["open"], it["files"][it["open"]], it["lex"][it["open"]])}
    res = run.harness("script", [hc])[0]
    if "panic" in res:
        return d["sig"] == "panic"
    docs = {n: Doc(t) for n, t in it["files"].items()}
    lexs = {}
    for n in it["files"]:
        lx = list(it["lex"][n])
        while len(lx) < docs[n].nlines():
            lx.append([])
        lexs[n] = lx
    go = it["kind"] == "damaged"
    return any((("damaged-input:" + sig) if go else sig) == d["sig"] for sig, _ in evaluate(docs, lexs, it["open"], res, collections.Counter(), generic_only=go))
