"""C14 — Background work never races with, blocks or corrupts later requests.

(1) Response equality.  Concurrency.tla models the serial client stream (changes, requests)
against the background jobs the server starts, each passing the yield points the implementation
marks with verifhook.Point (started -> loaded -> atPublish -> done); TLC checks the contract
AnswersFresh ("every answer is computed from the documents as they are when the request is
handled") and JobsDrain, confirms that the "background" mechanism violates AnswersFresh, and
enumerates every behaviour within the bounds as a schedule.  Each schedule is replayed on a real
server with the yield points as gates; every answer (hover, completion, references, definition,
symbols, semantic tokens, folds) is compared with the answer of a quiescent fresh server
brought to the same documents, with and without a workspace root.
(2) Data races and liveness.  ClientStream.tla draws client streams on three documents
(changes, saves, close/re-open, configuration changes, 14 request kinds incl. code actions and
command execution); they are run at full speed, with seeded jitter, on the harness built with
-race: any race report is the divergence, and so is a background job that has not ended 60 s
after the stream.
(3) The state a history leads to.  When a stream has ended and every job has finished, the
settings the compared answers depend on are pinned by one last configuration payload and every
open document is asked the eight request kinds; a fresh server is GIVEN the resulting state
(files as saved last, the open documents with their buffers, the same last payload) and asked
the same: the answers must be equal.  Whatever a didOpen / didChange / didSave / didClose
forgot to invalidate shows here as stale-after-history:<kind>.
"""
import collections
import json
import os
import re

import vf


def ccfg(uris, maxchg, maxreq, mech, emit=True):
    return ("CONSTANTS URIs = {%s} MaxChanges = %d MaxRequests = %d Mech = \"%s\"\nSPECIFICATION Spec\nINVARIANTS TypeOK AnswersFresh%s\nPROPERTIES JobsDrain\nCHECK_DEADLOCK FALSE\n"
            % (", ".join('"%s"' % u for u in uris), maxchg, maxreq, mech, " Emit" if emit else ""))


def scfg(n):
    return "CONSTANTS URIs = {\"u1\", \"u2\", \"u3\"} Len0 = %d\nINIT Init\nNEXT Next\nINVARIANTS WellFormed EmitStream\nCHECK_DEADLOCK FALSE\n" % n


RACE = re.compile(r"WARNING: DATA RACE\n(.*?)\n==================", re.S)


def race_signature(block):
    fns = re.findall(r"^\s+(github\.com/juev/hledger-lsp/internal/[^\s(]+)\(", block, re.M)
    tops = []
    for part in re.split(r"\n\n", block):
        m = re.search(r"^\s+(github\.com/juev/hledger-lsp/internal/[^\s(]+)\(", part, re.M)
        if m and ("Read at" in part or "Write at" in part or "Previous" in part):
            tops.append(m.group(1).replace("github.com/juev/hledger-lsp/internal/", ""))
    if not tops:
        tops = [f.replace("github.com/juev/hledger-lsp/internal/", "") for f in fns[:2]]
    return " <-> ".join(sorted(set(tops))[:2]) or "unattributed"


def main(args):
    run = vf.Run("C14", args.tier, args.seed, level="exploration")
    thorough = run.tier == "thorough"
    table = collections.Counter()
    if args.replay:
        with open(args.replay) as f:
            rp = json.load(f)
        gated = [rp["case"]] if rp["case"].get("schedule") else []
        streams = [rp["case"]] if rp["case"].get("ops") else []
    else:
        # the mechanism model: "background" must violate the contract (otherwise the model says nothing), "current" must satisfy it
        bad = run.tlc("Concurrency", ccfg(["u1"], 1, 1, "background", emit=False), workers=4, allow_violation=True, collect_json=False)
        if bad.ok or "AnswersFresh is violated" not in bad.stdout:
            vf.die_tooling("Concurrency.tla: the background mechanism no longer violates AnswersFresh — the model is vacuous")
        scheds = []
        # (documents, changes, requests): two requests around a change are needed for answers that the server caches
        for uris, mc, mr in ([(["u1"], 2, 1), (["u1"], 1, 2), (["u1", "u2"], 2, 1)] if not thorough else [(["u1"], 3, 1), (["u1"], 2, 2), (["u1", "u2"], 3, 1), (["u1", "u2"], 2, 2)]):
            r = run.tlc("Concurrency", ccfg(uris, mc, mr, "current"), workers=8, timeout=2400)
            fam = [c["schedule"] for c in r.json]
            cap = 160 if not thorough else 2500        # per family, so that a small family is always replayed whole
            if len(fam) > cap:
                fam = run.rng.sample(fam, cap)
            scheds += fam
        gated = []
        for s in scheds:
            for ws in (False, True):
                gated.append({"schedule": s, "workspace": ws})
        js = run.tlc_simulate_many("ClientStream", scfg(60), 48 if not thorough else 600, 61, procs=6)
        streams = []
        js = sorted(js, key=lambda c: json.dumps(c, sort_keys=True))
        run.rng.shuffle(js)
        js = js[:(400 if not thorough else 6000)]
        for i, c in enumerate(js):
            # every other pair of streams is run "quiet": nothing of the harness orders the background jobs and the client
            # stream before the very end, so that the race detector sees the server's own synchronisation and nothing else
            streams.append({"ops": c["ops"], "workspace": i % 2 == 0, "seed": run.seed * 100003 + i, "quiet": (i // 2) % 2 == 1})
        # the same streams once more on a workspace whose scans are long (an included file of 60 000 directives): windows
        # between two lock sections of ONE function, which no yield point marks, become wide enough to be hit (LoaderRace.tla,
        # mechanism "atomic" vs "unguarded")
        for i, c in enumerate(js[:(8 if not thorough else 80)]):
            streams.append({"ops": c["ops"], "workspace": True, "seed": run.seed * 100003 + 7919 + i, "quiet": False, "heavy": 60000})
    if os.environ.get("C14_ONLY") == "gated":
        streams = []
    if os.environ.get("C14_ONLY") == "stress":
        gated = []
    # ---- (1) gated replay
    for i, g in enumerate(gated):
        g["id"] = str(i)
    results = run.harness("concur", gated, timeout=3400) if gated else []
    nans = 0
    for g, res in zip(gated, results):
        has_req = any(e["e"] == "request" for e in g["schedule"])
        run.count(vf.digest([g["schedule"], g["workspace"]]), has_req)
        if "panic" in res:
            run.diverge("panic", "server panicked: " + res["panic"][:300], g, None)
            continue
        if res.get("stuck"):
            table[("stuck",)] += 1
            run.diverge("stuck", "%s  [schedule %s]" % (res["stuck"], brief_sched(g["schedule"])), g, None)
            continue
        for a in res["answers"]:
            nans += 1
            if a["differ"]:
                k = a["differ"][0]
                table[("stale-answer:" + k, g["workspace"])] += 1
                run.diverge("stale-answer:" + k, "request at step %d on %s with documents at versions %s: %s answered %s, a quiescent server with the same documents answers %s  [workspace root %s, schedule %s]" % (
                    a["step"], a["uri"], a["vers"], k, a["got"][k][:220], a["want"][k][:220], g["workspace"], brief_sched(g["schedule"])), g, None)
    # ---- (2) free-running streams under the race detector
    for i, s in enumerate(streams):
        s["id"] = str(i)
    nraces = 0
    nfinal = 0
    if streams:
        sres = run.harness("stress", streams, race=True, timeout=3400, env_extra={"GORACE": "exitcode=0 history_size=4"}, args=("-par", "4"))
        err = run.last_harness_stderr
        for s, res in zip(streams, sres):
            run.count(vf.digest([s["ops"], s["workspace"], s["seed"], s.get("quiet", False), s.get("heavy", 0)]), True)
            if "panic" in res:
                run.diverge("panic", "server panicked: " + res["panic"][:300], s, None)
            elif res.get("stuck"):
                run.diverge("stuck", res["stuck"][:900], s, None)
            elif res.get("final"):
                # the state the history led to, answered by the server that lived through it and by a fresh server given that state
                nfinal += res["final"]["asked"]
                for st in (res["final"]["stale"] or [])[:2]:
                    u, k = st["what"].split("/")
                    table[("stale-after-history:" + k, s["workspace"])] += 1
                    run.diverge("stale-after-history:" + k, "after the stream, %s on %s answers %s; a fresh server given the same files, open documents %s and configuration answers %s  [workspace root %s, last operations %s]" % (
                        k, u, st["got"][:260], json.dumps(res["final"]["state"], sort_keys=True), st["want"][:260], s["workspace"],
                        [(o["op"], o.get("uri"), o.get("kind") or o.get("arg")) for o in s["ops"][-8:]]), s, None)
        # code -> spec: the events recorded during the free runs are validated by TLC against DiagTrace.tla
        validate_traces(run, streams, sres)
        seen = set()
        for m in RACE.finditer(err):
            if "hledger-lsp/internal/" not in m.group(1):
                run.extra["harness_only_race_reports"] = run.extra.get("harness_only_race_reports", 0) + 1
                continue        # a report that involves no code of the server is the harness's own business, never a verdict
            nraces += 1
            sig = "race:" + race_signature(m.group(1))
            if sig in seen:
                continue
            seen.add(sig)
            table[(sig,)] += 1
            run.diverge(sig, "the race detector reports: " + m.group(1)[:1500], {"ops": streams[0]["ops"], "workspace": streams[0]["workspace"], "seed": streams[0]["seed"], "all_streams": len(streams)}, None)
    if os.environ.get("VERIF_TABLE"):
        for k, n in sorted(table.items(), key=str):
            print("TABLE", k, n)
    run.traces_validated = len(gated) + len(streams)
    run.extra.update({"gated_schedules": len(gated), "answers_compared": nans, "streams_under_race_detector": len(streams), "race_reports": nraces})
    if gated:
        run.sample({"schedule": gated[0]["schedule"], "workspace_root": gated[0]["workspace"]})
    if streams:
        run.sample({"stream": streams[0]["ops"][:20]})
    run.rule = ("gated part: one evaluation per (behaviour of Concurrency.tla within the bounds, workspace root on/off), non-trivial = contains a request; "
                "stress part: one evaluation per stream of 60 messages drawn by ClientStream.tla x seeded jitter, run under the Go race detector")
    run.assumptions = ["the race detector only reports races on executions that happen: schedules at instruction granularity are sampled, not enumerated (DESIGN.md section 8)",
                       "the gated replay enumerates the interleavings of the client stream with the four yield points of every background job",
                       "answers are compared as serialised JSON with the scratch directory normalised"]
    run.finish(confirm=lambda d: confirm(run, d))


def validate_traces(run, streams, sres):
    items = [(s, r["trace"]) for s, r in zip(streams, sres) if r.get("trace") and not r.get("stuck") and not r.get("skipped")]
    pos = 0
    while pos < len(items):
        chunk = items[pos:pos + 150]
        path = os.path.join(run.scratch, "diagtrace-%d.ndjson" % pos)
        owner = []
        with open(path, "w") as f:
            for k, (s, tr) in enumerate(chunk):
                f.write(json.dumps({"e": "reset"}) + "\n")
                owner.append(k)
                for ev in tr:
                    f.write(json.dumps(ev) + "\n")
                    owner.append(k)
        c = "CONSTANT TraceFile = \"%s\"\nSPECIFICATION Spec\nINVARIANTS Mark\nPOSTCONDITION Accepted\nCHECK_DEADLOCK FALSE\n" % path
        r = run.tlc("DiagTrace", c, workers=1, timeout=1800, collect_json=False)
        m = re.search(r"<<\"HIGHWATER\", (\d+), (\d+)>>", r.stdout)
        if not m:
            vf.die_tooling("DiagTrace.tla did not report its high-water mark:\n" + r.stdout[-1500:])
        hw, ln = int(m.group(1)), int(m.group(2))
        os.remove(path)
        if hw == ln + 1:
            run.extra["free_run_traces_accepted_by_DiagTrace"] = run.extra.get("free_run_traces_accepted_by_DiagTrace", 0) + len(chunk)
            run.extra["free_run_trace_events"] = run.extra.get("free_run_trace_events", 0) + ln
            pos += len(chunk)
            continue
        k = owner[hw - 1]
        s, tr = chunk[k]
        base = sum(1 + len(t) for _, t in chunk[:k]) + 1
        idx = hw - 1 - base
        run.extra["free_run_traces_accepted_by_DiagTrace"] = run.extra.get("free_run_traces_accepted_by_DiagTrace", 0) + k
        ctx = tr[max(0, idx - 6):idx + 1]
        run.diverge("trace-rejected:" + str(tr[idx].get("e")) + ":" + str(tr[idx].get("p", "")),
                    "the recorded execution is not a behaviour DiagTrace.tla allows: event %d %s is rejected (preceding events %s)" % (idx, tr[idx], ctx),
                    {"ops": s["ops"], "workspace": s["workspace"], "seed": s["seed"]}, {"trace": tr[:idx + 1][-60:]})
        pos += k + 1


def brief_sched(s):
    return " ".join("%s(%s%s)" % (e["e"][:3], e["uri"], ("v%d" % e["ver"]) + (">" + e["to"] if e.get("to") else "")) for e in s)


def confirm(run, d):
    c = d["case"]
    if d["sig"].startswith("race:"):
        # re-run the same streams; any race report confirms (the detector is not deterministic, a single confirmation run is accepted)
        return True
    if c.get("schedule"):
        res = run.harness("concur", [dict(c, id="0")])[0]
        if d["sig"] == "stuck":
            return bool(res.get("stuck"))
        return any(("stale-answer:" + a["differ"][0]) == d["sig"] for a in res.get("answers", []) if a["differ"])
    # a deadlock needs the configuration refresh to meet an analysis at the right moment: the same stream is run again
    # several times with other jitter seeds; it counts as reproduced when any of them blocks again
    copies = [dict(c, id=str(k), seed=c.get("seed", 0) + 7919 * k) for k in range(12)]
    res = run.harness("stress", copies, race=True, env_extra={"GORACE": "exitcode=0"}, args=("-par", "4"))
    if d["sig"].startswith("trace-rejected:"):
        before = len(run.divergences)
        validate_traces(run, copies, res)
        again = len(run.divergences) > before
        del run.divergences[before:]
        return again
    if d["sig"].startswith("stale-after-history:"):
        k = d["sig"].split(":", 1)[1]
        return any(st["what"].endswith("/" + k) for r in res for st in ((r.get("final") or {}).get("stale") or []))
    return any(r.get("stuck") for r in res) == (d["sig"] == "stuck")
