"""C15 — Responses are a function of workspace state (determinism).

The contract is that every reply is F(kind, state).  WorkspaceFiles.tla (Extra = TRUE) simulates
workspaces that meet the quantifier's preconditions by construction: every file carries a
transaction with three commodities out of balance, all files use one payee with different
postings (different payee templates), accounts, payees, tags and commodities are shared across
2..4 included files, and several documents are open.  For each workspace, with and without a
workspace root, one fixed client script (open every file; completion with nothing typed in
payee / account / commodity / tag contexts and inline completion on a probe document that
includes the root; hover, definition, references on the first symbols of each file; document
symbols, folds, links, semantic tokens, formatting per file; workspace symbols) is run with
every request repeated 50 times on one server, on 12 fresh servers in one process, and in 4
fresh processes.  Every reply and every published diagnostic list (messages included) is
serialised canonically and must be byte-identical across all repetitions.

History part: Lifecycle.tla models files, open documents and editor buffers under change / save /
close / re-open notifications with the view a request must be answered from (buffer if open, file
otherwise); TLC checks that the repaired mechanism keeps the server's knowledge equal to the view and
that ignoring didOpen or didClose does not; every history to a depth is replayed serially and the
server that lived through it must answer like a fresh server that is given the resulting state.
"""
import collections
import json
import os

import vf
import wcommon

HEAD = "include main.journal\n\n"
SAME = 50
FRESH = 12
PROCS = 4


def build(c, ws):
    files = wcommon.files_of(c)
    accts = sorted(r["account"] for r in c["tables"][0]["postings"])
    anyacct = accts[0] if accts else "assets:bank"
    files["probe.journal"] = HEAD
    ops = []
    for f in c["files"]:
        ops.append({"op": "open", "file": f["name"], "text": files[f["name"]]})
    ops.append({"op": "open", "file": "probe.journal", "text": HEAD})
    rep = SAME

    def req(file, kind, line=0, ch=0):
        ops.append({"op": "req", "file": file, "kind": kind, "line": line, "char": ch, "repeat": rep})

    t1 = HEAD + "2025-01-01 rent\n"
    ops.append({"op": "change", "file": "probe.journal", "text": t1})
    req("probe.journal", "completion", 2, 11)
    req("probe.journal", "inlineCompletion", 3, 0)
    t2 = HEAD + "2025-01-01 rent\n    "
    ops.append({"op": "change", "file": "probe.journal", "text": t2})
    req("probe.journal", "completion", 3, 4)
    pre = "    " + anyacct + "  10 "
    ops.append({"op": "change", "file": "probe.journal", "text": HEAD + "2025-01-01 rent\n" + pre})
    req("probe.journal", "completion", 3, wcommon.u16len(pre))
    ops.append({"op": "change", "file": "probe.journal", "text": HEAD + "2025-01-01 rent  ; "})
    req("probe.journal", "completion", 2, 19)
    for f in c["files"]:
        n = f["name"]
        for kind in ("documentSymbol", "foldingRange", "documentLink", "semanticTokensFull", "formatting"):
            req(n, kind)
        seen = set()
        kinds_seen = set()
        for o in sorted(f["occ"], key=lambda o: (o["line"], o["c0"])):
            if (o["k"], o["name"]) in seen:
                continue
            seen.add((o["k"], o["name"]))
            col = o["c0"] + (1 if o["quoted"] else 0)
            # definition for every symbol of the file (its answer may be "the earliest use", which can tie across files);
            # the heavier requests once per kind of symbol
            req(n, "definition", o["line"] - 1, col)
            if o["k"] not in kinds_seen:
                kinds_seen.add(o["k"])
                for kind in ("hover", "references", "rename"):
                    req(n, kind, o["line"] - 1, col)
    req("probe.journal", "workspaceSymbol")
    return {"files": files, "workspace": ws, "ops": ops}


def canon(x, dirpath):
    s = json.dumps(x, sort_keys=True, ensure_ascii=False)
    if not dirpath:
        return s
    import re
    from urllib.parse import unquote
    # URIs are percent-encoded, and not by one rule (the client's spelling and the server's differ for "R&D"): decode them
    s = re.sub(r'file://[^"\\\s]*', lambda m: unquote(m.group(0)), s)
    return s.replace(dirpath, "<DIR>")


def describe(op):
    if op["op"] == "req":
        return "%s on %s at %d:%d" % (op["kind"], op["file"], op.get("line", 0), op.get("char", 0))
    return "%s %s" % (op["op"], op.get("file", ""))


def evaluate(hc, runs):
    """runs: list of script results (one per fresh server / process) for the same case"""
    divs = []
    nsteps = len(hc["ops"])
    for si in range(nsteps):
        op = hc["ops"][si]
        variants = collections.OrderedDict()
        diagvars = collections.OrderedDict()
        for r in runs:
            d = r.get("dir", "")
            st = r["steps"][si]
            if op["op"] == "req":
                reps = st.get("replies")
                if reps is None:
                    reps = [st.get("reply")]
                for x in reps:
                    variants.setdefault(canon(x, d), 0)
                    variants[canon(x, d)] += 1
            if op["op"] in ("open", "change"):
                k = canon(st.get("diags") or [], d)
                diagvars.setdefault(k, 0)
                diagvars[k] += 1
        if len(variants) > 1:
            vs = list(variants.items())
            a, b = vs[0][0], vs[1][0]
            i = next((k for k in range(min(len(a), len(b))) if a[k] != b[k]), 0)
            divs.append(("nondeterministic:" + op["kind"], "%s: %d different replies over %d repetitions, e.g. ...%s... vs ...%s..." % (
                describe(op), len(variants), sum(variants.values()), a[max(0, i - 60):i + 80], b[max(0, i - 60):i + 80])))
        if len(diagvars) > 1:
            vs = list(diagvars.items())
            a, b = vs[0][0], vs[1][0]
            i = next((k for k in range(min(len(a), len(b))) if a[k] != b[k]), 0)
            divs.append(("nondeterministic:diagnostics", "%s: %d different published diagnostic lists over %d servers, e.g. ...%s... vs ...%s..." % (
                describe(op), len(diagvars), sum(diagvars.values()), a[max(0, i - 60):i + 80], b[max(0, i - 60):i + 80])))
    seen = set()
    return [(s, w) for s, w in divs if not (s in seen or seen.add(s))]


def run_all(run, hcs):
    """each case on FRESH servers per process, in PROCS processes; returns per case the list of results"""
    per_case = [[] for _ in hcs]
    for p in range(PROCS):
        batch = []
        for i, hc in enumerate(hcs):
            for k in range(FRESH // PROCS):
                batch.append(dict(hc, id="%d-%d-%d" % (i, p, k)))
        res = run.harness("script", batch, timeout=3400)
        j = 0
        for i, hc in enumerate(hcs):
            for k in range(FRESH // PROCS):
                per_case[i].append(res[j])
                j += 1
    return per_case


def lcfg(maxops, mech, emit):
    return ("CONSTANTS Docs = {\"u1\", \"u2\", \"u3\"} Root = \"u1\" MaxOps = %d Mech = \"%s\"\nSPECIFICATION Spec\nINVARIANTS TypeOK KnownIsView%s\nCHECK_DEADLOCK FALSE\n"
            % (maxops, mech, " Emit" if emit else ""))


def histories(run):
    """Lifecycle.tla: every history of notifications (change / save / close / re-open on three documents, u1 including the
    other two) up to a depth, as serial streams for the stress harness; the verdict is its final-state comparison."""
    thorough = run.tier == "thorough"
    for mech in ("open-ignored", "close-ignored"):
        bad = run.tlc("Lifecycle", lcfg(3, mech, False), workers=4, allow_violation=True, collect_json=False)
        if bad.ok or "Invariant KnownIsView is violated" not in bad.stdout:
            vf.die_tooling("Lifecycle.tla: the mechanism %s no longer violates KnownIsView — the model is vacuous" % mech)
    # unbounded: KnownIsView (with TypeOK) is an inductive invariant of the repaired mechanism (Apalache, LifecycleInd.tla)
    run.apalache_inductive("LifecycleInd")
    out = []
    for depth, cap in ([(3, None), (4, 1500)] if not thorough else [(4, None), (5, 12000)]):
        r = run.tlc("Lifecycle", lcfg(depth, "repaired", True), workers=8, timeout=2400)
        hs = r.json
        if cap and len(hs) > cap:
            hs = run.rng.sample(hs, cap)
        out += hs
    streams = []
    for i, h in enumerate(out):
        streams.append({"ops": [{"op": o["op"], "uri": o["uri"], "kind": "", "arg": 0} for o in h["ops"]], "workspace": i % 2 == 0,
                        "seed": 0, "serial": True, "expect": {"disk": h["disk"], "open": h["open"], "ed": h["ed"], "inc": sorted(h["inc"]), "dinc": sorted(h["dinc"])}})
    return streams


def judge_histories(run, streams, table):
    res = run.harness("stress", [dict(s, id=str(i)) for i, s in enumerate(streams)], timeout=3400, args=("-par", "8"))
    n = 0
    for s, r in zip(streams, res):
        run.count(vf.digest([s["ops"], s["workspace"]]), True)
        if "panic" in r:
            run.diverge("panic", "server panicked: " + r["panic"][:300], {"history": s}, None)
            continue
        if r.get("stuck"):
            vf.die_tooling("serial history did not run to its end: " + r["stuck"][:300])
        fin = r.get("final") or {}
        n += fin.get("asked", 0)
        got = fin.get("state") or {}
        want_open = {u: bool(v) for u, v in s["expect"]["open"].items()}
        want_inc = {u: u in s["expect"].get("inc", ["u2", "u3"]) for u in ("u2", "u3")}
        if got and (got.get("open") != want_open or got.get("versions") != s["expect"]["ed"] or got.get("inc", want_inc) != want_inc):
            vf.die_tooling("the harness reached state %s, Lifecycle.tla says %s" % (got, s["expect"]))
        for st in (fin.get("stale") or [])[:2]:
            u, k = st["what"].split("/")
            table[("history-dependent:" + k, s["workspace"])] += 1
            run.diverge("history-dependent:" + k, "after %s, %s on %s answers %s; a fresh server given files %s, open documents %s with texts %s answers %s  [workspace root %s]" % (
                [(o["op"], o["uri"]) for o in s["ops"]], k, u, st["got"][:240], s["expect"]["disk"], s["expect"]["open"], s["expect"]["ed"], st["want"][:240], s["workspace"]),
                {"history": s}, None)
    return n


def main(args):
    run = vf.Run("C15", args.tier, args.seed, level="exploration")
    thorough = run.tier == "thorough"
    table = collections.Counter()
    if args.replay:
        with open(args.replay) as f:
            rp = json.load(f)
        if "history" in rp["case"]:
            judge_histories(run, [rp["case"]["history"]], table)
            run.rule = "replay of one notification history of Lifecycle.tla"
            return run.finish(confirm=lambda d: confirm(run, d))
        combos = [(rp["case"]["spec_case"], rp["case"]["ws"])]
    else:
        # history independence: the same state reached along any history of notifications gives the answers of a fresh server
        streams = histories(run)
        run.extra["history_requests_compared"] = judge_histories(run, streams, table)
        run.extra["histories"] = len(streams)
        cases = [c for c in wcommon.gen(run, 24 if not thorough else 300, maxtx=2, extra=True) if len(c["files"]) >= 2][:(10 if not thorough else 150)]
        if not cases:
            vf.die_tooling("WorkspaceFiles.tla produced no workspace with two or more files")
        combos = [(c, ws) for c in cases for ws in (False, True)]
    hcs = [build(c, ws) for c, ws in combos]
    per_case = run_all(run, hcs)
    nreq = 0
    for (c, ws), hc, runs in zip(combos, hcs, per_case):
        run.count(vf.digest([hc["files"], ws]), True)
        case = {"spec_case": c, "ws": ws}
        pan = [r for r in runs if "panic" in r]
        if pan:
            run.diverge("panic", "server panicked: " + pan[0]["panic"][:300], case, None)
            continue
        nreq += sum(1 for o in hc["ops"] if o["op"] == "req") * SAME * len(runs)
        for sig, what in evaluate(hc, runs):
            table[(sig, ws)] += 1
            run.diverge(sig, "%s  [workspace root %s, files %s]" % (what, ws, [f["name"] for f in c["files"]]), case, None)
    if os.environ.get("VERIF_TABLE"):
        for k, n in sorted(table.items(), key=str):
            print("TABLE", k, n)
    run.traces_validated = len(combos)
    run.extra["requests_issued"] = nreq
    run.extra["repetitions"] = {"same_server": SAME, "fresh_servers": FRESH, "processes": PROCS}
    c = combos[0][0]
    run.sample({"files": wcommon.files_of(c), "script": [describe(o) for o in hcs[0]["ops"]][:30]})
    run.rule = ("one evaluation per (workspace simulated by WorkspaceFiles.tla with the C15 transaction in every file, workspace root on/off): a fixed script of requests, each repeated "
                "%d times on %d fresh servers in %d processes; distinct by (files, root); plus one evaluation per notification history enumerated by Lifecycle.tla (every "
                "history of 3..4 [thorough 4..5] change / save / close / re-open notifications on three documents), whose final state is also given to a fresh server" % (SAME, FRESH, PROCS))
    run.assumptions = ["hash-map iteration order is sampled by repetition, not enumerated: a result assembled from k >= 2 map entries shows a second order within 50 repetitions with probability >= 1 - 2^-49",
                       "date completion items derived from the clock are not requested (the probe contexts are payee, account, commodity and tag)",
                       "scratch directory names are normalised before comparison"]
    run.finish(confirm=lambda d: confirm(run, d))


def confirm(run, d):
    if "history" in d["case"]:
        r = run.harness("stress", [dict(d["case"]["history"], id="0")])[0]
        k = d["sig"].split(":", 1)[1]
        return any(st["what"].endswith("/" + k) for st in ((r.get("final") or {}).get("stale") or []))
    c, ws = d["case"]["spec_case"], d["case"]["ws"]
    hc = build(c, ws)
    runs = run_all(run, [hc])[0]
    if any("panic" in r for r in runs):
        return d["sig"] == "panic"
    return any(sig == d["sig"] for sig, _ in evaluate(hc, runs))
