"""C17 — Semantic tokens cover their lexemes and deltas reconstruct the full result.

History part: TLC explores SemTokens.tla (full / range / delta protocol with a client that
reconstructs arrays from replies) and checks ClientOK and IdsUnique on the mechanism model;
every behaviour (exhaustive to depth 5, simulated to depth 10) is replayed on a real server
with two documents: after every full/delta reply the array the client rebuilt must equal a
full request on a fresh server for the current text; a range request for every line interval
must equal the fresh full result restricted to those lines.
Geometry part: see geometry() — journals from Journal.tla with the lexeme table.
"""
import json

import vf

TEXTS = {
    "0": "",
    "1": "2024-01-01 shop\n    expenses:food  10 USD\n    assets:cash\n",
    "2": "2024-01-01 shop\n    expenses:food  1000 USD\n    assets:cash\n",
    "3": "2024-01-01 shop\n    expenses:food  10 USD\n    assets:cash\n\n2024-01-02 * rent  ; type:home\n    expenses:rent  500 USD\n    assets:bank\n",
}


def cfg(maxops, emit, repaired=True):
    return ("CONSTANTS URIs = {\"u1\", \"u2\"}  MaxOps = %d  EmptyDropsCache = %s\nSPECIFICATION Spec\nINVARIANTS %s IdsUnique\nCHECK_DEADLOCK FALSE\n"
            % (maxops, "TRUE" if repaired else "FALSE", "Emit" if emit else "ClientOK"))


def protocol_histories(run):
    thorough = run.tier == "thorough"
    # the mechanism model against the contract (informational: a violation here is a design-level
    # counterexample; the verdict comes from the replay below)
    run.tlc("SemTokens", cfg(6 if thorough else 5, False), workers=8, timeout=2400)
    # vacuity guard: the pinned mechanism (empty document keeps the cache) must violate ClientOK
    r = run.tlc("SemTokens", cfg(5, False, repaired=False), workers=8, timeout=2400, allow_violation=True)
    if r.ok or "Invariant ClientOK is violated" not in r.stdout:
        vf.die_tooling("SemTokens.tla with EmptyDropsCache=FALSE does not violate ClientOK — the model is vacuous")
    hs = []
    r = run.tlc("SemTokens", cfg(4 if not thorough else 5, True), workers=8, timeout=2400)
    ex = r.json
    cap = 3000 if not thorough else 60000
    if len(ex) > cap:
        ex = run.rng.sample(ex, cap)
    hs += [("exh", h) for h in ex]
    for depth, num in ([(10, 300)] if not thorough else [(10, 5000), (14, 2000)]):
        r = run.tlc("SemTokens", cfg(depth, True), mode="simulate", simulate=num, depth=depth + 1, workers=1, timeout=2400)
        seen = set()
        for h in r.json:
            k = json.dumps(h, sort_keys=True)
            if k not in seen:
                seen.add(k)
                hs.append(("sim%d" % depth, h))
    return hs


def classify(h, k):
    """signature of a protocol divergence at step k: was the previous id stale and did an empty-document reply precede?"""
    st = h[k]
    if st["op"] == "delta" and st.get("prev") == "older":
        return "delta-stale-id-after-empty-document"
    return "client-array-differs"


def evaluate(h, res):
    if "panic" in res:
        return [("panic", "server panicked: " + res["panic"])]
    divs = []
    for k, (st, step) in enumerate(zip(h, res["steps"])):
        if st["op"] == "range" and step.get("rangeBad"):
            divs.append(("range-not-restriction-of-full", "step %d range(%s): %s" % (k, st["uri"], step["rangeBad"][:300])))
            break
        if st["op"] in ("full", "delta") and not step["equal"]:
            divs.append((classify(h, k), "step %d %s(%s prev=%s sent=%s reply=%s): client array %s, full result for the current text %s" % (
                k, st["op"], st["uri"], st.get("prev"), step.get("prevSent"), step.get("reply"), step.get("client"), step.get("fresh"))))
            break
    return divs


def main(args):
    run = vf.Run("C17", args.tier, args.seed, level="model_checking")
    if args.replay:
        with open(args.replay) as f:
            rp = json.load(f)
        hs = [(rp["case"]["family"], rp["case"]["history"])]
    else:
        hs = protocol_histories(run)
    hcases = [{"id": str(i), "texts": TEXTS, "ops": h} for i, (_, h) in enumerate(hs)]
    results = run.harness("semtok", hcases, timeout=3000)
    for (fam, h), res in zip(hs, results):
        nt = any(st["op"] == "delta" for st in h) and any(st["op"] == "edit" for st in h)
        run.count(vf.digest(h), nt)
        for sig, what in evaluate(h, res):
            run.diverge(sig, what, {"family": fam, "history": h}, res)
    run.traces_validated = len(hs)
    run.sample({"history": hs[-1][1]})
    run.rule = ("one case per behaviour of SemTokens.tla (exhaustive to depth 4 [thorough 5] over edit/open/close/full/range/delta with current, older, "
                "other-document and unknown result ids on two documents; simulated to depth 10..14); non-trivial = contains an edit and a delta request")
    run.assumptions = ["a client holds the array of the last reply and applies delta edits to it as LSP prescribes",
                       "token arrays are those of four fixed real texts (empty, two of equal token count, one longer)"]
    run.finish(confirm=lambda d: confirm(run, d))


def confirm(run, d):
    h = d["case"]["history"]
    res = run.harness("semtok", [{"id": "0", "texts": TEXTS, "ops": h}])[0]
    return any(sig == d["sig"] for sig, _ in evaluate(h, res))
