"""C17 — Semantic tokens cover their lexemes and deltas reconstruct the full result.

History part: TLC explores SemTokens.tla (full / range / delta protocol with a client that
reconstructs arrays from replies) and checks ClientOK and IdsUnique on the mechanism model;
every behaviour (exhaustive to depth 5, simulated to depth 10) is replayed on a real server
with two documents: after every full/delta reply the array the client rebuilt must equal a
full request on a fresh server for the current text; a range request for every line interval
must equal the fresh full result restricted to those lines.
Content part: TokenEdits.tla models the relative wire encoding over documents that are sequences of
menu lines and one-line edits (replace / insert / delete); TLC checks that the splice rebuilds the
encoding of the new document (and that trimming the splice on ABSOLUTE tokens does not); every
(document of <= 3 lines, edit) pair is replayed: full, didChange, delta with the current id, compare
with a fresh server's full result.
Geometry part: journals of G from JournalGen.tla with the lexeme table (kind and exact UTF-16
span of every lexeme): tokens in document order without overlap, inside their line, never
splitting a surrogate pair, type inside the legend, each covering exactly one lexeme of the
kind its type denotes (a code with its parentheses, a quoted commodity with its quotes, an
operator on the operator, a tag name with or without its colon); range requests for five line
intervals equal the full result restricted to those lines.
"""
import json

import vf

TEXTS = {
    "0": "",
    "1": "2024-01-01 shop\n    expenses:food  10 USD\n    assets:cash\n",
    "2": "2024-01-01 shop\n    expenses:food  1000 USD\n    assets:cash\n",
    "3": "2024-01-01 shop\n    expenses:food  10 USD\n    assets:cash\n\n2024-01-02 * rent  ; type:home\n    expenses:rent  500 USD\n    assets:bank\n",
}


def cfg(maxops, emit, repaired=True):
    return ("CONSTANTS URIs = {\"u1\", \"u2\"}  MaxOps = %d  EmptyDropsCache = %s\nSPECIFICATION Spec\nINVARIANTS %s IdsUnique\nCHECK_DEADLOCK FALSE\n"
            % (maxops, "TRUE" if repaired else "FALSE", "Emit" if emit else "ClientOK"))


def protocol_histories(run):
    thorough = run.tier == "thorough"
    # the mechanism model against the contract (informational: a violation here is a design-level
    # counterexample; the verdict comes from the replay below)
    run.tlc("SemTokens", cfg(6 if thorough else 5, False), workers=8, timeout=2400)
    # vacuity guard: the pinned mechanism (empty document keeps the cache) must violate ClientOK
    r = run.tlc("SemTokens", cfg(5, False, repaired=False), workers=8, timeout=2400, allow_violation=True)
    if r.ok or "Invariant ClientOK is violated" not in r.stdout:
        vf.die_tooling("SemTokens.tla with EmptyDropsCache=FALSE does not violate ClientOK — the model is vacuous")
    hs = []
    r = run.tlc("SemTokens", cfg(4 if not thorough else 5, True), workers=8, timeout=2400)
    ex = r.json
    cap = 3000 if not thorough else 60000
    if len(ex) > cap:
        ex = run.rng.sample(ex, cap)
    hs += [("exh", h) for h in ex]
    for depth, num in ([(10, 300)] if not thorough else [(10, 5000), (14, 2000)]):
        r = run.tlc("SemTokens", cfg(depth, True), mode="simulate", simulate=num, depth=depth + 1, workers=1, timeout=2400)
        seen = set()
        for h in r.json:
            k = json.dumps(h, sort_keys=True)
            if k not in seen:
                seen.add(k)
                hs.append(("sim%d" % depth, h))
    return hs


def content_histories(run):
    """TokenEdits.tla: documents of <= 3 lines over a menu of 7 journal lines x every one-line edit (replace / insert / delete),
    as (texts, ops) for the semtok harness: full, then per edit didChange + delta with the current id."""
    thorough = run.tier == "thorough"

    def tcfg(maxlines, maxedits, mech, emit):
        return ("CONSTANTS MaxLines = %d MaxEdits = %d Mech = \"%s\"\nSPECIFICATION Spec\nINVARIANTS Rebuilt%s\nCHECK_DEADLOCK FALSE\n"
                % (maxlines, maxedits, mech, " Emit" if emit else ""))
    # vacuity guard: comparing ABSOLUTE tokens to trim the splice must violate Rebuilt; the other two mechanisms satisfy it
    bad = run.tlc("TokenEdits", tcfg(3, 1, "absolute", False), workers=4, allow_violation=True, collect_json=False)
    if bad.ok or "Invariant Rebuilt is violated" not in bad.stdout:
        vf.die_tooling("TokenEdits.tla: trimming the splice on absolute tokens no longer violates Rebuilt — the model is vacuous")
    run.tlc("TokenEdits", tcfg(3, 1, "relative", False), workers=8, timeout=1800, collect_json=False)
    out = []
    r = run.tlc("TokenEdits", tcfg(3, 1, "whole", True), workers=8, timeout=1800)
    ex = r.json
    if not thorough and len(ex) > 5000:
        ex = run.rng.sample(ex, 5000)
    out += [("content1", c) for c in ex]
    for ml, me, num in ([(4, 3, 400)] if not thorough else [(4, 2, 20000), (5, 4, 5000)]):
        r = run.tlc("TokenEdits", tcfg(ml, me, "whole", True), mode="simulate", simulate=num, depth=me + 1, workers=1, timeout=1800)
        js = r.json
        if len(js) > num:
            js = run.rng.sample(js, num)
        out += [("content%d" % me, c) for c in js]
    cases = []
    for k, (fam, c) in enumerate(out):
        texts = {"1": "\n".join(c["first"]) + "\n"}
        for i, st in enumerate(c["steps"]):
            texts[str(i + 2)] = "\n".join(st["lines"]) + "\n"
        if k % 3 != 2:
            # full, then per edit: didChange (two thirds of them sent as the smallest run of lines that differs) + delta
            ops = [{"op": "full", "uri": "u1"}]
            for i, st in enumerate(c["steps"]):
                ops.append({"op": "edit", "uri": "u1", "text": i + 2, "what": st["edit"], "incr": k % 3 == 1})
                ops.append({"op": "delta", "uri": "u1", "prev": "current"})
        else:
            # full, then ALL the edits as line changes without any full/delta request in between, then every line interval as
            # a range request: whatever the server remembers about "what changed since the last full result" must cover them all
            ops = [{"op": "full", "uri": "u1"}]
            for i, st in enumerate(c["steps"]):
                ops.append({"op": "edit", "uri": "u1", "text": i + 2, "what": st["edit"], "incr": True})
            ops.append({"op": "range", "uri": "u1"})
        cases.append((fam, {"texts": texts, "ops": ops}))
    return cases


def classify(h, k):
    """signature of a protocol divergence at step k: was the previous id stale and did an empty-document reply precede?"""
    st = h[k]
    if st["op"] == "delta" and st.get("prev") == "older":
        return "delta-stale-id-after-empty-document"
    return "client-array-differs"


def evaluate(h, res):
    if "panic" in res:
        return [("panic", "server panicked: " + res["panic"])]
    divs = []
    for k, (st, step) in enumerate(zip(h, res["steps"])):
        if st["op"] == "range" and step.get("rangeBad"):
            divs.append(("range-not-restriction-of-full", "step %d range(%s): %s" % (k, st["uri"], step["rangeBad"][:300])))
            break
        if st["op"] in ("full", "delta") and not step["equal"]:
            divs.append((classify(h, k), "step %d %s(%s prev=%s sent=%s reply=%s): client array %s, full result for the current text %s" % (
                k, st["op"], st["uri"], st.get("prev"), step.get("prevSent"), step.get("reply"), step.get("client"), step.get("fresh"))))
            break
    return divs


def main(args):
    run = vf.Run("C17", args.tier, args.seed, level="model_checking")
    if args.replay:
        with open(args.replay) as f:
            rp = json.load(f)
        if rp["case"]["family"] == "geometry":
            return replay_geometry(run, rp)
        hs = [(rp["case"]["family"], rp["case"]["history"])]
        texts_of = [rp["case"].get("texts") or TEXTS]
    else:
        hs = protocol_histories(run)
        texts_of = [TEXTS] * len(hs)
        for fam, c in content_histories(run):
            hs.append((fam, c["ops"]))
            texts_of.append(c["texts"])
    hcases = [{"id": str(i), "texts": tx, "ops": h} for i, ((_, h), tx) in enumerate(zip(hs, texts_of))]
    results = run.harness("semtok", hcases, timeout=3000)
    for (fam, h), tx, res in zip(hs, texts_of, results):
        nt = any(st["op"] == "delta" for st in h) and any(st["op"] == "edit" for st in h)
        run.count(vf.digest([h, tx if tx is not TEXTS else 0]), nt)
        for sig, what in evaluate(h, res):
            if tx is not TEXTS:
                what += "  [documents in order %r]" % ([tx[str(i)] for i in range(1, len(tx) + 1)],)
            run.diverge(sig, what, {"family": fam, "history": h, "texts": tx}, res)
    ngeo = 0
    if not args.replay or hs[0][0] == "geometry":
        ngeo = geometry(run, args)
    run.traces_validated = len(hs) + ngeo
    run.extra["geometry_journals"] = ngeo
    run.sample({"history": hs[-1][1]})
    run.rule = ("one case per behaviour of SemTokens.tla (exhaustive to depth 4 [thorough 5] over edit/open/close/full/range/delta with current, older, "
                "other-document and unknown result ids on two documents; simulated to depth 10..14) plus one case per behaviour of TokenEdits.tla (every document of <= 3 menu lines x every one-line edit; chains of 2..4 edits simulated); non-trivial = contains an edit and a delta request")
    run.assumptions = ["a client holds the array of the last reply and applies delta edits to it as LSP prescribes",
                       "protocol histories: token arrays are those of four fixed real texts (empty, two of equal token count, one longer); content histories: documents of <= 3..5 lines over a menu of 7 journal lines"]
    run.finish(confirm=lambda d: confirm(run, d))


def replay_geometry(run, rp):
    c = rp["case"]["spec_case"]
    for sig, what in geometry_one(run, c):
        run.diverge(sig, what, rp["case"], None)
    run.count("replay", True)
    run.count("replay2", True)
    run.sample({"lines": c["lines"]})
    run.finish()


def geometry_one(run, c):
    if c.get("arbitrary"):
        text = "\n".join(c["lines"])
        res = run.harness("script", [{"id": "0", "files": {}, "workspace": False, "ops": [{"op": "open", "file": "doc.journal", "text": text}, {"op": "req", "file": "doc.journal", "kind": "semanticTokensFull"}]}])[0]
        return geometry_eval(c08.Doc(text), [[] for _ in c["lines"]], res["steps"][1].get("reply") or [], False)
    text = jcommon.text_of(c, "LF", c.get("final", True))
    res = run.harness("script", [{"id": "0", "files": {}, "workspace": False, "ops": [{"op": "open", "file": "doc.journal", "text": text}, {"op": "req", "file": "doc.journal", "kind": "semanticTokensFull"}]}])[0]
    doc = c08.Doc(text)
    lex = list(c["lex"])
    while len(lex) < doc.nlines():
        lex.append([])
    return geometry_eval(doc, lex, res["steps"][1].get("reply") or [], True)


def confirm(run, d):
    if d["case"].get("family") == "geometry":
        if d["sig"] == "range-not-restriction-of-full":
            return True
        return any(sig == d["sig"] for sig, _ in geometry_one(run, d["case"]["spec_case"]))
    h = d["case"]["history"]
    res = run.harness("semtok", [{"id": "0", "texts": d["case"].get("texts") or TEXTS, "ops": h}])[0]
    return any(sig == d["sig"] for sig, _ in evaluate(h, res))


# ====================================================================== geometry part
import collections
import os

import jcommon
import c08

LEGEND_SIZE = 13
KIND_OF_TYPE = {
    0: {"account"}, 1: {"commodity"}, 2: {"payee"}, 3: {"date", "date2"}, 4: {"number", "amount", "costamount", "assertamount", "year"},
    5: {"tagname"}, 6: {"directive"}, 7: {"code"}, 8: {"status"}, 9: {"comment"}, 11: {"operator", "pipe"}, 12: {"tagvalue"},
}
TYPE_NAME = ["account", "commodity", "payee", "date", "amount", "tag", "directive", "code", "status", "comment", "string", "operator", "tagValue"]


def decode(data):
    toks = []
    line = col = 0
    for i in range(0, len(data) - 4, 5):
        dl, dc, ln, ty, mod = data[i:i + 5]
        if dl:
            line += dl
            col = dc
        else:
            col += dc
        toks.append((line, col, ln, ty, mod))
    return toks


def allowed_spans(lex, ty):
    out = set()
    for lx in lex:
        k = lx["k"]
        if ty == 10:
            out.add((lx["c0"], lx["c1"]))      # free text: any lexeme the grammar treats as text
            continue
        if k in KIND_OF_TYPE.get(ty, ()):
            out.add((lx["c0"], lx["c1"]))
            if k == "tagname":
                out.add((lx["c0"], lx["c1"] - 1))
        if ty == 1 and k == "format":
            t = lx["t"]
            idx = [i for i, ch in enumerate(t) if ch not in "0123456789., "]
            if idx:
                a, b = idx[0], idx[-1] + 1
                if t[a] == '"':
                    b = t.rfind('"') + 1
                out.add((lx["c0"] + len(t[:a].encode("utf-16-le")) // 2, lx["c0"] + len(t[:b].encode("utf-16-le")) // 2))
        if ty == 4 and k == "format":
            out.add(("within", lx["c0"], lx["c1"]))
    return out


def geometry_eval(doc, lex, data, strict):
    divs = []
    if len(data) % 5:
        return [("token-array-length", "the data array has %d numbers" % len(data))]
    toks = decode(data)
    prev = None
    for (l, c, n, ty, mod) in toks:
        if prev is not None and ((l, c) <= (prev[0], prev[1]) ):
            divs.append(("tokens-out-of-order", "token at %d:%d after token at %d:%d" % (l, c, prev[0], prev[1])))
            break
        if prev is not None and l == prev[0] and c < prev[1] + prev[2]:
            divs.append(("tokens-overlap", "token at %d:%d overlaps the token at %d:%d of length %d on %r" % (l, c, prev[0], prev[1], prev[2], doc.lines[l] if l < doc.nlines() else None)))
            break
        prev = (l, c, n)
        if l >= doc.nlines() or c + n > doc.linelen(l):
            divs.append(("token-outside-line", "token %d:%d length %d, line has %s units" % (l, c, n, doc.linelen(l) if l < doc.nlines() else "no such line")))
            break
        if n == 0:
            divs.append(("token-empty", "token of length 0 at %d:%d (%s) on %r" % (l, c, TYPE_NAME[ty] if ty < LEGEND_SIZE else ty, doc.lines[l])))
            break
        if doc.mid_surrogate(l, c) or doc.mid_surrogate(l, c + n):
            divs.append(("token-splits-surrogate-pair", "token %d:%d length %d on %r" % (l, c, n, doc.lines[l])))
            break
        if ty >= LEGEND_SIZE:
            divs.append(("token-type-outside-legend", "type %d at %d:%d" % (ty, l, c)))
            break
        if strict and l < len(lex):
            al = allowed_spans(lex[l], ty)
            ok = (c, c + n) in al or any(isinstance(x[0], str) and x[1] <= c and c + n <= x[2] for x in al)
            if ty == 10 and not ok:
                # free text (a sub-directive line such as "format 1,000.00 USD" is one piece of text): it must begin and end
                # where lexemes or the line's content begin and end, never inside a lexeme
                line = doc.lines[l]
                first = len(line) - len(line.lstrip(" \t"))
                last = len(line.rstrip(" \t").encode("utf-16-le")) // 2
                starts = {lx["c0"] for lx in lex[l]} | {first}
                ends = {lx["c1"] for lx in lex[l]} | {last}
                covered = {lx["k"] for lx in lex[l] if c <= lx["c0"] and lx["c1"] <= c + n}
                # ... and it is the text of a sub-directive, not a stretch of a posting: an operator, an amount or a second
                # commodity inside it means the tokenizer gave up on the rest of the line
                ok = c in starts and (c + n) in ends and covered <= {"format", "incpath", "year", "commodity", "number"} and len([1 for lx in lex[l] if lx["k"] == "operator" and c <= lx["c0"] < c + n]) == 0
            if not ok:
                divs.append(("token-not-a-lexeme:" + TYPE_NAME[ty], "%s token %d:%d-%d covers %r; %s lexemes of that line are at %s on %r" % (
                    TYPE_NAME[ty], l, c, c + n, c08.wcommon.u16len and doc.lines[l].encode("utf-16-le")[2 * c:2 * (c + n)].decode("utf-16-le", "replace"),
                    TYPE_NAME[ty], sorted(x for x in al if not isinstance(x[0], str)), doc.lines[l])))
    seen = set()
    return [(s, w) for s, w in divs if not (s in seen or seen.add(s))]


def geometry(run, args):
    """journals of G with the lexeme table: token order / bounds / legend / one-lexeme coverage; range = full restricted"""
    thorough = run.tier == "thorough"
    cases = []
    r = run.tlc_simulate_many("JournalGen", jcommon.gen_cfg("random", 8, True), 150 if not thorough else 3000, 2, procs=8)
    seen = set()
    for c in r:
        k = json.dumps(c["lines"], ensure_ascii=False)
        if k not in seen and c.get("eol", "LF") == "LF":
            seen.add(k)
            cases.append(c)
    for fam, cap in (("headers", 300), ("postings", 300), ("pairs", 150), ("desc-chars", 300), ("lexicon", 250)):
        # the cases that once carried a known parser trigger (a lower-case commodity word before an operator, the special
        # descriptions) are ordinary journals of G since those repairs: their tokens are judged like all others
        cs = run.tlc("JournalGen", jcommon.gen_cfg(fam, 6, True), workers=8, timeout=2400).json
        trig = [c for c in cs if c["trig"]]
        cs = [c for c in cs if not c["trig"]]
        cs = run.rng.sample(cs, min(len(cs), cap if not thorough else cap * 10))
        cases += cs + trig
    hcs = []
    for i, c in enumerate(cases):
        c["final"] = (i % 2 == 0)          # every other document ends without a line end
        text = jcommon.text_of(c, "LF", c["final"])
        n = len(c["lines"])
        ops = [{"op": "open", "file": "doc.journal", "text": text}, {"op": "req", "file": "doc.journal", "kind": "semanticTokensFull"}]
        ivs = [(0, 0), (0, n), (n // 2, n // 2), (1, max(1, n - 2)), (n - 1, n + 3), (n - 1, n - 1), (0, n - 1), (0, 4294967295)]
        for a, b in ivs:
            ops.append({"op": "req", "file": "doc.journal", "kind": "semanticTokensRange", "rangeStart": a, "rangeEnd": b})
        hcs.append({"id": "g%d" % i, "files": {}, "workspace": False, "ops": ops, "_ivs": ivs})
    results = run.harness("script", [{k: v for k, v in h.items() if k != "_ivs"} for h in hcs], timeout=3000)
    table = collections.Counter()
    for c, hc, res in zip(cases, hcs, results):
        text = hc["ops"][0]["text"]
        run.count(vf.digest(["geometry", c["lines"]]), True)
        case = {"family": "geometry", "spec_case": c}
        if "panic" in res:
            run.diverge("panic", "server panicked: " + res["panic"][:300], case, None)
            continue
        doc = c08.Doc(text)
        lex = list(c["lex"])
        while len(lex) < doc.nlines():
            lex.append([])
        data = res["steps"][1].get("reply") or []
        for sig, what in geometry_eval(doc, lex, data, True):
            table[sig] += 1
            run.diverge(sig, what, case, None)
        full = decode(data)
        for (a, b), st in zip(hc["_ivs"], res["steps"][2:]):
            got = decode(st.get("reply") or [])
            want = [t for t in full if a <= t[0] <= b]
            if got != want:
                table["range-not-restriction-of-full"] += 1
                run.diverge("range-not-restriction-of-full", "range request for lines %d..%d returns %d tokens, the full result has %d on those lines; first difference %s" % (
                    a, b, len(got), len(want), next(((x, y) for x, y in zip(got, want) if x != y), None)), case, None)
                break
    # arbitrary text: every comment of <= 4 (thorough 5) characters over the tag alphabet, in three placements; there is no lexeme
    # table for these, so only the generic clauses are judged (order, overlap, inside the line, surrogate pairs, legend)
    r = run.tlc("Input", "CONSTANTS Family = \"comments\" MaxLen = %d\nINIT Init\nNEXT Next\nINVARIANTS Emit\nCHECK_DEADLOCK FALSE\n" % (4 if not thorough else 5), workers=8, timeout=2400)
    arb = [c["t"] for c in r.json]
    hcs = [{"id": "a%d" % i, "files": {}, "workspace": False, "ops": [{"op": "open", "file": "doc.journal", "text": t}, {"op": "req", "file": "doc.journal", "kind": "semanticTokensFull"}]} for i, t in enumerate(arb)]
    results = run.harness("script", hcs, timeout=3000)
    for t, res in zip(arb, results):
        run.count(vf.digest(["arbitrary", t]), True)
        case = {"family": "geometry", "spec_case": {"lines": t.split("\n"), "lex": [], "eol": "LF", "final": False, "arbitrary": True}}
        if "panic" in res:
            run.diverge("panic", "server panicked: " + res["panic"][:300], case, None)
            continue
        for sig, what in geometry_eval(c08.Doc(t), [[] for _ in t.split("\n")], res["steps"][1].get("reply") or [], False):
            table[sig] += 1
            run.diverge(sig, what, case, None)
    if os.environ.get("VERIF_TABLE"):
        for k, n in sorted(table.items(), key=str):
            print("TABLE", k, n)
    return len(cases) + len(arb)
