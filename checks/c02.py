"""C02 — Unbalanced-transaction verdicts are exact.

Balance.tla computes, with exact scaled-integer arithmetic, the verdict of every generated
transaction (ok / unbalanced with the absolute residual per commodity / multiple amount-less
postings).  TLC enumerates (a) a two-posting transaction for every amount spelling of G against
its exact negation and against the negation off by one unit of the last digit (the verdict
must not depend on notation, sign placement, commodity side or spacing), (b) every transaction
of <= 2 postings over kinds x small quantities x unit/total costs, and simulates (c) journals
of random transactions of 0..6 postings closed by an inferred posting, two inferred postings,
the exactly balancing amount or an amount off by a drawn delta.  Each journal is opened on a
real server; the published UNBALANCED / MULTIPLE_INFERRED diagnostics must be exactly the
expected ones, transaction by transaction, and the numbers in "<commodity> off by <n>" must
equal the exact residuals.
"""
import collections
import json
import os
import re

import vf
import jcommon


def cfg(fam, maxentries=6):
    return ("CONSTANTS Family = \"%s\" MaxEntries = %d WithLex = FALSE\nINIT BInit\nNEXT BNext\nINVARIANTS BTheorems BEmit\nCHECK_DEADLOCK FALSE\n"
            % (fam, maxentries))


def gen(run):
    thorough = run.tier == "thorough"
    out = []
    for fam, cap in (("bal-notation", 4000), ("bal-threedec", 2000), ("bal-small", 4000)):
        r = run.tlc("Balance", cfg(fam), workers=16, timeout=2400)
        cs = r.json
        if not thorough and len(cs) > cap:
            cs = run.rng.sample(cs, cap)
        out += cs
    r = run.tlc("Balance", cfg("bal-random", 8), mode="simulate", simulate=(500 if not thorough else 15000), depth=3, workers=1, timeout=2400)
    seen = set()
    for c in r.json:
        k = json.dumps(c["lines"], ensure_ascii=False)
        if k not in seen:
            seen.add(k)
            out.append(c)
    return out


OFFBY = re.compile(r"^(.*) off by (-?[0-9.]+(?:[eE][-+]?[0-9]+)?)$")


def parse_dec(s):
    """exact decimal string -> canonical (mant, scale)"""
    from decimal import Decimal
    d = Decimal(s)
    sign, digits, exp = d.as_tuple()
    m = int("".join(map(str, digits))) * (-1 if sign else 1)
    if exp >= 0:
        return (m * 10 ** exp, 0)
    sc = -exp
    while sc > 0 and m % 10 == 0:
        m //= 10
        sc -= 1
    return (m, sc)


def evaluate(c, res):
    if "panic" in res:
        return [("panic", "server panicked: " + res["panic"])]
    if not res.get("published"):
        return [("nothing-published", "no diagnostics were published for the document")]
    divs = []
    by_line = collections.defaultdict(list)
    for d in res["diags"]:
        if d["code"] in ("UNBALANCED", "MULTIPLE_INFERRED"):
            by_line[d["sl"]].append(d)
        elif d["code"] == "":
            divs.append(("syntax-error", "syntax error published at line %d: %s" % (d["sl"] + 1, d["msg"])))
    for i, exp in enumerate(c["expect"]):
        line0 = c["firsts"][i] - 1
        got = by_line.pop(line0, [])
        codes = sorted(d["code"] for d in got)
        want = {"ok": [], "unbalanced": ["UNBALANCED"], "multi": ["MULTIPLE_INFERRED"]}[exp["verdict"]]
        txt = " / ".join(c["lines"][line0:line0 + 7])
        if codes != want:
            sig = "verdict:%s-reported-as-%s" % (exp["verdict"], "+".join(codes) or "ok")
            divs.append((sig, "transaction at line %d: expected %s, published %s (%s)  [%s]" % (line0 + 1, want or "nothing", codes or "nothing", [d["msg"] for d in got], txt[:200])))
            continue
        if exp["verdict"] == "unbalanced":
            parts = got[0]["msg"].split(": ", 1)[1].split("; ") if ": " in got[0]["msg"] else []
            seen = {}
            for p in parts:
                m = OFFBY.match(p)
                if not m:
                    divs.append(("message-unparsable", "cannot read residuals from %r" % got[0]["msg"]))
                    break
                seen[m.group(1)] = parse_dec(m.group(2))
            want_res = {k: jcommon.canon_spec_amount({"mant": v["mant"], "scale": v["scale"]}) for k, v in exp["residuals"].items()}
            if seen != want_res:
                divs.append(("residual-differs", "transaction at line %d: message says %s, exact residuals are %s  [%s]" % (
                    line0 + 1, {k: jcommon.dec_str(v) for k, v in seen.items()}, {k: jcommon.dec_str(v) for k, v in want_res.items()}, txt[:200])))
    for line0, got in by_line.items():
        divs.append(("diagnostic-on-no-transaction", "balance diagnostic at line %d which is not the first line of a transaction: %s" % (line0 + 1, got[0]["msg"])))
    seen = set()
    return [(s, w) for s, w in divs if not (s in seen or seen.add(s))]


def main(args):
    run = vf.Run("C02", args.tier, args.seed, level="model_checking")
    if args.replay:
        with open(args.replay) as f:
            rp = json.load(f)
        cases = [rp["case"]["spec_case"]]
    else:
        cases = gen(run)
    hcases = [{"id": str(i), "text": jcommon.text_of(c), "doc": "doc.journal"} for i, c in enumerate(cases)]
    results = run.harness("pubdiag", hcases, timeout=3000)
    table = collections.Counter()
    for c, hc, res in zip(cases, hcases, results):
        run.count(vf.digest(c["lines"]), any(e["verdict"] != "ok" for e in c["expect"]) or len(c["expect"]) > 0)
        for sig, what in evaluate(c, res):
            table[(c["fam"], sig)] += 1
            run.diverge(sig, what, {"spec_case": c}, res)
    if os.environ.get("VERIF_TABLE"):
        for k, n in sorted(table.items()):
            print("TABLE", k, n)
    run.traces_validated = len(cases)
    rnd = [(c, h) for c, h in zip(cases, hcases) if c["fam"] == "bal-random"]
    if rnd:
        run.sample({"text": rnd[0][1]["text"], "expected": rnd[0][0]["expect"]})
    run.sample({"text": hcases[0]["text"], "expected": cases[0]["expect"]})
    run.extra["verdict_mix"] = dict(collections.Counter(e["verdict"] for c in cases for e in c["expect"]))
    run.rule = ("one case per journal generated by Balance.tla: every amount spelling vs its exact negation (+0 / +1 unit), every transaction of <= 2 postings over kinds x "
                "quantities x unit/total cost, random transactions closed exactly / off by a delta / by inferred postings; non-trivial = journal with >= 1 transaction")
    run.assumptions = ["restricted to C02's quantifier: no implicit two-commodity price inference, unit-costed postings have integer quantities, costs positive",
                       "message order and wording beyond '<commodity> off by <n>' are not compared (C15)"]
    run.finish(confirm=lambda d: confirm(run, d))


def confirm(run, d):
    c = d["case"]["spec_case"]
    res = run.harness("pubdiag", [{"id": "0", "text": jcommon.text_of(c), "doc": "doc.journal"}])[0]
    return any(sig == d["sig"] for sig, _ in evaluate(c, res))
