"""C12 — Incrementally maintained workspace view equals a rebuild.

TLC (spec/Workspace.tla) generates update histories over abstract journal contents
(include lists, transactions and declarations drawn from catalogues the spec prints),
computes the contract's View after every update and checks the mechanism invariants
MembersOK / TplOK.  Each history is replayed on one real workspace.Workspace with
UpdateFile (+ loader invalidation, as the server does) and after EVERY step a fresh
Workspace is initialised on the same directory; the two projections must agree (the
property's own oracle).  The rebuild is also compared with the contract's View.
"""
import json

import vf

NAMES = {0: "ghost.journal", 1: "main.journal", 2: "a.journal", 3: "b.journal", 4: "sub/c.journal"}


def rel_path(f, g):
    fsub, gsub = f == 4, g == 4
    base = NAMES[g].split("/")[-1]
    if fsub == gsub:
        return base
    if fsub:
        return "../" + base
    return "sub/" + base


def render(cat, f, content, star=None):
    out = ["; file %d" % f]
    for d in sorted(content["decl"]):
        dd = cat["decl"][d - 1]
        if dd["kind"] == "account":
            out.append("account " + dd["name"])
        else:
            out.append("commodity " + dd["name"])
            if dd["format"]:
                out.append("  format " + dd["format"])
    for g in sorted(content["incl"], reverse=bool(content.get("rev"))):
        if g == star:
            # Star: the pattern that matches a.journal and b.journal as far as they exist
            out.append("include " + ("../" if f == 4 else "") + "[ab].journal")
            continue
        out.append("include " + rel_path(f, g))
    for t in content["txs"]:
        tx = cat["tx"][t - 1]
        head = "%s %s" % (tx["date"], tx["payee"])
        if tx["tags"]:
            head += "  ; " + ", ".join("%s:%s" % (n, v) for n, v in tx["tags"])
        out.append("")
        out.append(head)
        for p in tx["posts"]:
            if p["amt"]:
                out.append("    %s  %s %s" % (p["acct"], p["amt"], p["comm"]))
            else:
                out.append("    " + p["acct"])
    text = "\n".join(out) + "\n"
    if content.get("big"):
        # an oversized rendering of the same content (limits.maxFileSizeBytes = BIG_LIMIT in both workspaces)
        text += "; padding padding padding padding padding padding padding\n" * (BIG_LIMIT // 50 + 2)
    return text


def mc_module(n, incl, txs, decl):
    def tset(xs):
        return "{" + ", ".join(xs) + "}"
    incl_s = tset(tset(str(x) for x in s) for s in incl)
    txs_s = tset("<<" + ", ".join(str(x) for x in s) + ">>" for s in txs)
    decl_s = tset(tset(str(x) for x in s) for s in decl)
    return ("---- MODULE MCWorkspace ----\nEXTENDS Workspace\nMInclMenu == %s\nMTxsMenu == %s\nMDeclMenu == %s\n====\n"
            % (incl_s, txs_s, decl_s))


BIG_LIMIT = 2000


def cfg(n, maxops, repair=True, initall=True, globrepair=True, absent=False, big=False, sizerepair=True):
    return ("CONSTANTS N = %d  MaxOps = %d  TemplateRepair = %s  InitAll = " + ("TRUE" if initall else "FALSE") + " GlobRepair = " + ("TRUE" if globrepair else "FALSE")
            + " Absent = " + ("TRUE" if absent else "FALSE") + " Big = " + ("TRUE" if big else "FALSE") + " SizeRepair = " + ("TRUE" if sizerepair else "FALSE") + "\n InclMenu <- MInclMenu\n TxsMenu <- MTxsMenu\n DeclMenu <- MDeclMenu\n"
            "INIT Init\nNEXT Next\nINVARIANTS MembersOK TplOK Emit\nCHECK_DEADLOCK FALSE\n") % (n, maxops, "TRUE" if repair else "FALSE")


TXS_SMALL = [[], [1], [2], [1, 4]]
TXS_FULL = [[], [1], [2], [1, 4], [5, 6], [2, 3], [3], [6, 4]]
DECL_FULL = [[], [1, 3], [2, 4], [3], [5], [1, 5]]


def gen(run):
    thorough = run.tier == "thorough"
    hs = []
    # exhaustive: every initial workspace over a small pool x every single update.  A pool of m contents per file gives
    # m^3 initial workspaces x 3m updates: m = 12 -> 62 208 histories (measured; m = 48 would be 15.9 million and does not
    # fit in memory).  quick samples 2 500 of the first pool; thorough replays two pools in full: plain include sets, and
    # include sets with a self-include, a missing target and a two-file fan-out.
    incl3 = [[], [2], [3], [2, 3], [1], [0, 3]]
    pools = [("exh3_1", incl3[:4], TXS_SMALL[:3], [[]])] + ([("exh3_1x", [[], [1], [0, 3], [2, 3]], TXS_SMALL[:3], [[]])] if thorough else [])
    # two files that declare one commodity differently: which format is in force follows the include order, after an update
    # as after a rebuild
    pools.append(("exh3_1f", incl3[:4], [[]], [[], [4], [5]]))
    for fam, incl, txs, decls in pools:
        r = run.tlc("MCWorkspace", cfg(3, 1), workers=8, timeout=2400,
                    extra_modules={"MCWorkspace": mc_module(3, incl, txs, decls)})
        ex = r.json
        cap = 2500 if fam == "exh3_1" else 1500
        if not thorough and len(ex) > cap:
            ex = run.rng.sample(ex, cap)
        hs += [(fam, x) for x in ex]
    # files that do not exist yet under a pattern: `include [ab].journal` in any file, a.journal / b.journal absent or present,
    # every single update (an update of an absent file creates it).  The mechanism that freezes what a pattern expanded to
    # (GlobRepair = FALSE) must violate MembersOK, or the family would be vacuous.
    gmenu = [[], [4], [3, 4]]
    gmod = {"MCWorkspace": mc_module(3, gmenu, TXS_SMALL[:2], [[]])}
    bad = run.tlc("MCWorkspace", cfg(3, 1, globrepair=False, absent=True).replace(" Emit", ""), workers=4, allow_violation=True, collect_json=False, extra_modules=gmod)
    if bad.ok or "Invariant MembersOK is violated" not in bad.stdout:
        vf.die_tooling("Workspace.tla: freezing the expansion of a pattern no longer violates MembersOK — the model is vacuous")
    r = run.tlc("MCWorkspace", cfg(3, 1 if not thorough else 2, absent=True), workers=8, timeout=2400, extra_modules=gmod)
    ex = r.json
    cap = 1500 if not thorough else 40000
    if len(ex) > cap:
        ex = run.rng.sample(ex, cap)
    hs += [("glob3_1", x) for x in ex]
    if not thorough:
        # two updates in a row (a file joins through a literal include, the literal line goes, a pattern still matches it):
        # sampled by simulation in the quick tier, enumerated in the thorough one
        r = run.tlc("MCWorkspace", cfg(3, 2, absent=True), mode="simulate", simulate=2500, depth=3, workers=1, timeout=2400,
                    extra_modules={"MCWorkspace": mc_module(3, [[], [4], [3, 4], [2], [2, 4]], TXS_SMALL[:2], [[]])})
        hs += [("glob3_2", x) for x in r.json]
    # a size limit in force: every content also in an oversized rendering (refused as an included file, by a rebuild and by
    # an update alike); a member that grows over the limit must leave (SizeRepair = FALSE violates MembersOK)
    bmod = {"MCWorkspace": mc_module(3, [[], [2], [2, 3]], [[1]], [[]])}
    bad = run.tlc("MCWorkspace", cfg(3, 1, big=True, sizerepair=False).replace(" Emit", ""), workers=4, allow_violation=True, collect_json=False, extra_modules=bmod)
    if bad.ok or "Invariant MembersOK is violated" not in bad.stdout:
        vf.die_tooling("Workspace.tla: keeping a member that grew over the size limit no longer violates MembersOK — the model is vacuous")
    ex = run.tlc("MCWorkspace", cfg(3, 1 if not thorough else 2, big=True), workers=8, timeout=2400, extra_modules=bmod).json
    cap = 1500 if not thorough else 30000
    if len(ex) > cap:
        ex = run.rng.sample(ex, cap)
    hs += [("big3_1", x) for x in ex]
    if thorough:
        # declarations and a fourth transaction list: sampled from the pool of 4 x 4 x 2 = 32 contents per file
        # (32^3 x 96 = 3.1 million histories) by simulation, one update each
        r = run.tlc("MCWorkspace", cfg(3, 1), mode="simulate", simulate=20000, depth=2, workers=1, timeout=2400,
                    extra_modules={"MCWorkspace": mc_module(3, incl3[:2] + incl3[3:5], TXS_SMALL, [[], [1, 3]])})
        hs += [("sim3_1", x) for x in r.json]
    # simulation: long histories, 4 files, full menus
    incl4 = [[], [2], [3], [4], [2, 3], [3, 4], [2, 4], [1], [0], [2, 0]]
    plans = [(4, 8, 400)] if not thorough else [(4, 8, 6000), (3, 8, 3000), (4, 12, 1500)]
    for n, k, num in plans:
        inc = incl4 if n == 4 else incl3
        r = run.tlc("MCWorkspace", cfg(n, k, initall=False), mode="simulate", simulate=num, depth=k + 1, workers=1, timeout=2400,
                    extra_modules={"MCWorkspace": mc_module(n, inc, TXS_FULL, DECL_FULL)})
        hs += [("sim%d_%d" % (n, k), x) for x in r.json]
    return hs


def root_name(idx, case):
    """every third history whose initial workspace has no include of file 1 names its root '0root.journal': without a
    main.journal the workspace finds its root through the include graph of ALL journal files of the folder (no one
    includes it, first by name) -- the view must still be the root's include tree and nothing else"""
    init = case["h"][0]["contents"]
    # (a file that includes the root, at any time, would make a rebuild pick ANOTHER root: which file is the root is not
    # something an update can change in the incremental workspace, and not what C12 is about)
    graph_root_ok = not any(1 in c["incl"] for c in init) and not any(1 in st["content"]["incl"] for st in case["h"][1:])
    if idx % 3 == 0 and graph_root_ok:
        return "0root.journal"
    if idx % 3 == 1 and graph_root_ok:
        # a root whose name sorts LAST: it is found only if every other file is seen to be included by someone (through
        # literal paths and through patterns alike).  Used when, at every step, every existing file is a member.
        present = {f + 1 for f, c in enumerate(init) if not c.get("absent")}
        ok = len(case["h"][0]["view"]["members"]) == len(present)
        for st in case["h"][1:]:
            present = present | {st["file"]}
            ok = ok and len(st["view"]["members"]) == len(present)
        if ok and len(present) >= 2:
            return "zroot.journal"
    return "main.journal"


def to_harness(idx, case):
    cat, h = case["cat"], case["h"]
    init = h[0]["contents"]
    n = len(init)
    NAMES[1] = root_name(idx, case)
    files = {NAMES[f]: render(cat, f, init[f - 1], n + 1) for f in range(1, n + 1) if not init[f - 1].get("absent")}
    ops = [{"file": NAMES[st["file"]], "content": render(cat, st["file"], st["content"], n + 1)} for st in h[1:]]
    anybig = any(c.get("big") for c in init) or any(st["content"].get("big") for st in h[1:])
    return {"id": str(idx), "files": files, "ops": ops, "size": BIG_LIMIT if anybig else 0}


def tpl_of(cat, t):
    out = []
    for p in cat["tx"][t - 1]["posts"]:
        out.append({"account": p["acct"], "amount": p["amt"], "commodity": p["comm"], "left": False})
    return out


def nz(d):
    return {k: v for k, v in (d or {}).items() if v}


def compare_inc_fresh(inc, fr):
    """The property's own oracle. Returns list of (sig, what)."""
    divs = []
    simple = ["root", "members", "accounts", "byprefix", "payees", "commodities", "tags", "tagvalues", "dates",
              "accountCounts", "payeeCounts", "commodityCounts", "tagCounts", "tagValueCounts", "transactions",
              "declAccounts", "declCommodities", "formats"]
    for k in simple:
        a, b = inc.get(k), fr.get(k)
        if k in ("byprefix", "tagvalues", "transactions", "formats", "accountCounts", "payeeCounts", "commodityCounts", "tagCounts", "tagValueCounts"):
            a, b = a or {}, b or {}
        else:
            a, b = a or [], b or []
        if a != b:
            divs.append(("inc-vs-rebuild:" + k, "%s: incremental %s, rebuild %s" % (k, json.dumps(a, sort_keys=True)[:300], json.dumps(b, sort_keys=True)[:300])))
    ta, tb = inc.get("templates") or {}, fr.get("templates") or {}
    if sorted(ta) == sorted(tb) and ta != tb:
        diff = sorted(p for p in ta if ta[p] != tb[p])
        divs.append(("inc-vs-rebuild:template-differs", "payee templates of %s: incremental %s, rebuild %s" % (diff[:3], [ta[p] for p in diff[:2]], [tb[p] for p in diff[:2]])))
    if sorted(ta) != sorted(tb):
        lost = sorted(set(tb) - set(ta))
        extra = sorted(set(ta) - set(tb))
        sig = "inc-vs-rebuild:template-lost" if lost else "inc-vs-rebuild:template-extra"
        divs.append((sig, "payee templates: incremental has %s, rebuild has %s (lost %s, extra %s)" % (sorted(ta), sorted(tb), lost, extra)))
    return divs


def compare_spec(cat, view, fr, inc):
    """Contract View vs the two projections."""
    divs = []
    members = sorted(NAMES[f] for f in view["members"])
    if sorted(fr["members"]) != members:
        divs.append(("spec:members", "rebuild members %s, contract %s" % (fr["members"], members)))
    for key, got in (("accounts", "accountCounts"), ("payees", "payeeCounts"), ("commodities", "commodityCounts"), ("tags", "tagCounts")):
        if nz(view[key]) != nz(fr.get(got)):
            divs.append(("spec:" + key, "rebuild %s %s, contract %s" % (got, nz(fr.get(got)), nz(view[key]))))
    if sorted(view["dates"]) != sorted(fr.get("dates") or []):
        divs.append(("spec:dates", "rebuild dates %s, contract %s" % (fr.get("dates"), view["dates"])))
    if sorted(view["declacc"]) != sorted(fr.get("declAccounts") or []):
        divs.append(("spec:declacc", "rebuild declared accounts %s, contract %s" % (fr.get("declAccounts"), view["declacc"])))
    if sorted(view["declcomm"]) != sorted(fr.get("declCommodities") or []):
        divs.append(("spec:declcomm", "rebuild declared commodities %s, contract %s" % (fr.get("declCommodities"), view["declcomm"])))
    ntx = sum(view["txs"])
    got_ntx = sum(len(v) for v in (fr.get("transactions") or {}).values())
    if ntx != got_ntx:
        divs.append(("spec:txcount", "rebuild indexes %d transactions, contract %d" % (got_ntx, ntx)))
    # templates: for both projections the value must be one of the admissible offers
    for who, proj in (("incremental", inc), ("rebuild", fr)):
        t = proj.get("templates") or {}
        for payee, offers in view["offers"].items():
            if not offers:
                if payee in t:
                    divs.append(("spec:template-ghost:" + who, "%s keeps a template for payee %s that no member file has" % (who, payee)))
                continue
            if payee not in t:
                if who == "rebuild":
                    divs.append(("spec:template-missing:" + who, "%s has no template for payee %s" % (who, payee)))
                continue
            if t[payee] not in [tpl_of(cat, o) for o in offers]:
                divs.append(("template-not-offered:" + who, "%s template for %s is %s, not one of the member files' templates (tx ids %s)" % (who, payee, t[payee], offers)))
    return divs


def evaluate(case, res):
    if "panic" in res:
        return [("panic", "workspace panicked: " + res["panic"], 0)]
    cat, h = case["cat"], case["h"]
    out = []
    for k, (st, step) in enumerate(zip(h, res["steps"])):
        d = compare_inc_fresh(step["inc"], step["fresh"])
        d += compare_spec(cat, st["view"], step["fresh"], step["inc"])
        if d:
            for sig, what in d[:3]:
                out.append((sig, "after step %d (%s): %s" % (k, "init" if k == 0 else "update %s" % NAMES[st["file"]], what), k))
            break
    return out


def main(args):
    run = vf.Run("C12", args.tier, args.seed, level="model_checking")
    if args.replay:
        with open(args.replay) as f:
            rp = json.load(f)
        hs = [(rp["case"]["family"], rp["case"]["spec_case"])]
    else:
        hs = gen(run)
    hcases = [to_harness(i, c) for i, (_, c) in enumerate(hs)]
    results = run.harness("workspace", hcases)
    for i, ((fam, c), hc, res) in enumerate(zip(hs, hcases, results)):
        h = c["h"]
        NAMES[1] = root_name(i, c) if not args.replay else rp["case"].get("root", "main.journal")
        changes_incl = any(st["content"]["incl"] != [] for st in h[1:])
        run.count(vf.digest(h), len(h) > 1 and changes_incl)
        for sig, what, _ in evaluate(c, res):
            slim = {"family": fam, "root": NAMES[1], "spec_case": {"cat": c["cat"], "h": [{k: v for k, v in st.items() if k != "view"} | {"view": st["view"]} for st in h]}}
            run.diverge(sig, what, slim, None)
    run.traces_validated = len(hs)
    if hs:
        c = hs[-1][1]
        run.sample({"history": [{k: v for k, v in st.items() if k != "view"} for st in c["h"]], "rendered_first_update": hcases[-1]["ops"][0] if hcases[-1]["ops"] else None})
    run.rule = ("one case per update history generated by TLC from Workspace.tla (exhaustive: every initial 3-file workspace over a small pool x every single update; "
                "-simulate: histories of 8..12 updates on 3..4 files over include/transaction/declaration menus incl. cycles, a missing target, files becoming "
                "unreachable and reachable again); non-trivial = at least one update whose new content has an include directive; distinct by history")
    run.assumptions = ["every update is also written to disk (as a save would) before UpdateFile", "which member file's payee template wins is left open in the CONTRACT (set of offers); the updated workspace and the rebuilt one must agree on it",
                       "order inside the transaction index is ignored"]
    run.finish(confirm=lambda d: confirm(run, d))


def confirm(run, d):
    c = d["case"]["spec_case"]
    hc = to_harness(2, c)          # index 2: the default root name ...
    if d["case"].get("root", "main.journal") == "0root.journal":
        hc = to_harness(0, c)      # ... index 0: the root found through the include graph
    if d["case"].get("root", "main.journal") == "zroot.journal":
        hc = to_harness(1, c)
    NAMES[1] = d["case"].get("root", "main.journal")
    res = run.harness("workspace", [hc])[0]
    return any(sig == d["sig"] for sig, _, _ in evaluate(c, res))
