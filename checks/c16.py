"""C16 — Completion is sound, complete for prefixes, bounded and frequency-ranked.

Completion.tla (over WorkspaceFiles.tla) knows the symbol tables of a workspace -- accounts,
payees, commodities, tag names, tag values, with use counts -- derives typed fragments from the
names (prefixes of length 0, 1, 2, half, full; an upper-cased prefix; a pure subsequence; a
non-matching string) and states for each fragment which names may be offered (subsequence match
with fuzzy on, prefix match with it off) and which must be (every name starting with the
fragment, when the limit allows).  Each fragment is typed into a probe document that includes
the workspace's root (header line, posting line, after an amount, in a header comment, after
`tag:`, on `account ` / `commodity ` lines), with and without a workspace root, under paired
configurations (maxResults 200/5/2/1 x fuzzy on/off x counts on/off).  Checked: every label is
an existing name that matches; every name with the fragment as prefix is offered when fewer
than maxResults items come back; never more than maxResults; a smaller maximum returns a prefix
of the list of a larger one; with nothing typed counts do not increase along the list; every
textEdit replaces exactly the fragment up to the cursor.
"""
import collections
import json
import os

import vf
import wcommon

CONFIGS = [
    {"maxResults": 200, "fuzzyMatching": True, "showCounts": True},
    {"maxResults": 5, "fuzzyMatching": True, "showCounts": True},
    {"maxResults": 2, "fuzzyMatching": True, "showCounts": True},
    {"maxResults": 200, "fuzzyMatching": False, "showCounts": True},
    {"maxResults": 1, "fuzzyMatching": False, "showCounts": True},
    {"maxResults": 200, "fuzzyMatching": True, "showCounts": False},
]
HEAD = "include main.journal\n\n"


def cfg(maxtx=2, shape=0):
    return ("CONSTANTS MaxTx = %d Shape = %d Extra = FALSE Prices = FALSE\nINIT Init\nNEXT Next\nINVARIANTS CTheorems CEmit\nCHECK_DEADLOCK FALSE\n" % (maxtx, shape))


def lone_surrogate(s):
    try:
        s.encode("utf-16-le")
        return False
    except UnicodeEncodeError:
        return True


def probe_text(p, anyacct, more=False):
    """(text of probe.journal, cursor line, cursor character, line layout id)"""
    q = p["q"]
    u = wcommon.u16len
    k = p["ctx"]
    # `more`: the less common places in which the same fragment may be typed (a third of the probes): other indents, after
    # a status mark, inside a virtual posting, after a code, in a cost and in an assertion
    if k == "account":
        out = [(HEAD + "2024-03-01\n    " + q, 3, 4 + u(q), "posting"), (HEAD + "account " + q, 2, 8 + u(q), "directive")]
        if more:
            for pre, lay in (("  ", "posting-indent-2"), ("\t", "posting-tab"), ("    * ", "posting-status"), ("    (", "posting-paren"), ("    ! [", "posting-status-bracket")):
                out.append((HEAD + "2024-03-01\n" + pre + q, 3, u(pre) + u(q), lay))
        return out
    if k == "payee":
        out = [(HEAD + "2024-03-01 " + q, 2, 11 + u(q), "header")]
        if more:
            for pre, lay in (("2024-03-01 * ", "header-status"), ("2024-03-01 (123) ", "header-code"), ("2024-03-01=2024-03-02 ! (x) ", "header-date2-status-code"),
                             ("2024-03-01 (№ЖЖЖЖЖЖЖЖ😀) ", "header-code-nonascii")):
                out.append((HEAD + pre + q, 2, u(pre) + u(q), lay))
        if q == "":
            # the cursor still inside (or right after) the date: whatever is offered there may only be INSERTED at the cursor
            # (the fragment is empty); whether anything is offered is left open
            out.append((HEAD + "2024-03", 2, 7, "header-in-date"))
            out.append((HEAD + "2024-03-01", 2, 10, "header-in-date-end"))
        return out
    if k == "commodity":
        pre = "    " + anyacct + "  10 "
        out = [(HEAD + "2024-03-01\n" + pre + q, 3, u(pre) + u(q), "after-amount"), (HEAD + "commodity " + q, 2, 10 + u(q), "directive")]
        # the amount in front is written in a commodity the workspace already has (a new one would itself become a name)
        import re as _re
        have = [r["name"] for r in p["counts"] if _re.match(r"^[A-Za-z]+$", r["name"])]
        if more:
            # quantities in the other notations of 4.3 in front of the commodity: blank digit-group marks, an exponent
            for num, lay in (("1 000,50", "after-amount-blank-groups"), ("-1 234 567", "after-amount-blank-groups-neg"), ("1E3", "after-amount-exponent"), ("1.5e-2", "after-amount-exponent-neg")):
                pre4 = "    " + anyacct + "  " + num + " "
                out.append((HEAD + "2024-03-01\n" + pre4 + q, 3, u(pre4) + u(q), lay))
        if more:
            # many bytes, few UTF-16 units in front of the fragment: byte offsets and columns must not be mixed up
            pre3 = "    Расходы:Продукты😀  10 "
            out.append((HEAD + "2024-03-01\n" + pre3 + q, 3, u(pre3) + u(q), "after-amount-nonascii-account"))
        if more and have:
            w = sorted(have)[0]
            for pre2, lay in (("    " + anyacct + "  10 " + w + " @ 2 ", "in-cost"), ("    " + anyacct + "  10 " + w + " @@ 20 ", "in-total-cost"), ("    " + anyacct + "  10 " + w + " = 50 ", "in-assertion")):
                out.append((HEAD + "2024-03-01\n" + pre2 + q, 3, u(pre2) + u(q), lay))
        return out
    if k == "tagname":
        return [(HEAD + "2024-03-01  ; " + q, 2, 14 + u(q), "header-comment"),
                (HEAD + "2024-03-01\n    " + anyacct + "  1  ; " + q, 3, u("    " + anyacct + "  1  ; ") + u(q), "posting-comment")]
    if k == "tagvalue":
        pre = "2024-03-01  ; " + p["tag"] + ":"
        return [(HEAD + pre + q, 2, u(pre) + u(q), "header-comment")]
    return []


def build(c, ws, conf):
    files = wcommon.files_of(c)
    files["probe.journal"] = HEAD
    accts = sorted(r["account"] for r in c["tables"][0]["postings"])
    anyacct = accts[0] if accts else "assets:bank"
    ops = [{"op": "open", "file": "probe.journal", "text": HEAD}]
    meta = []
    for pi, p in enumerate(sorted(c["probes"], key=lambda p: (p["ctx"], p["tag"], p["q"]))):
        if lone_surrogate(p["q"]) or "?" in p["q"] or "\ufffd" in p["q"]:
            continue        # a prefix cut inside a surrogate pair (TLC prints the lone half as '?'): nobody types that
        for text, line, ch, layout in probe_text(p, anyacct, more=(pi % 3 == 0)):
            ops.append({"op": "change", "file": "probe.journal", "text": text})
            ops.append({"op": "req", "file": "probe.journal", "kind": "completion", "line": line, "char": ch})
            meta.append({"p": p, "op_index": len(ops) - 1, "line": line, "char": ch, "layout": layout, "text": text})
    return {"files": files, "workspace": ws, "settings": {"completion": conf}, "ops": ops}, meta


def labels_of(reply):
    return [it["label"] for it in (reply or {}).get("items") or []]


def evaluate(c, ws, metas, results):
    """metas/results: per configuration (same probes in the same order)"""
    divs = []
    base = metas[0]
    for i, m in enumerate(base):
        p = m["p"]
        q = p["q"]
        where = "%s context (%s), typed %r, workspace root %s" % (p["ctx"], m["layout"], q, ws)
        own = {q, q.rstrip(":"), q.strip()}
        lists = []
        for conf, res in zip(CONFIGS, results):
            st = res["steps"][m["op_index"]]
            reply = st.get("reply")
            labs = labels_of(reply)
            lists.append(labs)
            cdesc = "max %d, fuzzy %s" % (conf["maxResults"], conf["fuzzyMatching"])
            allowed = set(p["fuzzy"] if conf["fuzzyMatching"] else p["prefix"])
            bad = [l for l in labs if l not in allowed and l not in own]
            if bad:
                known = {r["name"] for r in p["counts"]}
                sig = "unsound:not-a-name" if any(b not in known for b in bad) else "unsound:does-not-match"
                divs.append((sig, "%s [%s]: offered %s; names that %s: %s" % (where, cdesc, bad[:5], "contain the fragment as a subsequence" if conf["fuzzyMatching"] else "start with the fragment", sorted(allowed)[:8])))
            if len(labs) > conf["maxResults"]:
                divs.append(("over-limit", "%s [%s]: %d items" % (where, cdesc, len(labs))))
            if len(labs) < conf["maxResults"] and not m["layout"].startswith("header-in-date"):
                missing = [n for n in p["prefix"] if n not in labs]
                if missing:
                    divs.append(("incomplete:" + p["ctx"], "%s [%s]: %d items offered %s, names starting with the fragment not offered: %s" % (where, cdesc, len(labs), labs[:6], missing[:6])))
            if len(set(labs)) != len(labs):
                divs.append(("duplicate-label", "%s [%s]: %s" % (where, cdesc, [l for l in labs if labs.count(l) > 1][:3])))
            if q == "" and p["ctx"] in ("account", "payee", "tagname") and conf["maxResults"] >= 200:
                cnt = {r["name"]: r["n"] for r in p["counts"]}
                seq = [cnt.get(l, 0) for l in labs if l in cnt]
                if any(a < b for a, b in zip(seq, seq[1:])):
                    divs.append(("not-ranked-by-use", "%s [%s]: use counts along the list %s" % (where, cdesc, list(zip(labs, seq))[:8])))
            cur = (m["line"], m["char"])
            start = (m["line"], m["char"] - wcommon.u16len(q))
            for it in (reply or {}).get("items") or []:
                te = it.get("textEdit")
                if not te:
                    continue
                r = te["range"]
                got = ((r["start"]["line"], r["start"]["character"]), (r["end"]["line"], r["end"]["character"]))
                if got != (start, cur):
                    divs.append(("edit-range:" + m["layout"], "%s [%s]: item %r replaces %s, the typed fragment is %s..%s on %r" % (
                        where, cdesc, it["label"], got, start, cur, m["text"].split("\n")[m["line"]])))
                    break
        # limit law between configurations that differ only in maxResults
        for (a, b) in ((1, 0), (2, 0), (2, 1), (4, 3)):
            small, big = lists[a], lists[b]
            if small != big[:len(small)] or len(small) != min(CONFIGS[a]["maxResults"], len(big)):
                divs.append(("limit-not-a-prefix", "%s: with max %d %s, with max %d %s" % (where, CONFIGS[a]["maxResults"], small[:6], CONFIGS[b]["maxResults"], big[:8])))
        if lists[0] != lists[5]:
            divs.append(("counts-setting-changes-list", "%s: with counts shown %s, hidden %s" % (where, lists[0][:6], lists[5][:6])))
    seen = set()
    return [(s, w) for s, w in divs if not (s in seen or seen.add(s))]


def main(args):
    run = vf.Run("C16", args.tier, args.seed, level="exploration")
    thorough = run.tier == "thorough"
    if args.replay:
        with open(args.replay) as f:
            rp = json.load(f)
        combos = [(rp["case"]["spec_case"], rp["case"]["ws"])]
    else:
        js = run.tlc_simulate_many("Completion", cfg(2), 24 if not thorough else 600, 2, procs=8, timeout=3000)
        seen = set()
        cases = []
        for c in sorted(js, key=lambda c: json.dumps([f["lines"] for f in c["files"]], ensure_ascii=False)):
            k = json.dumps([f["lines"] for f in c["files"]], ensure_ascii=False)
            if k not in seen:
                seen.add(k)
                cases.append(c)
        combos = [(c, ws) for c in cases for ws in (False, True)]
    hcs = []
    metas = []
    for c, ws in combos:
        ms = []
        for conf in CONFIGS:
            hc, meta = build(c, ws, conf)
            hc["id"] = str(len(hcs))
            hcs.append(hc)
            ms.append(meta)
        metas.append(ms)
    results = run.harness("script", hcs, timeout=3400)
    table = collections.Counter()
    nreq = 0
    for k, ((c, ws), ms) in enumerate(zip(combos, metas)):
        rs = results[k * len(CONFIGS):(k + 1) * len(CONFIGS)]
        run.count(vf.digest([[f["lines"] for f in c["files"]], ws]), len(ms[0]) > 0)
        nreq += len(ms[0]) * len(CONFIGS)
        case = {"spec_case": c, "ws": ws}
        pan = [r for r in rs if "panic" in r]
        if pan:
            run.diverge("panic", "server panicked: " + pan[0]["panic"][:300], case, None)
            continue
        for sig, what in evaluate(c, ws, ms, rs):
            table[(sig, ws)] += 1
            run.diverge(sig, what, case, None)
    if os.environ.get("VERIF_TABLE"):
        for k, n in sorted(table.items(), key=str):
            print("TABLE", k, n)
    run.traces_validated = len(combos)
    run.extra["completion_requests"] = nreq
    c = combos[0][0]
    run.sample({"files": wcommon.files_of(c), "probes": sorted(c["probes"], key=lambda p: (p["ctx"], p["q"]))[:6]})
    run.rule = ("one evaluation per (workspace simulated by Completion.tla/WorkspaceFiles.tla, workspace root on/off): every fragment of every context kind typed into a probe document "
                "under 6 configurations; non-trivial = at least one probe; distinct by (files, root)")
    run.assumptions = ["the probe document includes main.journal and contains nothing else but the line being typed; the token being typed itself may be offered",
                       "case is flipped on ASCII letters only", "frequency order is checked for accounts (postings), payees (transactions) and tag names (uses); ties are free",
                       "items without a textEdit are not judged on the replaced range",
                       "with fuzzy matching on, a fragment that ends in a colon may be matched without that colon ('food:' offers expenses:food)"]
    run.finish(confirm=lambda d: confirm(run, d))


def confirm(run, d):
    c, ws = d["case"]["spec_case"], d["case"]["ws"]
    hcs, ms = [], []
    for conf in CONFIGS:
        hc, meta = build(c, ws, conf)
        hc["id"] = str(len(hcs))
        hcs.append(hc)
        ms.append(meta)
    rs = run.harness("script", hcs)
    if any("panic" in r for r in rs):
        return d["sig"] == "panic"
    # a defect that depends on map iteration order shows under varying signatures: the case must diverge again, in any clause
    return len(evaluate(c, ws, ms, rs)) > 0
