"""Shared helpers for the checks that consume Journal.tla / JournalGen.tla cases."""
import json

import vf


def gen_cfg(family, maxentries=6, withlex=False):
    return ("CONSTANTS Family = \"%s\" MaxEntries = %d WithLex = %s\nINIT Init\nNEXT Next\nINVARIANTS Emit\nCHECK_DEADLOCK FALSE\n"
            % (family, maxentries, "TRUE" if withlex else "FALSE"))


def family(run, fam, withlex=False, workers=8, timeout=2400):
    r = run.tlc("JournalGen", gen_cfg(fam, withlex=withlex), workers=workers, timeout=timeout)
    return r.json


def random_cases(run, num, maxentries=6, withlex=False, timeout=2400):
    r = run.tlc("JournalGen", gen_cfg("random", maxentries, withlex), mode="simulate", simulate=num, depth=2, workers=1, timeout=timeout)
    seen = set()
    out = []
    for c in r.json:
        k = json.dumps(c["lines"], ensure_ascii=False)
        if k not in seen:
            seen.add(k)
            out.append(c)
    return out


def text_of(case, eol=None, final=None):
    eol = eol or case.get("eol", "LF")
    final = case.get("final", True) if final is None else final
    sep = "\r\n" if eol == "CRLF" else "\n"
    t = sep.join(case["lines"])
    if final:
        t += sep
    return t


# ---------------------------------------------------------------- exact decimals
def canon_spec_amount(a):
    """spec amount [mant, scale, comm, side] -> canonical (int, scale) with no trailing zero digits"""
    m, s = a["mant"], a["scale"]
    while s > 0 and m % 10 == 0:
        m //= 10
        s -= 1
    return (m, s)


def canon_proj_amount(a):
    m, e = int(a["coeff"]), a["exp"]
    if e >= 0:
        return (m * (10 ** e), 0)
    s = -e
    while s > 0 and m % 10 == 0:
        m //= 10
        s -= 1
    return (m, s)


def dec_str(ms):
    m, s = ms
    sign = "-" if m < 0 else ""
    d = str(abs(m)).rjust(s + 1, "0")
    return sign + (d[:-s] + "." + d[-s:] if s else d)


def cmp_amount(path, sa, pa, out):
    if canon_spec_amount(sa) != canon_proj_amount(pa):
        out.append((path + ".value", "%s: quantity %s, written %s" % (path, dec_str(canon_proj_amount(pa)), dec_str(canon_spec_amount(sa)))))
    if sa["comm"] != pa["comm"]:
        out.append((path + ".commodity", "%s: commodity %r, written %r" % (path, pa["comm"], sa["comm"])))
    elif sa["side"] != pa["side"]:
        out.append((path + ".side", "%s: commodity side %r, written %r" % (path, pa["side"], sa["side"])))


def cmp_opt(path, s_list, p_list, fn, out):
    if len(s_list) != len(p_list):
        out.append((path + (".missing" if s_list else ".spurious"), "%s: %s" % (path, "not recognised" if s_list else "recognised but not written")))
        return
    if s_list:
        fn(path, s_list[0], p_list[0], out)


def tags_of(lst):
    return sorted((t[0], t[1]) for t in (lst or []))


def compare_entry(se, pe, out, strict_comments=False):
    t = se["type"]
    if t == "tx":
        if se["date"] != pe.get("date"):
            out.append(("tx.date", "date %s, written %s" % (pe.get("date"), se["date"])))
        if list(se["date2"]) != list(pe.get("date2") or []):
            out.append(("tx.date2", "secondary date %s, written %s" % (pe.get("date2"), se["date2"])))
        for f in ("status", "code", "payee", "note"):
            if se[f] != pe.get(f, ""):
                out.append(("tx." + f, "%s %r, written %r" % (f, pe.get(f, ""), se[f])))
        if se["desc"] != pe.get("desc", ""):
            out.append(("tx.desc", "description %r, written %r" % (pe.get("desc", ""), se["desc"])))
        if tags_of(se["tags"]) != tags_of(pe.get("tags")):
            out.append(("tx.tags", "transaction tags %s, written %s" % (tags_of(pe.get("tags")), tags_of(se["tags"]))))
        sp, pp = se["postings"], pe.get("postings") or []
        if len(sp) != len(pp):
            out.append(("tx.postings.count", "%d postings recognised, %d written (accounts %s)" % (len(pp), len(sp), [p["account"] for p in pp])))
            return
        for i, (a, b) in enumerate(zip(sp, pp)):
            path = "posting"
            if a["account"] != b["account"]:
                out.append((path + ".account", "posting %d: account %r, written %r" % (i + 1, b["account"], a["account"])))
            if a["kind"] != b["kind"]:
                out.append((path + ".kind", "posting %d: kind %r, written %r" % (i + 1, b["kind"], a["kind"])))
            if a["status"] != b["status"]:
                out.append((path + ".status", "posting %d: status %r, written %r" % (i + 1, b["status"], a["status"])))
            cmp_opt(path + ".amount", a["amount"], b["amount"], cmp_amount, out)

            def cmp_cost(pth, x, y, o):
                if x["total"] != y["total"]:
                    o.append((pth + ".kind", "%s: total=%s, written total=%s" % (pth, y["total"], x["total"])))
                cmp_amount(pth, x["amount"], y["amount"], o)

            def cmp_assert(pth, x, y, o):
                if x["strict"] != y["strict"]:
                    o.append((pth + ".kind", "%s: strict=%s, written strict=%s" % (pth, y["strict"], x["strict"])))
                cmp_amount(pth, x["amount"], y["amount"], o)
            cmp_opt(path + ".cost", a["cost"], b["cost"], cmp_cost, out)
            cmp_opt(path + ".assert", a["assert"], b["assert"], cmp_assert, out)
            if tags_of(a["tags"]) != tags_of(b["tags"]):
                out.append((path + ".tags", "posting %d: tags %s, written %s" % (i + 1, tags_of(b["tags"]), tags_of(a["tags"]))))
            if a["comment"].strip() != b["comment"].strip():
                out.append((path + ".comment", "posting %d: comment %r, written %r" % (i + 1, b["comment"], a["comment"])))
    elif t == "account":
        if se["name"] != pe.get("name"):
            out.append(("dir.account.name", "account directive: name %r, written %r" % (pe.get("name"), se["name"])))
    elif t == "commodity":
        if se["symbol"] != pe.get("symbol", ""):
            out.append(("dir.commodity.symbol", "commodity directive: symbol %r, written %r" % (pe.get("symbol"), se["symbol"])))
        if se["format"] != pe.get("format", ""):
            out.append(("dir.commodity.format", "commodity directive: format %r, written %r" % (pe.get("format"), se["format"])))
    elif t == "include":
        if se["path"] != pe.get("path"):
            out.append(("dir.include.path", "include: path %r, written %r" % (pe.get("path"), se["path"])))
    elif t == "P":
        if se["date"] != pe.get("date"):
            out.append(("dir.P.date", "P directive: date %s, written %s" % (pe.get("date"), se["date"])))
        if se["symbol"] != pe.get("symbol"):
            out.append(("dir.P.symbol", "P directive: commodity %r, written %r" % (pe.get("symbol"), se["symbol"])))
        cmp_opt("dir.P.amount", [se["amount"]], pe.get("amount") or [], cmp_amount, out)
    elif t == "Y":
        if se["year"] != pe.get("year"):
            out.append(("dir.Y.year", "Y directive: year %r, written %r" % (pe.get("year"), se["year"])))
    elif t == "D":
        if se["symbol"] != pe.get("symbol", ""):
            out.append(("dir.D.symbol", "D directive: symbol %r, written %r" % (pe.get("symbol"), se["symbol"])))
        if se["format"] != pe.get("format", ""):
            out.append(("dir.D.format", "D directive: format %r, written %r" % (pe.get("format"), se["format"])))
    elif t == "comment":
        if se["text"].strip() != (pe.get("text") or "").strip():
            out.append(("comment.text", "comment %r, written %r" % (pe.get("text"), se["text"])))


def compare_journal(case, res, only=None, ignore_errs=False):
    """Compare the spec's abstract journal with the projection of the parser's result.
    Returns list of (sig, what).  `only`: optional set of entry indices to compare (C07)."""
    out = []
    for e in ([] if ignore_errs else res["errs"]):
        out.append(("syntax-error", "syntax error at %d:%d: %s" % (e["line"], e["col"], e["msg"])))
        break
    res = dict(res, entries=res.get("entries") or [], errs=res.get("errs") or [])
    by_line = {}
    for pe in res["entries"]:
        by_line.setdefault(pe["line"], []).append(pe)
    used = set()
    for i, se in enumerate(case["abs"]):
        if only is not None and i not in only:
            continue
        if se["type"] == "blank":
            continue
        line = case["firsts"][i]
        cands = [pe for pe in by_line.get(line, []) if pe["type"] == se["type"]]
        if not cands:
            others = [pe["type"] for pe in by_line.get(line, [])]
            out.append(("entry-missing:" + se["type"], "line %d: %s not recognised (found %s)" % (line, se["type"], others or "nothing")))
            continue
        pe = cands[0]
        used.add(id(pe))
        compare_entry(se, pe, out)
    if only is None:
        for pe in res["entries"]:
            if id(pe) not in used:
                out.append(("entry-extra:" + pe["type"], "line %d: a %s was recognised that the text does not contain" % (pe["line"], pe["type"])))
                break
    # one finding per signature
    seen = set()
    uniq = []
    for sig, what in out:
        if sig not in seen:
            seen.add(sig)
            uniq.append((sig, what))
    return uniq


# ---------------------------------------------------------------- projection vs projection
def canon_projection(res):
    """canonical, comparable form of a ProjectJournal result: what the parser understood of a text,
    without spelling (raw numbers, blanks around comments)"""
    def amt(a):
        return (canon_proj_amount(a), a["comm"], a["side"])

    def ent(e):
        d = dict(e)
        d.pop("endLine", None)
        # blanks at the ends of a text field are spelling, not content (an unterminated code or a description reaching
        # the end of the line loses its trailing blanks when the line is trimmed)
        for k in ("comment", "text", "code", "desc", "payee", "note", "name", "symbol", "format", "path"):
            if k in d and isinstance(d[k], str):
                d[k] = d[k].strip()
        # an empty comment ("account a:b  ;") says nothing: present-but-empty and absent are the same content
        if d.get("comment", None) == "":
            d.pop("comment")
        if "comments" in d:
            d["comments"] = [x.strip() for x in d["comments"] or [] if x.strip()]
        if "amount" in d:
            d["amount"] = [amt(a) for a in d["amount"] or []]
        ps = []
        for p in d.get("postings") or []:
            q = dict(p)
            q["comment"] = (q.get("comment") or "").strip()
            q["amount"] = [amt(a) for a in q.get("amount") or []]
            q["cost"] = [(c["total"], amt(c["amount"])) for c in q.get("cost") or []]
            q["assert"] = [(c["strict"], amt(c["amount"])) for c in q.get("assert") or []]
            q["tags"] = sorted(map(tuple, q.get("tags") or []))
            ps.append(q)
        d["postings"] = ps
        d["tags"] = sorted(map(tuple, d.get("tags") or []))
        return json.dumps(d, sort_keys=True, ensure_ascii=False, default=str)
    return [ent(e) for e in res.get("entries") or []], sorted((e["line"], e["msg"]) for e in res.get("errs") or [])
