"""C01 — Document mirror fidelity under any edit history.

DocSync.tla is the reference LSP client buffer.  TLC (a) enumerates every text of length <= 3
over {ASCII, BMP, astral, LF, CR-before-LF} x every single content change (every pair of
valid positions incl. one past each line end and one past the last line, x 5 replacement
texts, plus range-less changes) and checks the contract's theorems (TypeOK, ClampOK,
EmptyRangeIsInsertion), and (b) simulates long histories on two documents with 1..3 changes
per notification, close and re-open.  Every behaviour is replayed on a real server.Server;
after EVERY notification the server's text must equal the reference text, and every
document-only answer (symbols, folding, links, semantic tokens, formatting, published
diagnostics) must equal the answer of a fresh server that was only ever given the reference
text.
"""
import json

import vf

CH = {"a": "a", "e": "é", "A": "\U0001F600", "N": "\n", "R": "\r"}


def real(seq):
    return "".join(CH[s] for s in seq)


MC = ("---- MODULE MCDocSync ----\nEXTENDS DocSync\n"
      "MInsert == {<<>>, <<\"a\">>, <<\"N\">>, <<\"e\", \"A\">>, <<\"a\", \"R\", \"N\", \"a\">>}\n====\n")


def cfg(uris, maxlen, maxops, zero, two, rand, props=True):
    s = ("CONSTANTS URIs = {%s}  MaxLen = %d  MaxOps = %d  AllowZeroRange = %s  TwoChanges = %s  Rand = %s\n InsertTexts <- MInsert\n"
         % (", ".join('"%s"' % u for u in uris), maxlen, maxops, "TRUE" if zero else "FALSE", "TRUE" if two else "FALSE", "TRUE" if rand else "FALSE"))
    s += "SPECIFICATION Spec\nINVARIANTS TypeOK ClampOK Emit\n"
    if props:
        s += "PROPERTIES EmptyRangeIsInsertion\n"
    s += "CHECK_DEADLOCK FALSE\n"
    return s


def zero_range(c):
    return c["ranged"] and c["sl"] == 0 and c["sc"] == 0 and c["el"] == 0 and c["ec"] == 0


def trigger_of(h):
    n = sum(1 for st in h if st["op"] == "change" for c in st["changes"] if zero_range(c))
    if n == 0:
        return None
    return "ranged-change-at-0:0" if n == 1 else "multi"


def gen(run):
    thorough = run.tier == "thorough"
    out = []
    r = run.tlc("MCDocSync", cfg(["u1"], 3 if thorough else 2, 2, True, False, False), workers=8, timeout=2400,
                extra_modules={"MCDocSync": MC})
    out += [("single", h) for h in r.json]
    if not thorough:
        # a seeded sample of the length-3 space as well
        r = run.tlc("MCDocSync", cfg(["u1"], 3, 2, True, False, False, props=False), workers=8, timeout=2400,
                    extra_modules={"MCDocSync": MC})
        hs = r.json
        out += [("single3", h) for h in run.rng.sample(hs, min(len(hs), 2500))]
    else:
        # open + one notification carrying two content changes, texts <= 2 symbols: 152 695 states (measured, 7 s); a third
        # notification multiplies that by ~78 000 and does not finish, a third symbol gives 1.28 million histories
        r = run.tlc("MCDocSync", cfg(["u1"], 2, 2, False, True, False, props=False), workers=8, timeout=3000,
                    extra_modules={"MCDocSync": MC})
        hs = r.json
        out += [("double2", h) for h in run.rng.sample(hs, min(len(hs), 60000))]
    for (maxlen, depth, num) in ([(4, 8, 300)] if not thorough else [(4, 8, 4000), (6, 10, 1500)]):
        r = run.tlc("MCDocSync", cfg(["u1", "u2"], maxlen, depth, False, True, True, props=False), mode="simulate",
                    simulate=num, depth=depth + 1, workers=1, timeout=2400, extra_modules={"MCDocSync": MC})
        seen = set()
        for h in r.json:
            k = json.dumps(h, sort_keys=True)
            if k not in seen:
                seen.add(k)
                out.append(("sim%d_%d" % (maxlen, depth), h))
    return out


def to_harness(idx, h, probe):
    ops = []
    for st in h:
        if st["op"] == "open":
            ops.append({"op": "open", "uri": st["uri"], "text": real(st["text"]), "expect": real(st["expect"])})
        elif st["op"] == "close":
            ops.append({"op": "close", "uri": st["uri"]})
        else:
            ops.append({"op": "change", "uri": st["uri"], "expect": real(st["expect"]),
                        "changes": [{"ranged": c["ranged"], "sl": c["sl"], "sc": c["sc"], "el": c["el"], "ec": c["ec"],
                                     "text": real(c["text"])} for c in st["changes"]]})
    return {"id": str(idx), "ops": ops, "probe": probe}


def evaluate(h, res):
    if "panic" in res:
        return [("panic", "server panicked: " + res["panic"])]
    divs = []
    for k, (st, step) in enumerate(zip(h, res["steps"])):
        if st["op"] == "close":
            if step["open"]:
                divs.append(("close-keeps-document", "step %d: document still present after didClose" % k))
                break
            continue
        want = real(st["expect"])
        if not step["open"]:
            divs.append(("document-missing", "step %d (%s): server holds no document" % (k, st["op"])))
            break
        if step["text"] != want:
            sig = "text-mismatch"
            if st["op"] == "change":
                cs = st["changes"]
                if len(cs) == 1 and zero_range(cs[0]) and step["text"] == real(cs[0]["text"]):
                    sig = "ranged-0:0-replaces-document"
                elif any("R" in x for x in [h[j].get("expect", []) for j in range(k)] ) and _crlf_clamp(h, k, step["text"]):
                    sig = "crlf-past-end-clamps-after-cr"
            divs.append((sig, "step %d (%s %s): server text %r, reference client text %r" % (
                k, st["op"], json.dumps(st.get("changes", ""))[:200], step["text"], want)))
            break
        if step.get("probeDiff"):
            kinds = sorted(step["probeDiff"])
            a, b = step["probeDiff"][kinds[0]]
            divs.append(("stale-answer:" + kinds[0], "step %d: %s answered from something other than the current text: shared %s vs fresh %s" % (
                k, kinds, a[:200], b[:200])))
            break
    return divs


def _crlf_clamp(h, k, got):
    """classifier for the CRLF clamp finding: the server's text equals the reference text computed with the rule
    'CR belongs to the line' — i.e. the inserted text landed between CR and LF."""
    return "\r" in got and any(got[i] == "\r" and (i + 1 >= len(got) or got[i + 1] != "\n") for i in range(len(got)))


def main(args):
    run = vf.Run("C01", args.tier, args.seed, level="model_checking")
    if args.replay:
        with open(args.replay) as f:
            rp = json.load(f)
        hs = [(rp["case"]["family"], rp["case"]["history"])]
    else:
        hs = gen(run)
    hcases = [to_harness(i, h, probe=(fam.startswith("sim") or i % 7 == 0)) for i, (fam, h) in enumerate(hs)]
    results = run.harness("docsync", hcases, timeout=3000)
    for (fam, h), hc, res in zip(hs, hcases, results):
        nt = any(st["op"] == "change" and any(c["ranged"] for c in st["changes"]) for st in h)
        run.count(vf.digest(h), nt)
        trig = trigger_of(h)
        for sig, what in evaluate(h, res):
            run.diverge(sig, what, {"family": fam, "history": h, "probe": hc["probe"]}, res, trigger=trig)
    run.traces_validated = len(hs)
    sims = [h for fam, h in hs if fam.startswith("sim")]
    if sims:
        run.sample({"history": sims[0], "as_text": to_harness(0, sims[0], False)["ops"]})
    run.sample({"history": hs[len(hs) // 3][1]})
    run.rule = ("one case per behaviour of DocSync.tla: exhaustive (every text of length <= 2 [thorough 3] over ASCII/BMP/astral/LF/CRLF x every single content change "
                "over all valid position pairs x 5 replacement texts + range-less), a seeded sample of the length-3 space, and simulated histories of 8..10 notifications "
                "with 1..3 changes each on two documents incl. close/re-open; non-trivial = contains a ranged change; distinct by history")
    run.assumptions = ["positions inside a surrogate pair and lone-CR line ends are not generated (outside the quantifier)",
                       "feature answers are compared at quiescence (background job done); answers during background work are C14's business",
                       "API mode: a range-less change reaches DidChange as a zero Range, exactly as go.lsp.dev/protocol decodes it"]
    run.finish(confirm=lambda d: confirm(run, d))


def confirm(run, d):
    h = d["case"]["history"]
    res = run.harness("docsync", [to_harness(0, h, d["case"].get("probe", False))])[0]
    return any(sig == d["sig"] for sig, _ in evaluate(h, res))
