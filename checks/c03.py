"""C03 — Supported journals parse silently and faithfully.

JournalGen.tla enumerates (i) a baseline transaction x every amount spelling of G (also as cost
and as balance assertion), (ii) every header spelling, (iii) every posting spelling, (iv) every
ordered pair (and triples) of constructs from a menu of 27, and simulates (v) random journals of
1..8 entries with LF/CRLF line ends and with/without a final line end.  For each case the spec
supplies the text and the abstract journal it was rendered from; parser.Parse(text) is
projected into the same vocabulary and compared field by field; any syntax error is a
divergence.  Single-trigger cases (trigger descriptions) are kept apart from the clean region.
"""
import collections
import json
import os

import vf
import jcommon


def gen(run):
    thorough = run.tier == "thorough"
    cases = []
    for fam, cap in (("pairs", None), ("headers", 1500), ("amounts", 2500), ("postings", 2500), ("desc-chars", 3000), ("lexicon", None)):
        cs = jcommon.family(run, fam)
        if not thorough and cap:
            # sample only the big sub-families; keep every trigger case and every small sub-family whole
            by = {}
            for c in cs:
                by.setdefault(c["fam"], []).append(c)
            cs = []
            for sub, lst in sorted(by.items()):
                if len(lst) > cap:
                    trig = [c for c in lst if c["trig"]]
                    rest = [c for c in lst if not c["trig"]]
                    lst = trig + run.rng.sample(rest, cap)
                cs += lst
        cases += cs
    cases += jcommon.random_cases(run, 600 if not thorough else 20000, maxentries=8)
    return cases


def variants(run, idx, c):
    """line-end variants of a case: random journals carry their own; enumerated cases get LF+final and,
    for a seeded sample, the other three"""
    if c["fam"] == "random":
        return [(c.get("eol", "LF"), c.get("final", True))]
    v = [("LF", True)]
    k = (idx + run.seed) % 12
    if k == 0:
        v.append(("CRLF", True))
    elif k == 1:
        v.append(("LF", False))
    elif k == 2:
        v.append(("CRLF", False))
    return v


def trigger_of(c, eol, final):
    trigs = []
    if c["trig"]:
        trigs.append(c["trig"])
    if eol == "CRLF":
        trigs.append("crlf")
    if len(trigs) == 0:
        return None
    if len(trigs) == 1:
        return trigs[0]
    return "multi"


def main(args):
    run = vf.Run("C03", args.tier, args.seed, level="model_checking")
    if args.replay:
        with open(args.replay) as f:
            rp = json.load(f)
        items = [(rp["case"]["spec_case"], rp["case"]["eol"], rp["case"]["final"])]
    else:
        cases = gen(run)
        items = []
        for i, c in enumerate(cases):
            for eol, final in variants(run, i, c):
                items.append((c, eol, final))
    hcases = [{"id": str(i), "text": jcommon.text_of(c, eol, final)} for i, (c, eol, final) in enumerate(items)]
    results = run.harness("parse", hcases, timeout=3000)
    table = collections.Counter()
    for (c, eol, final), hc, res in zip(items, hcases, results):
        run.count(vf.digest([c["lines"], eol, final]), len(c["lines"]) > 0)
        trig = trigger_of(c, eol, final)
        if "panic" in res:
            run.diverge("panic", "parser panicked: " + res["panic"], {"spec_case": c, "eol": eol, "final": final}, None, trigger=trig)
            continue
        for sig, what in jcommon.compare_journal(c, res):
            table[(c["fam"], trig or "", sig)] += 1
            run.diverge(sig, "%s  [text %r]" % (what, hc["text"][:160]), {"spec_case": c, "eol": eol, "final": final}, None, trigger=trig)
    if os.environ.get("VERIF_TABLE"):
        for k, n in sorted(table.items()):
            print("TABLE", k, n)
    run.traces_validated = len(items)
    run.sample({"text": hcases[0]["text"], "abstract": items[0][0]["abs"]})
    rnd = [(c, h) for (c, _, _), h in zip(items, hcases) if c["fam"] == "random"]
    if rnd:
        run.sample({"text": rnd[0][1]["text"], "abstract": rnd[0][0]["abs"]})
    run.rule = ("one case per journal enumerated/simulated by JournalGen.tla x line-end variant; families amounts / headers / postings / pairs+triples of 27 constructs / random; "
                "non-trivial = non-empty journal; distinct by (lines, eol, final)")
    run.assumptions = ["grammar G of DESIGN.md 4.2; the ambiguous one-mark-three-digits number spelling is never generated",
                       "comment text is compared modulo surrounding blanks"]
    run.finish(confirm=lambda d: confirm(run, d))


def confirm(run, d):
    c = d["case"]["spec_case"]
    res = run.harness("parse", [{"id": "0", "text": jcommon.text_of(c, d["case"]["eol"], d["case"]["final"])}])[0]
    if "panic" in res:
        return d["sig"] == "panic"
    return any(sig == d["sig"] for sig, _ in jcommon.compare_journal(c, res))
