"""C20 — Hover figures are exact aggregates over the whole include tree.

WorkspaceFiles.tla simulates workspaces of 1..4 files (8 include shapes) whose files share
accounts, payees, tags and commodities, with amounts in every notation of G and up to 12
decimals, and computes for every include tree the exact per-(account, commodity) totals of the
explicitly written amounts (one integer per written scale), posting counts, per-payee
transaction counts and tag / tag-value uses.  Every workspace is written to disk and served
twice (with and without a workspace root); from every file, the hover on every occurrence of
every account (on postings), payee, tag name, tag value and amount is requested at its first,
middle and last character; the markdown is parsed back into figures which must equal the
spec's values for the scope of the request (the root's tree with a workspace root, the open
file's own tree without).
"""
import collections
import json
import os
import re
from decimal import Decimal, InvalidOperation

import vf
import wcommon


def probes_of(f):
    """(line0, col, kind, info) for every hoverable lexeme of a spec file"""
    out = []
    for li, lex in enumerate(f["lex"]):
        ent, post = f["pmap"][li]
        if ent == 0:
            continue
        e = f["abs"][ent - 1]
        if e["type"] != "tx":
            continue
        for j, lx in enumerate(lex):
            k = lx["k"]
            cols = sorted({lx["c0"], (lx["c0"] + lx["c1"]) // 2, max(lx["c0"], lx["c1"] - 1)})
            if k == "account":
                info = {"name": lx["t"]}
            elif k == "payee":
                info = {"name": lx["t"]}
            elif k == "tagname":
                val = lex[j + 1]["t"] if j + 1 < len(lex) and lex[j + 1]["k"] == "tagvalue" else ""
                info = {"name": lx["t"][:-1], "value": val}
                cols = sorted({lx["c0"], (lx["c0"] + lx["c1"] - 1) // 2, max(lx["c0"], lx["c1"] - 2)})   # the lexeme includes the colon
            elif k == "tagvalue":
                info = {"name": lex[j - 1]["t"][:-1], "value": lx["t"]}
            elif k == "amount" and post > 0:
                p = e["postings"][post - 1]
                info = {"amount": p["amount"][0], "cost": p["cost"][0] if p["cost"] else None}
            else:
                continue
            for c in cols:
                out.append((li, c, k, info))
    return out


def mid_surrogate(line, col):
    b = line.encode("utf-16-le")
    if col <= 0 or 2 * col >= len(b):
        return False
    unit = int.from_bytes(b[2 * col:2 * col + 2], "little")
    return 0xDC00 <= unit <= 0xDFFF


def script_case(idx, c, ws, origin, warm=False, retype=False, stale=False):
    files = wcommon.files_of(c)
    disk = files
    if stale:
        # every file ON DISK carries one more transaction than the editor holds (an edit undone but not saved): all files are
        # open, so every figure must come from the editors' texts
        disk = {}
        for g in c["files"]:
            accts = sorted(o["name"] for o in g["occ"] if o["k"] == "account")
            t = files[g["name"]]
            extra = ("\n2031-01-01 stale on disk\n    %s  777\n    equity:stale on disk\n" % accts[0]) if accts else "\n; stale on disk\n"
            disk[g["name"]] = t + ("" if t.endswith("\n") else "\n") + extra
    f = c["files"][origin]
    positions = []
    meta = []
    for (li, col, k, info) in probes_of(f):
        if mid_surrogate(f["lines"][li], col):
            continue
        positions.append([li, col])
        meta.append((li, col, k, info))
    ops = []
    if stale:
        for g in c["files"]:
            if g["name"] != f["name"]:
                ops.append({"op": "open", "file": g["name"], "text": files[g["name"]]})
    if warm:
        # the same state reached along a longer history: the other files of the tree were opened (and closed) first, so they are
        # in the loader's cache when the hovered document's tree is resolved, and the hovered document was changed and changed back
        for g in reversed(c["files"]):
            if g["name"] != f["name"]:
                ops.append({"op": "open", "file": g["name"], "text": files[g["name"]]})
                ops.append({"op": "close", "file": g["name"]})
    # the document first holds an EARLIER text (its last transaction not typed yet) and is hovered there; then the rest is
    # typed. Whatever the first hovers left behind (totals kept per include tree) must not survive the change.
    earlier = None
    if warm and len(f["abs"]) >= 2 and f["abs"][-1]["type"] == "tx":
        cut = f["firsts"][-1] - 1
        earlier = "\n".join(f["lines"][:cut]) + "\n"
    if warm and ws and origin == 0 and any(e["type"] == "include" for e in f["abs"]) and retype:
        # the root first holds a text WITHOUT its include directives (the tree shrinks to the root), then they are typed:
        # the files they name, and the files those include, must all be back
        inc_lines = {f["firsts"][k] - 1 for k, e in enumerate(f["abs"]) if e["type"] == "include"}
        earlier = "\n".join("" if li in inc_lines else ln for li, ln in enumerate(f["lines"])) + "\n"
        cut = 0
    if earlier is not None:
        ops.append({"op": "open", "file": f["name"], "text": earlier})
        ops.append({"op": "sweep", "file": f["name"], "kinds": ["hover"], "positions": [p for p in positions if p[0] < cut][:12]})
        ops.append({"op": "change", "file": f["name"], "text": files[f["name"]]})
    else:
        ops.append({"op": "open", "file": f["name"], "text": files[f["name"]]})
    if warm:
        ops.append({"op": "change", "file": f["name"], "text": files[f["name"]] + "\n; typed\n"})
        ops.append({"op": "change", "file": f["name"], "text": files[f["name"]]})
    ops.append({"op": "sweep", "file": f["name"], "kinds": ["hover"], "positions": positions})
    return {"id": str(idx), "files": disk, "workspace": ws, "ops": ops}, meta


NUM = r"-?[0-9]+(?:\.[0-9]+)?(?:[eE][-+]?[0-9]+)?"


def parse_hover(md):
    """markdown -> dict of figures"""
    out = {"kind": None}
    m = re.match(r"\*\*Account:\*\* `(.*)`\n", md)
    if m:
        out["kind"] = "account"
        out["name"] = m.group(1)
        bal = {}
        for ln in md.split("\n"):
            mm = re.match(r"^- (" + NUM + r") ?(.*)$", ln)
            if mm:
                bal[mm.group(2)] = mm.group(1)
        out["balance"] = bal
        mm = re.search(r"\*\*Postings:\*\* (\d+)", md)
        out["postings"] = int(mm.group(1)) if mm else None
        return out
    m = re.match(r"\*\*Amount:\*\* (" + NUM + r") ?(.*?)(?:\n|$)", md)
    if m:
        out["kind"] = "amount"
        out["value"] = m.group(1)
        out["comm"] = m.group(2)
        mm = re.search(r"\*\*(Total|Unit) cost:\*\* (@@?) (" + NUM + r") ?(.*)$", md, re.M)
        if mm:
            out["cost"] = {"total": mm.group(1) == "Total", "value": mm.group(3), "comm": mm.group(4)}
        return out
    m = re.match(r"\*\*Payee:\*\* (.*)\n", md)
    if m:
        out["kind"] = "payee"
        out["name"] = m.group(1)
        mm = re.search(r"\*\*Transactions:\*\* (\d+)", md)
        out["n"] = int(mm.group(1)) if mm else None
        return out
    m = re.match(r"\*\*Tag:\*\* `(.*)`\n", md)
    if m:
        out["name"] = m.group(1)
        mm = re.search(r"\*\*Usage:\*\* (\d+)", md)
        out["n"] = int(mm.group(1)) if mm else None
        mv = re.search(r"^\*\*Value:\*\* (?:`(.*)`|\*\(empty\)\*)$", md, re.M)
        if mv:
            out["kind"] = "tagvalue"
            out["value"] = mv.group(1) or ""
        else:
            out["kind"] = "tagname"
        return out
    m = re.match(r"\*\*Date:\*\*", md)
    if m:
        out["kind"] = "date"
    return out


def dec(s):
    try:
        return wcommon.canon(Decimal(s))
    except InvalidOperation:
        return None


def evaluate_probe(k, info, reply, tabs):
    """returns list of (sig, what); [] when the figures are right"""
    if reply is None:
        return [("no-hover:" + k, "no hover on a %s" % k)]
    md = (reply.get("contents") or {}).get("value", "")
    h = parse_hover(md)
    want_kind = {"account": "account", "payee": "payee", "tagname": "tagname", "tagvalue": "tagvalue", "amount": "amount"}[k]
    if h["kind"] != want_kind:
        return [("other-element:" + k, "hover on a %s answered about a %s: %r" % (k, h["kind"], md[:80]))]
    if k == "account":
        if h["name"] != info["name"]:
            return [("other-element:account", "hover on account %r answered about %r" % (info["name"], h["name"]))]
        want = {c: wcommon.canon(v) for c, v in tabs["totals"].get(info["name"], {}).items() if v != 0}
        got = {}
        for c, v in h["balance"].items():
            d = dec(v)
            if d is None:
                return [("unreadable-balance", "balance line %r" % v)]
            if d != 0:
                got[c] = d
        out = []
        if got != want:
            out.append(("account-total", "account %r: balance %s, exact totals %s" % (info["name"], {c: str(v) for c, v in got.items()}, {c: str(v) for c, v in want.items()})))
        if h["postings"] != tabs["postings"].get(info["name"], 0):
            out.append(("account-postings", "account %r: %s postings shown, %d exist" % (info["name"], h["postings"], tabs["postings"].get(info["name"], 0))))
        return out
    if k == "payee":
        if h["name"] != info["name"]:
            return [("other-element:payee", "hover on payee %r answered about %r" % (info["name"], h["name"]))]
        if h["n"] != tabs["txcount"].get(info["name"], 0):
            return [("payee-count", "payee %r: %s transactions shown, %d exist" % (info["name"], h["n"], tabs["txcount"].get(info["name"], 0)))]
        return []
    if k == "tagname":
        if h["name"] != info["name"]:
            return [("other-element:tag", "hover on tag %r answered about %r" % (info["name"], h["name"]))]
        if h["n"] != tabs["taguse"].get(info["name"], 0):
            return [("tag-count", "tag %r: %s uses shown, %d exist" % (info["name"], h["n"], tabs["taguse"].get(info["name"], 0)))]
        return []
    if k == "tagvalue":
        if h["name"] != info["name"] or h.get("value") != info["value"]:
            return [("other-element:tagvalue", "hover on %s:%s answered about %s:%s" % (info["name"], info["value"], h["name"], h.get("value")))]
        if h["n"] != tabs["tagvalue"].get((info["name"], info["value"]), 0):
            return [("tagvalue-count", "tag %s:%s: %s uses shown, %d exist" % (info["name"], info["value"], h["n"], tabs["tagvalue"].get((info["name"], info["value"]), 0)))]
        return []
    if k == "amount":
        out = []
        a = info["amount"]
        if dec(h["value"]) != wcommon.canon(wcommon.spec_amount_decimal(a)) or h["comm"] != a["comm"]:
            out.append(("amount-value", "amount shown %s %r, written %s %r" % (h["value"], h["comm"], wcommon.spec_amount_decimal(a), a["comm"])))
        c = info["cost"]
        hc = h.get("cost")
        if (c is None) != (hc is None):
            out.append(("amount-cost", "cost shown %s, written %s" % (hc, c)))
        elif c is not None:
            if hc["total"] != c["total"] or dec(hc["value"]) != wcommon.canon(wcommon.spec_amount_decimal(c["amount"])) or hc["comm"] != c["amount"]["comm"]:
                out.append(("amount-cost", "cost shown %s, written %s" % (hc, c)))
        return out
    return []


OFF = collections.Counter()
CHECKED = collections.Counter()


def run_cases(run, cases, table=None):
    hcases = []
    metas = []
    for ci, c in enumerate(cases):
        for ws in (False, True):
            for origin in range(len(c["files"])):
                for warm in ((False, True) if (ci + origin) % 2 == 0 or c.get("_warm") else (False,)):
                    if c.get("_warm") is not None and warm != c["_warm"]:
                        continue
                    retype = c.get("_retype", ci % 4 == 0)
                    stale = c.get("_stale", (not warm) and (ci + origin) % 3 == 1)
                    hc, meta = script_case(len(hcases), c, ws, origin, warm, retype, stale)
                    hcases.append(hc)
                    metas.append((ci, ws, origin, meta, warm, (retype, stale)))
    results = run.harness("script", hcases, timeout=3000)
    nprobes = 0
    for hc, (ci, ws, origin, meta, warm, (retype, stale)), res in zip(hcases, metas, results):
        c = cases[ci]
        f = c["files"][origin]
        scope_root = wcommon.scope_root(c, ws, origin)
        tabs = wcommon.tables_index(c["tables"][scope_root])
        key = vf.digest([hc["files"], ws, origin, warm])
        run.count(key, len(meta) > 0)
        if "panic" in res:
            run.diverge("panic", "server panicked: " + res["panic"][:300], {"spec_case": c, "ws": ws, "origin": origin}, None)
            continue
        sweep = res["steps"][-1].get("sweep") or []
        if len(sweep) != len(meta):
            vf.die_tooling("sweep returned %d replies for %d probes" % (len(sweep), len(meta)))
        seen = set()
        for (li, col, k, info), it in zip(meta, sweep):
            nprobes += 1
            divs = evaluate_probe(k, info, it["r"], tabs)
            off = [x for x in divs if x[0].startswith(("no-hover:", "other-element:"))]
            if off:
                # whether a hover request at this position finds the lexeme is C08's business (ranges on target);
                # C20 compares the figures of the hovers that did land on the probed element
                OFF[off[0][0]] += 1
                continue
            CHECKED[k] += 1
            for sig, what in divs:
                if table is not None:
                    table[(sig, ws, "root" if origin == 0 else "included", "warm" if warm else "cold")] += 1
                if sig in seen:
                    continue
                seen.add(sig)
                run.diverge(("after-history:" if warm else "") + sig, "%s  [file %s line %d col %d: %r; workspace root %s%s]" % (
                                what, f["name"], li + 1, col, f["lines"][li], ws, "; the other files were opened and closed first, the document changed and changed back" if warm else ""),
                            {"spec_case": c, "ws": ws, "origin": origin, "warm": warm, "retype": retype, "stale": stale, "probe": [li, col, k, info]}, it["r"])
    return nprobes


def main(args):
    run = vf.Run("C20", args.tier, args.seed, level="exploration")
    table = collections.Counter()
    if args.replay:
        with open(args.replay) as f:
            rp = json.load(f)
        cases = [dict(rp["case"]["spec_case"], _warm=bool(rp["case"].get("warm")), _retype=bool(rp["case"].get("retype")), _stale=bool(rp["case"].get("stale")))]
    else:
        thorough = run.tier == "thorough"
        cases = wcommon.gen(run, 60 if not thorough else 1200, maxtx=3)
    nprobes = run_cases(run, cases, table)
    if os.environ.get("VERIF_TABLE"):
        for k, n in sorted(table.items(), key=str):
            print("TABLE", k, n)
    run.traces_validated = len(cases)
    run.extra["hovers"] = nprobes
    run.extra["figures_checked_by_kind"] = dict(CHECKED)
    run.extra["off_target_replies_left_to_C08"] = dict(OFF)
    if not args.replay:
        for k in ("account", "payee", "tagname", "tagvalue", "amount"):
            if CHECKED[k] == 0:
                vf.die_tooling("no hover on a %s landed on its element: nothing was compared" % k)
    run.extra["workspaces"] = len(cases)
    c = cases[0]
    run.sample({"files": wcommon.files_of(c), "totals_of_root_tree": c["tables"][0]["totals"][:6], "postings": c["tables"][0]["postings"], "txcount": c["tables"][0]["txcount"]})
    run.rule = ("one evaluation per (workspace simulated by WorkspaceFiles.tla, workspace root on/off, file the hovers are requested from); every hoverable lexeme of that file "
                "is probed at its first, middle and last character; non-trivial = the file has at least one hoverable lexeme; distinct by (files, root, origin)")
    run.assumptions = ["open documents equal their files on disk (half of the evaluations reach that state along a longer history: other files opened and closed first, the document changed and changed back)", "two of the twelve workspace shapes have a file outside main.journal's include tree: requests made from it are judged against its own tree",
                       "hover on an account is requested on posting lines (an account directive is not a posting)",
                       "a zero total may be shown as 0 or omitted"]
    run.finish(confirm=lambda d: confirm(run, d))


def confirm(run, d):
    cs = d["case"]
    c = cs["spec_case"]
    warm = bool(cs.get("warm"))
    hc, meta = script_case(0, c, cs["ws"], cs["origin"], warm, bool(cs.get("retype")), bool(cs.get("stale")))
    res = run.harness("script", [hc])[0]
    tabs = wcommon.tables_index(c["tables"][wcommon.scope_root(c, cs["ws"], cs["origin"])])
    if "panic" in res:
        return d["sig"] == "panic"
    for (li, col, k, info), it in zip(meta, res["steps"][-1].get("sweep") or []):
        if any((("after-history:" if warm else "") + sig) == d["sig"] for sig, _ in evaluate_probe(k, info, it["r"], tabs)):  # noqa
            return True
    return False
