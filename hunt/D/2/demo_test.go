// Copy this file to: internal/server/defect_completion_blank_names_test.go (package server)
package server

import (
	"context"
	"testing"

	"go.lsp.dev/protocol"
)

// Account completion must offer every existing account that starts with the typed
// fragment. Account names may contain single blanks ("assets:my bank:checking").
// When the part of the fragment after its last blank happens to be the parent of some
// other account ("bank:" of "bank:fees"), the candidates are narrowed to that other
// account's children, and the accounts the user is actually typing are not offered.
func TestDefectAccountCompletionLosesNamesWithBlanks(t *testing.T) {
	journal := "2024-01-01 Shop\n" +
		"    assets:my bank:checking  1 EUR\n" +
		"    assets:my bank:savings  1 EUR\n" +
		"    bank:fees  -2 EUR\n" +
		"\n" +
		"2024-01-02 t\n"

	cases := []struct {
		name     string
		lastLine string
		expected []string
	}{
		{"posting, fragment ends inside the last segment", "    assets:my bank:ch", []string{"assets:my bank:checking"}},
		{"posting, fragment ends with the colon", "    assets:my bank:", []string{"assets:my bank:checking", "assets:my bank:savings"}},
		{"account directive", "account assets:my bank:s", []string{"assets:my bank:savings"}},
	}

	for _, fuzzy := range []bool{true, false} {
		for _, tc := range cases {
			name := tc.name + " (fuzzy on)"
			if !fuzzy {
				name = tc.name + " (fuzzy off)"
			}
			t.Run(name, func(t *testing.T) {
				srv := NewServer()
				settings := srv.getSettings()
				settings.Completion.FuzzyMatching = fuzzy
				srv.setSettings(settings)

				content := journal + tc.lastLine
				docURI := protocol.DocumentURI("file:///defect-blank-names.journal")
				srv.documents.Store(docURI, content)

				res, err := srv.Completion(context.Background(), &protocol.CompletionParams{
					TextDocumentPositionParams: protocol.TextDocumentPositionParams{
						TextDocument: protocol.TextDocumentIdentifier{URI: docURI},
						Position:     protocol.Position{Line: 6, Character: uint32(len(tc.lastLine))},
					},
				})
				if err != nil || res == nil {
					t.Fatalf("completion failed: %v", err)
				}
				got := map[string]bool{}
				var labels []string
				for _, it := range res.Items {
					got[it.Label] = true
					labels = append(labels, it.Label)
				}
				for _, want := range tc.expected {
					if !got[want] {
						t.Errorf("line %q: account %q starts with the typed fragment and must be offered; offered: %q",
							tc.lastLine, want, labels)
					}
				}
			})
		}
	}
}
