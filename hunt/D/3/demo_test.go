// Copy this file to: internal/server/defect_root_uri_encoding_test.go (package server)
package server

import (
	"context"
	"os"
	"path/filepath"
	"strings"
	"testing"
	"time"

	"go.lsp.dev/protocol"
	"go.lsp.dev/uri"
)

// The workspace folder arrives as a URI, and a URI escapes blanks and non-ASCII letters
// ("file:///home/me/my%20ledger"). The server must turn it into the same path it derives
// from document URIs; otherwise the workspace is never found and every answer that is
// defined over the workspace (hover totals, declared accounts for the warnings) is
// silently computed from the single file.
func TestDefectWorkspaceRootWithEscapedCharacters(t *testing.T) {
	t.Setenv("LEDGER_FILE", "")
	t.Setenv("HLEDGER_JOURNAL", "")

	const rootText = "include b.journal\n\naccount equity:opening\n\n2024-01-01 r\n    assets:a  1 EUR\n    assets:z\n"
	const bText = "2024-01-02 b\n    assets:a  10 EUR\n    misc:stuff\n"

	for _, folder := range []string{"plain", "my ledger", "бухгалтерия"} {
		t.Run(folder, func(t *testing.T) {
			dir := filepath.Join(t.TempDir(), folder)
			if err := os.Mkdir(dir, 0o755); err != nil {
				t.Fatal(err)
			}
			root := filepath.Join(dir, "main.journal")
			b := filepath.Join(dir, "b.journal")
			if err := os.WriteFile(root, []byte(rootText), 0o644); err != nil {
				t.Fatal(err)
			}
			if err := os.WriteFile(b, []byte(bText), 0o644); err != nil {
				t.Fatal(err)
			}

			client := newIntegrationMockClient()
			srv := NewServer()
			srv.SetClient(client)
			// uri.File escapes the path exactly as editors do: .../my%20ledger
			if _, err := srv.Initialize(context.Background(), &protocol.InitializeParams{
				WorkspaceFolders: []protocol.WorkspaceFolder{{URI: string(uri.File(dir)), Name: folder}},
			}); err != nil {
				t.Fatal(err)
			}
			if err := srv.Initialized(context.Background(), &protocol.InitializedParams{}); err != nil {
				t.Fatal(err)
			}

			if got := srv.Workspace().RootJournalPath(); got != root {
				t.Errorf("root journal of workspace folder %s: expected %q, got %q", uri.File(dir), root, got)
			}

			bURI := uri.File(b)
			if err := srv.DidOpen(context.Background(), &protocol.DidOpenTextDocumentParams{
				TextDocument: protocol.TextDocumentItem{URI: bURI, Text: bText},
			}); err != nil {
				t.Fatal(err)
			}
			if !client.waitDiagnostics() {
				t.Fatal("no diagnostics published")
			}
			time.Sleep(20 * time.Millisecond)

			// C20: b.journal is part of the workspace, assets:a holds 1 EUR (main) + 10 EUR (b).
			h, err := srv.Hover(context.Background(), &protocol.HoverParams{
				TextDocumentPositionParams: protocol.TextDocumentPositionParams{
					TextDocument: protocol.TextDocumentIdentifier{URI: bURI},
					Position:     protocol.Position{Line: 1, Character: 6},
				},
			})
			if err != nil || h == nil {
				t.Fatalf("no hover: %v", err)
			}
			if !strings.Contains(h.Contents.Value, "- 11 EUR") || !strings.Contains(h.Contents.Value, "**Postings:** 2") {
				t.Errorf("hover on assets:a in b.journal: expected the workspace total 11 EUR over 2 postings, got:\n%s", h.Contents.Value)
			}

			// C18: the workspace (main.journal) declares an account, so the posting to
			// misc:stuff in b.journal must be warned about.
			last := client.getLastDiagnostics()
			found := false
			for _, d := range last.Diagnostics {
				if d.Code == "UNDECLARED_ACCOUNT" && strings.Contains(d.Message, "misc:stuff") {
					found = true
				}
			}
			if !found {
				t.Errorf("expected an UNDECLARED_ACCOUNT warning for misc:stuff in b.journal (main.journal declares an account), got %v", last.Diagnostics)
			}
		})
	}
}
