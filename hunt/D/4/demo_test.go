// Copy this file to: internal/workspace/defect_glob_new_file_test.go (package workspace)
package workspace

import (
	"os"
	"path/filepath"
	"reflect"
	"testing"

	"github.com/juev/hledger-lsp/internal/include"
)

type defectGlobView struct {
	Files    []string
	Accounts []string
	Payees   []string
	Counts   map[string]int
	Declared map[string]bool
}

func defectGlobViewOf(w *Workspace) defectGlobView {
	s := w.IndexSnapshot()
	v := defectGlobView{Payees: s.Payees, Counts: s.AccountCounts, Declared: w.GetDeclaredAccounts()}
	if s.Accounts != nil {
		v.Accounts = s.Accounts.All
	}
	if r := w.GetResolved(); r != nil {
		for _, p := range r.FileOrder {
			v.Files = append(v.Files, filepath.Base(p))
		}
	}
	return v
}

// The root journal includes its monthly files by a glob. A new monthly file is written
// and reported to the workspace (this is what didOpen / didSave of the new file do).
// From then on the workspace view must be that of a workspace initialised on the
// current files: the new file is a member.
func TestDefectFileNewlyMatchedByGlobIncludeStaysOutside(t *testing.T) {
	t.Setenv("LEDGER_FILE", "")
	t.Setenv("HLEDGER_JOURNAL", "")

	dir := t.TempDir()
	if err := os.Mkdir(filepath.Join(dir, "2024"), 0o755); err != nil {
		t.Fatal(err)
	}
	root := filepath.Join(dir, "main.journal")
	jan := filepath.Join(dir, "2024", "01.journal")
	feb := filepath.Join(dir, "2024", "02.journal")
	write := func(path, text string) {
		if err := os.WriteFile(path, []byte(text), 0o644); err != nil {
			t.Fatal(err)
		}
	}
	write(root, "include 2024/*.journal\n")
	write(jan, "2024-01-01 January\n    assets:a  1\n    assets:z\n")

	w := NewWorkspace(dir, include.NewLoader())
	if err := w.Initialize(); err != nil {
		t.Fatal(err)
	}

	febText := "account assets:feb\n\n2024-02-01 February\n    assets:feb  1\n    assets:z\n"
	write(feb, febText)
	w.UpdateFile(feb, febText)

	fresh := NewWorkspace(dir, include.NewLoader())
	if err := fresh.Initialize(); err != nil {
		t.Fatal(err)
	}

	got, want := defectGlobViewOf(w), defectGlobViewOf(fresh)
	if !reflect.DeepEqual(got, want) {
		t.Errorf("after UpdateFile(2024/02.journal) the incremental view differs from a fresh workspace:\n"+
			"expected (fresh): %+v\n"+
			"got (incremental): %+v", want, got)
	}
	if !w.Contains(feb) {
		t.Errorf("2024/02.journal matches the root's `include 2024/*.journal` but is not a workspace member")
	}
}
