// Copy this file to: internal/server/defect_payee_edit_range_in_date_test.go (package server)
package server

import (
	"context"
	"testing"

	"go.lsp.dev/protocol"
)

// On a transaction header the payee begins after the date (and status / code). While
// the cursor is still inside the date nothing of a payee has been typed: the fragment the
// candidates are filtered by is empty (every payee is offered). Accepting an item must
// then replace nothing but that (empty) fragment - it must not overwrite the date.
func TestDefectPayeeCompletionInsideDateOverwritesTheDate(t *testing.T) {
	journal := "2024-01-01 Shop\n    expenses:food  1 EUR\n    assets:cash\n\n"

	cases := []struct {
		name string
		line string
		char uint32
	}{
		{"date being typed", "2024-01", 7},
		{"complete date, no blank yet", "2024-01-15", 10},
		{"cursor inside the date of a complete header", "2024-01-15 Shop", 4},
	}

	for _, tc := range cases {
		t.Run(tc.name, func(t *testing.T) {
			srv := NewServer()
			content := journal + tc.line
			docURI := protocol.DocumentURI("file:///defect-payee-range.journal")
			srv.documents.Store(docURI, content)

			pos := protocol.Position{Line: 4, Character: tc.char}
			res, err := srv.Completion(context.Background(), &protocol.CompletionParams{
				TextDocumentPositionParams: protocol.TextDocumentPositionParams{
					TextDocument: protocol.TextDocumentIdentifier{URI: docURI},
					Position:     pos,
				},
			})
			if err != nil || res == nil {
				t.Fatalf("completion failed: %v", err)
			}
			fragment := extractQueryText(content, pos, determineCompletionContext(content, pos, nil))
			for _, it := range res.Items {
				if it.Kind != protocol.CompletionItemKindClass || it.TextEdit == nil {
					continue // not a payee item
				}
				r := it.TextEdit.Range
				replaced := tc.line[r.Start.Character:r.End.Character]
				if replaced != fragment {
					after := tc.line[:r.Start.Character] + it.TextEdit.NewText + tc.line[r.End.Character:]
					t.Errorf("line %q, cursor at %d: payee %q was matched against the fragment %q but its edit replaces %q (%d-%d); "+
						"accepting it turns the line into %q",
						tc.line, tc.char, it.Label, fragment, replaced, r.Start.Character, r.End.Character, after)
					break // one report per case is enough
				}
			}
		})
	}
}
