// Copy this file to: internal/server/defect_open_then_include_test.go (package server)
package server

import (
	"context"
	"os"
	"path/filepath"
	"strings"
	"testing"
	"time"

	"go.lsp.dev/protocol"
	"go.lsp.dev/uri"
)

// A file that becomes reachable from the workspace's root journal while it is open in
// the editor must enter the workspace view with the editor's text (as it does when it
// is opened after it became reachable), not with the last saved version on disk.
//
// Final state in both runs: main.journal (open) includes b.journal; b.journal is open
// with an unsaved text that posts 100 EUR to assets:a (the file on disk posts 10 EUR).
// Expected hover on assets:a: 1 + 100 = 101 EUR, 2 postings - whatever the order of
// the two didOpen notifications.
func TestDefectOpenDocumentBecomingReachableIsReadFromDisk(t *testing.T) {
	t.Setenv("LEDGER_FILE", "")
	t.Setenv("HLEDGER_JOURNAL", "")

	const rootDisk = "2024-01-01 r\n    assets:a  1 EUR\n    assets:z\n"
	const rootOpen = "include b.journal\n" + rootDisk
	const bDisk = "2024-01-02 saved\n    assets:a  10 EUR\n    assets:z\n"
	const bOpen = "2024-01-02 unsaved\n    assets:a  100 EUR\n    assets:z\n"

	run := func(t *testing.T, openBFirst bool) (rootHover, bHover string) {
		dir := t.TempDir()
		root := filepath.Join(dir, "main.journal")
		b := filepath.Join(dir, "b.journal")
		if err := os.WriteFile(root, []byte(rootDisk), 0o644); err != nil {
			t.Fatal(err)
		}
		if err := os.WriteFile(b, []byte(bDisk), 0o644); err != nil {
			t.Fatal(err)
		}
		srv := NewServer()
		if _, err := srv.Initialize(context.Background(), &protocol.InitializeParams{RootURI: uri.File(dir)}); err != nil {
			t.Fatal(err)
		}
		if err := srv.Initialized(context.Background(), &protocol.InitializedParams{}); err != nil {
			t.Fatal(err)
		}
		open := func(path, text string) {
			err := srv.DidOpen(context.Background(), &protocol.DidOpenTextDocumentParams{
				TextDocument: protocol.TextDocumentItem{URI: uri.File(path), Text: text},
			})
			if err != nil {
				t.Fatal(err)
			}
		}
		if openBFirst {
			open(b, bOpen)
			open(root, rootOpen)
		} else {
			open(root, rootOpen)
			open(b, bOpen)
		}
		time.Sleep(50 * time.Millisecond) // background analyses; they do not change the answer
		hover := func(path string, line, char uint32) string {
			h, err := srv.Hover(context.Background(), &protocol.HoverParams{
				TextDocumentPositionParams: protocol.TextDocumentPositionParams{
					TextDocument: protocol.TextDocumentIdentifier{URI: uri.File(path)},
					Position:     protocol.Position{Line: line, Character: char},
				},
			})
			if err != nil || h == nil {
				t.Fatalf("no hover: %v", err)
			}
			return h.Contents.Value
		}
		return hover(root, 2, 6), hover(b, 1, 6)
	}

	rootThenB, bFromB := run(t, false)
	if !strings.Contains(rootThenB, "- 101 EUR") || !strings.Contains(bFromB, "- 101 EUR") {
		t.Fatalf("reference run (root opened first) is expected to show 101 EUR, got:\n%s\n%s", rootThenB, bFromB)
	}

	bThenRoot, bFromB2 := run(t, true)
	if bThenRoot != rootThenB {
		t.Errorf("hover on assets:a in main.journal depends on the order of the didOpen notifications.\n"+
			"expected (editor text of b.journal, 1 + 100):\n%s\n\ngot (b.journal read from disk, 1 + 10):\n%s", rootThenB, bThenRoot)
	}
	if bFromB2 != bFromB {
		t.Errorf("hover on assets:a inside b.journal itself is computed from the file on disk, not from the text the editor shows.\n"+
			"expected:\n%s\n\ngot:\n%s", bFromB, bFromB2)
	}
}
