// Copy this file to: internal/server/defect_non_ascii_tag_names_test.go (package server)
package server

import (
	"context"
	"strings"
	"testing"

	"go.lsp.dev/protocol"
)

// Tag names are not restricted to ASCII: hledger accepts "поездка:рим", and the server's
// own semantic tokens mark such a name as a tag (semantic_test.go pins this for
// Cyrillic and Chinese names). The parser's tag rule accepts ASCII letters only, so
// for hover and completion the same tag does not exist.
func TestDefectNonASCIITagNamesAreTagsOnlyForSemanticTokens(t *testing.T) {
	content := "2024-01-01 Shop  ; поездка: рим\n" +
		"    expenses:food  1 EUR  ; поездка: рим\n" +
		"    assets:cash\n" +
		"\n" +
		"2024-01-02 Shop  ; поездка: париж\n" +
		"    expenses:food  1 EUR\n" +
		"    assets:cash\n" +
		"\n"
	docURI := protocol.DocumentURI("file:///defect-unicode-tags.journal")
	srv := NewServer()
	srv.documents.Store(docURI, content)

	// The server itself says that "поездка:" (line 0, columns 19-27) is a tag and "рим" its value.
	var sawTag, sawValue bool
	for _, tok := range tokenizeForSemantics(content) {
		if tok.line == 0 && tok.col == 19 && tok.length == 8 && tok.tokenType == TokenTypeTag {
			sawTag = true
		}
		if tok.line == 0 && tok.col == 28 && tok.length == 3 && tok.tokenType == TokenTypeTagValue {
			sawValue = true
		}
	}
	if !sawTag || !sawValue {
		t.Fatalf("precondition: semantic tokens are expected to mark 'поездка:' as tag and 'рим' as tagValue (tag=%v value=%v)", sawTag, sawValue)
	}

	at := func(line, char uint32) protocol.TextDocumentPositionParams {
		return protocol.TextDocumentPositionParams{
			TextDocument: protocol.TextDocumentIdentifier{URI: docURI},
			Position:     protocol.Position{Line: line, Character: char},
		}
	}

	// C20: hovering the tag shows the exact number of its uses (3), hovering the value "рим" 2.
	h, err := srv.Hover(context.Background(), &protocol.HoverParams{TextDocumentPositionParams: at(0, 21)})
	if err != nil {
		t.Fatal(err)
	}
	if h == nil {
		t.Errorf("hover on the tag name 'поездка' (0:21): expected '**Usage:** 3' with values париж and рим, got no hover at all")
	} else if !strings.Contains(h.Contents.Value, "**Usage:** 3") {
		t.Errorf("hover on the tag name 'поездка': expected '**Usage:** 3', got:\n%s", h.Contents.Value)
	}
	h, err = srv.Hover(context.Background(), &protocol.HoverParams{TextDocumentPositionParams: at(0, 29)})
	if err != nil {
		t.Fatal(err)
	}
	if h == nil {
		t.Errorf("hover on the tag value 'рим' (0:29): expected '**Usage:** 2', got no hover at all")
	} else if !strings.Contains(h.Contents.Value, "**Usage:** 2") {
		t.Errorf("hover on the tag value 'рим': expected '**Usage:** 2', got:\n%s", h.Contents.Value)
	}

	// completion: the same journal with a header being typed as line 8
	labels := func(typed string) []string {
		srv.documents.Store(docURI, content+typed)
		defer srv.documents.Store(docURI, content)
		res, err := srv.Completion(context.Background(), &protocol.CompletionParams{
			TextDocumentPositionParams: at(8, uint32(len([]rune(typed)))), // BMP only: runes = UTF-16 units
		})
		if err != nil || res == nil {
			t.Fatalf("completion failed: %v", err)
		}
		out := []string{}
		for _, it := range res.Items {
			out = append(out, it.Label)
		}
		return out
	}
	contains := func(list []string, s string) bool {
		for _, x := range list {
			if x == s {
				return true
			}
		}
		return false
	}

	// C16: tag name context, fragment "по", cursor at the end of the line.
	if got := labels("2024-01-03 Shop  ; по"); !contains(got, "поездка") {
		t.Errorf("tag name completion after '; по': the existing tag 'поездка' starts with the fragment and must be offered; offered: %q", got)
	}
	// C16: tag value context, fragment "р" of tag "поездка", cursor at the end of the line.
	if got := labels("2024-01-03 Shop  ; поездка: р"); !contains(got, "рим") {
		t.Errorf("tag value completion after '; поездка: р': the existing value 'рим' must be offered; offered: %q", got)
	}
}
