// Copy this file to: internal/server/defect_tag_value_colon_test.go (package server)
package server

import (
	"context"
	"testing"

	"go.lsp.dev/protocol"
)

// C16: in a tag context completion "offers every existing name that starts with the
// fragment when the limit allows".
//
// The tag "time" has the values 10:30 and 10:45 in the document (the parser, hover and the
// semantic tokens all take everything after the first colon as the value). Completing the
// value works for the fragments "" and "1" and "10" - and stops working as soon as the
// fragment itself contains the colon ("10:", "10:3"): the tag's name is then looked up as
// "time: 10" (text up to the LAST colon before the cursor), for which no values exist.
func TestDefectTagValueCompletionStopsAtColonInsideValue(t *testing.T) {
	head := "2024-01-01 Shop  ; time: 10:30\n  expenses:food  10 USD\n  assets:cash\n" +
		"2024-01-02 Shop  ; project: alpha, time: 10:45\n  expenses:food  10 USD\n  assets:cash\n"
	cases := []struct {
		line string
		want []string
	}{
		{"2024-01-03 Shop  ; time: 10", []string{"10:30", "10:45"}}, // control: works
		{"2024-01-03 Shop  ; time: 10:", []string{"10:30", "10:45"}},
		{"2024-01-03 Shop  ; time: 10:3", []string{"10:30"}},
		{"2024-01-03 Shop  ; project: alpha, time: 10:4", []string{"10:45"}},
		{"  expenses:food  1 USD  ; time: 10:", []string{"10:30", "10:45"}},
	}
	for _, tc := range cases {
		srv := NewServer()
		uri := protocol.DocumentURI("file:///tmp/defect-tagvalue.journal")
		srv.StoreDocument(uri, head+tc.line)
		list, err := srv.Completion(context.Background(), &protocol.CompletionParams{
			TextDocumentPositionParams: protocol.TextDocumentPositionParams{
				TextDocument: protocol.TextDocumentIdentifier{URI: uri},
				Position:     protocol.Position{Line: 6, Character: uint32(len(tc.line))},
			},
		})
		if err != nil {
			t.Fatal(err)
		}
		offered := map[string]bool{}
		var labels []string
		for _, it := range list.Items {
			offered[it.Label] = true
			labels = append(labels, it.Label)
		}
		for _, w := range tc.want {
			if !offered[w] {
				t.Errorf("line %q, cursor at its end: the existing value %q of tag \"time\" is not offered; offered: %v", tc.line, w, labels)
			}
		}
	}
}
