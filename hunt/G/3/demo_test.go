// Copy this file to: internal/server/defect_commodity_completion_number_test.go (package server)
package server

import (
	"context"
	"strings"
	"testing"

	"go.lsp.dev/protocol"
)

// C16: "In account, payee, commodity and tag contexts completion ... offers every existing
// name that starts with the fragment when the limit allows ... accepting an item replaces
// only the typed fragment up to the cursor."
//
// The commodity USD exists in the document. On a posting line the user has written a
// quantity and begins the commodity: "U". When the quantity is written "10" or "1,000.50"
// USD is offered and the edit replaces "U". When the same quantity is written with blanks
// as digit group marks ("1 000,50", a notation the parser, the analyser and the formatter
// all support) or with an exponent ("1E3"), nothing at all is offered - not with a
// fragment and not with an empty one: the scan that finds the end of the number stops
// at the first blank / at the 'E', and the rest of the number is taken for the typed
// fragment ("000,50 U", "E3 U").
func TestDefectCommodityCompletionAfterGroupedOrExponentNumber(t *testing.T) {
	head := "2024-01-01 Shop\n  expenses:food  1 000,50 USD\n  assets:cash\n2024-01-02 Shop\n"
	cases := []struct {
		name     string
		line     string
		fragment string
	}{
		{"plain number (works)", "  expenses:food  1000,50 U", "U"},
		{"blank as digit group mark", "  expenses:food  2 000,50 U", "U"},
		{"blank as digit group mark, nothing typed yet", "  expenses:food  2 000,50 ", ""},
		{"several groups", "  expenses:food  -1 234 567 U", "U"},
		{"exponent", "  expenses:food  1E3 U", "U"},
		{"exponent with sign", "  expenses:food  1.5e-2 U", "U"},
		{"grouped number in a cost", "  expenses:food  5 EUR @ 1 000 U", "U"},
	}
	for _, tc := range cases {
		t.Run(tc.name, func(t *testing.T) {
			srv := NewServer()
			uri := protocol.DocumentURI("file:///tmp/defect-commodity.journal")
			content := head + tc.line
			srv.StoreDocument(uri, content)
			pos := protocol.Position{Line: 4, Character: uint32(len(tc.line))}
			list, err := srv.Completion(context.Background(), &protocol.CompletionParams{
				TextDocumentPositionParams: protocol.TextDocumentPositionParams{
					TextDocument: protocol.TextDocumentIdentifier{URI: uri},
					Position:     pos,
				},
			})
			if err != nil {
				t.Fatal(err)
			}
			var usd *protocol.CompletionItem
			var labels []string
			for i := range list.Items {
				labels = append(labels, list.Items[i].Label)
				if list.Items[i].Label == "USD" {
					usd = &list.Items[i]
				}
			}
			if usd == nil {
				t.Fatalf("line %q, cursor at its end: the existing commodity USD (starts with the typed fragment %q) is not offered; offered: %v",
					tc.line, tc.fragment, labels)
			}
			if usd.TextEdit == nil {
				t.Fatalf("no text edit")
			}
			wantStart := uint32(len(tc.line) - len(tc.fragment))
			if usd.TextEdit.Range.Start.Character != wantStart || usd.TextEdit.Range.End != pos {
				t.Errorf("line %q: accepting USD replaces %q (columns %d-%d), expected only the typed fragment %q (columns %d-%d)",
					tc.line, tc.line[usd.TextEdit.Range.Start.Character:usd.TextEdit.Range.End.Character],
					usd.TextEdit.Range.Start.Character, usd.TextEdit.Range.End.Character, tc.fragment, wantStart, pos.Character)
			}
			_ = strings.TrimSpace
		})
	}
}
