// Copy this file to: internal/server/defect_reload_window_test.go (package server)
package server

import (
	"context"
	"fmt"
	"os"
	"path/filepath"
	"strings"
	"sync/atomic"
	"testing"
	"time"

	"go.lsp.dev/protocol"
)

// limitsFlippingClient answers workspace/configuration with include limits that differ
// from the previous answer, so that every didChangeConfiguration makes the server rebuild
// its workspace view (reloadWorkspace).
type limitsFlippingClient struct {
	*integrationMockClient
	n atomic.Int64
}

func (c *limitsFlippingClient) Configuration(_ context.Context, _ *protocol.ConfigurationParams) ([]interface{}, error) {
	size := 50_000_000 + c.n.Add(1) // always valid, always far above any file here, always new
	return []interface{}{map[string]interface{}{
		"limits": map[string]interface{}{"maxFileSizeBytes": size},
	}}, nil
}

// C14: "Background analysis and configuration refresh running concurrently with later
// notifications and requests never cause a crash, deadlock or data race, and every response
// equals the response computed from the document state at the moment the request was
// handled."
//
// main.journal includes six files; all seven documents are open and the six included ones
// carry unsaved edits (every posting 2 USD in the editor, 1 USD on disk). Nothing is
// edited while the test runs: the document state is constant, so every hover on
// assets:cash must show the same balance. The only thing that happens is a configuration
// change of limits.maxFileSizeBytes. The refresh goroutine then calls reloadWorkspace, which
// first re-initialises the workspace view FROM DISK and only afterwards lays the open
// documents over it, one UpdateFile at a time, releasing the lock in between. A hover that
// is handled in that window is answered from the files on disk (or from a mixture).
func TestDefectHoverDuringConfigurationReloadSeesDiskText(t *testing.T) {
	t.Setenv("LEDGER_FILE", "")
	t.Setenv("HLEDGER_JOURNAL", "")
	dir, err := filepath.EvalSymlinks(t.TempDir())
	if err != nil {
		t.Fatal(err)
	}
	const nFiles, nTx = 6, 300
	body := func(amount int) string {
		var sb strings.Builder
		for i := 0; i < nTx; i++ {
			fmt.Fprintf(&sb, "2024-01-%02d shop %d\n  assets:cash  %d USD\n  income:x\n\n", 1+i%28, i, amount)
		}
		return sb.String()
	}
	var main strings.Builder
	for i := 0; i < nFiles; i++ {
		fmt.Fprintf(&main, "include f%d.journal\n", i)
		if err := os.WriteFile(filepath.Join(dir, fmt.Sprintf("f%d.journal", i)), []byte(body(1)), 0o644); err != nil {
			t.Fatal(err)
		}
	}
	main.WriteString("\n2024-01-01 opening\n  assets:cash  10 USD\n  income:x\n")
	if err := os.WriteFile(filepath.Join(dir, "main.journal"), []byte(main.String()), 0o644); err != nil {
		t.Fatal(err)
	}

	srv := NewServer()
	client := &limitsFlippingClient{integrationMockClient: newIntegrationMockClient()}
	srv.SetClient(client)
	params := &protocol.InitializeParams{RootURI: protocol.DocumentURI("file://" + dir)}
	params.Capabilities.Workspace = &protocol.WorkspaceClientCapabilities{Configuration: true}
	if _, err := srv.Initialize(context.Background(), params); err != nil {
		t.Fatal(err)
	}
	_ = srv.Initialized(context.Background(), &protocol.InitializedParams{})
	ctx := context.Background()
	uriOf := func(n string) protocol.DocumentURI { return protocol.DocumentURI("file://" + filepath.Join(dir, n)) }
	open := func(n, text string) {
		_ = srv.DidOpen(ctx, &protocol.DidOpenTextDocumentParams{TextDocument: protocol.TextDocumentItem{URI: uriOf(n), Text: text}})
	}
	open("main.journal", main.String())
	for i := 0; i < nFiles; i++ {
		open(fmt.Sprintf("f%d.journal", i), body(2)) // unsaved: 2 USD per posting
	}
	time.Sleep(500 * time.Millisecond) // let the analyses of didOpen and the first refresh finish

	hoverLine := uint32(nFiles + 2) // "  assets:cash  10 USD" of main.journal
	hover := func() string {
		h, err := srv.Hover(ctx, &protocol.HoverParams{TextDocumentPositionParams: protocol.TextDocumentPositionParams{
			TextDocument: protocol.TextDocumentIdentifier{URI: uriOf("main.journal")},
			Position:     protocol.Position{Line: hoverLine, Character: 4},
		}})
		if err != nil || h == nil {
			t.Fatalf("no hover: %v", err)
		}
		return h.Contents.Value
	}
	want := fmt.Sprintf("- %d USD", 10+nFiles*nTx*2)
	if got := hover(); !strings.Contains(got, want) {
		t.Fatalf("precondition: the balance from the editors' texts is %s, got %q", want, got)
	}

	deadline := time.Now().Add(8 * time.Second)
	lastCfg := time.Time{}
	for n := 0; time.Now().Before(deadline); n++ {
		if time.Since(lastCfg) > 100*time.Millisecond {
			lastCfg = time.Now()
			_ = srv.DidChangeConfiguration(ctx, nil) // the user changes limits.maxFileSizeBytes
		}
		if got := hover(); !strings.Contains(got, want) {
			t.Fatalf("hover number %d, handled while no document was being edited:\n%s\nexpected the balance of the open documents' texts (%s); "+
				"the answer was computed from the files on disk (1 USD per posting) for some or all included documents", n, got, want)
		}
	}
}
