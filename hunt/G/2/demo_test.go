// Copy this file to: internal/server/defect_limit_incremental_test.go (package server)
package server

import (
	"context"
	"os"
	"path/filepath"
	"strings"
	"testing"
	"time"

	"go.lsp.dev/protocol"

	"github.com/juev/hledger-lsp/internal/include"
	"github.com/juev/hledger-lsp/internal/workspace"
)

// C19 (include limits take effect on subsequent behaviour), C12 (incremental view equals
// a rebuild), C20 (hover sums over the include tree).
//
// The server is initialised with limits.maxFileSizeBytes = 300. main.journal includes
// big.journal (about 730 bytes) and a.journal. At start-up the limit is honoured: the
// include of big.journal is reported as too large and its postings are not counted.
// Then a.journal - an unrelated file - gets one more include line. The workspace walks
// its include graph again and reads every reachable file it has not indexed yet straight
// from disk, without looking at the limits: big.journal joins the workspace view. From
// then on hover (and completion, references, ...) count a file that the diagnostics of
// the same server still reject as too large, and the view differs from what a freshly
// initialised workspace under the same limit holds.
func TestDefectOversizedIncludeJoinsWorkspaceAfterUnrelatedIncludeEdit(t *testing.T) {
	t.Setenv("LEDGER_FILE", "")
	t.Setenv("HLEDGER_JOURNAL", "")
	dir, err := filepath.EvalSymlinks(t.TempDir())
	if err != nil {
		t.Fatal(err)
	}
	files := map[string]string{
		"main.journal": "include big.journal\ninclude a.journal\n\n2024-01-01 x\n  assets:cash  10 USD\n  income:x\n",
		"big.journal":  "2024-01-01 big\n  assets:cash  1000 USD\n  income:x\n" + strings.Repeat("; padding padding padding padding\n", 20),
		"a.journal":    "2024-01-02 y\n  assets:cash  5 USD\n  income:x\n",
		"c.journal":    "2024-01-03 z\n  assets:cash  1 USD\n  income:x\n",
	}
	for name, content := range files {
		if err := os.WriteFile(filepath.Join(dir, name), []byte(content), 0o644); err != nil {
			t.Fatal(err)
		}
	}
	uriOf := func(name string) protocol.DocumentURI {
		return protocol.DocumentURI("file://" + filepath.Join(dir, name))
	}

	ts := newTestServer()
	_, err = ts.Initialize(context.Background(), &protocol.InitializeParams{
		RootURI:               protocol.DocumentURI("file://" + dir),
		InitializationOptions: map[string]any{"limits": map[string]any{"maxFileSizeBytes": 300}},
	})
	if err != nil {
		t.Fatal(err)
	}
	_ = ts.Initialized(context.Background(), &protocol.InitializedParams{})

	hoverCash := func() string {
		h, err := ts.Hover(context.Background(), &protocol.HoverParams{TextDocumentPositionParams: protocol.TextDocumentPositionParams{
			TextDocument: protocol.TextDocumentIdentifier{URI: uriOf("main.journal")},
			Position:     protocol.Position{Line: 4, Character: 4}, // on "assets:cash"
		}})
		if err != nil || h == nil {
			t.Fatalf("no hover: %v", err)
		}
		return h.Contents.Value
	}

	diags, _ := ts.openAndWait(uriOf("main.journal"), files["main.journal"])
	tooLarge := false
	for _, d := range diags {
		if strings.Contains(d.Message, "too large") {
			tooLarge = true
		}
	}
	if !tooLarge {
		t.Fatalf("precondition: the include of big.journal should be reported as too large, got %v", diags)
	}
	before := hoverCash()
	if !strings.Contains(before, "- 15 USD") || !strings.Contains(before, "**Postings:** 2") {
		t.Fatalf("precondition: under the limit the balance is 10+5 = 15 USD in 2 postings, got %q", before)
	}

	// an unrelated file gets one more include line
	_ = ts.openDocument(uriOf("a.journal"), files["a.journal"])
	_ = ts.changeDocument(uriOf("a.journal"), []protocol.TextDocumentContentChangeEvent{{Text: "include c.journal\n" + files["a.journal"]}})
	time.Sleep(100 * time.Millisecond)

	after := hoverCash()
	// expected: 10 (main) + 5 (a) + 1 (c) = 16 USD in 3 postings; big.journal stays excluded
	if !strings.Contains(after, "- 16 USD") || !strings.Contains(after, "**Postings:** 3") {
		t.Errorf("hover after a.journal includes c.journal:\n%s\nexpected 16 USD in 3 postings (big.journal exceeds limits.maxFileSizeBytes and is reported as such); the 1000 USD of big.journal are counted", after)
	}

	// the same, seen as C12: the incremental view against a rebuild under the same limit
	loader := include.NewLoader()
	loader.SetLimits(include.Limits{MaxFileSizeBytes: 300})
	fresh := workspace.NewWorkspace(dir, loader)
	_ = os.WriteFile(filepath.Join(dir, "a.journal"), []byte("include c.journal\n"+files["a.journal"]), 0o644)
	if err := fresh.Initialize(); err != nil {
		t.Fatal(err)
	}
	bigPath := filepath.Join(dir, "big.journal")
	if ts.Workspace().Contains(bigPath) != fresh.Contains(bigPath) {
		t.Errorf("big.journal member of the incrementally maintained workspace: %v, of a workspace rebuilt under the same limit: %v",
			ts.Workspace().Contains(bigPath), fresh.Contains(bigPath))
	}
}
