// Copy this file to: internal/server/defect_close_without_file_test.go (package server)
package server

import (
	"context"
	"os"
	"path/filepath"
	"strings"
	"testing"
	"time"

	"go.lsp.dev/protocol"

	"github.com/juev/hledger-lsp/internal/include"
	"github.com/juev/hledger-lsp/internal/workspace"
)

// C12 (the incrementally maintained view equals a rebuild) and C01 ("every feature answer
// is computed from [the text of the open documents] and from no older version").
//
// main.journal includes new.journal, which does not exist yet. The user creates it in the
// editor (didOpen with a text), looks at it and closes it again without saving - or the
// file is open and is deleted / moved away before the editor closes it. didClose tries to
// put "the file on disk again" into the workspace view; when there is no file it does
// nothing, so the text of the closed document stays in the view for the rest of the session:
// its postings are counted by hover, its accounts and payees are offered by completion, its
// declarations silence warnings - although the document is neither open nor on disk, and
// although the same server reports "cannot read included file" on the include line.
func TestDefectClosedDocumentWithoutFileStaysInWorkspace(t *testing.T) {
	t.Setenv("LEDGER_FILE", "")
	t.Setenv("HLEDGER_JOURNAL", "")
	dir, err := filepath.EvalSymlinks(t.TempDir())
	if err != nil {
		t.Fatal(err)
	}
	mainText := "include new.journal\n\n2024-01-01 x\n  assets:cash  10 USD\n  income:x\n"
	if err := os.WriteFile(filepath.Join(dir, "main.journal"), []byte(mainText), 0o644); err != nil {
		t.Fatal(err)
	}
	uriOf := func(name string) protocol.DocumentURI {
		return protocol.DocumentURI("file://" + filepath.Join(dir, name))
	}
	ts := newTestServer()
	if _, err := ts.Initialize(context.Background(), &protocol.InitializeParams{RootURI: protocol.DocumentURI("file://" + dir)}); err != nil {
		t.Fatal(err)
	}
	_ = ts.Initialized(context.Background(), &protocol.InitializedParams{})
	ctx := context.Background()

	hoverCash := func() string {
		h, err := ts.Hover(ctx, &protocol.HoverParams{TextDocumentPositionParams: protocol.TextDocumentPositionParams{
			TextDocument: protocol.TextDocumentIdentifier{URI: uriOf("main.journal")},
			Position:     protocol.Position{Line: 3, Character: 4}, // on "assets:cash"
		}})
		if err != nil || h == nil {
			t.Fatalf("no hover: %v", err)
		}
		return h.Contents.Value
	}

	_ = ts.openDocument(uriOf("main.journal"), mainText)
	if got := hoverCash(); !strings.Contains(got, "- 10 USD") {
		t.Fatalf("precondition: 10 USD, got %q", got)
	}

	// a new buffer for the missing file: it is part of the tree while it is open
	_ = ts.openDocument(uriOf("new.journal"), "2024-01-02 Draft Payee\n  assets:cash  5 USD\n  income:x\n")
	if got := hoverCash(); !strings.Contains(got, "- 15 USD") {
		t.Fatalf("precondition: 15 USD while new.journal is open, got %q", got)
	}

	// closed without ever being saved
	_ = ts.DidClose(ctx, &protocol.DidCloseTextDocumentParams{TextDocument: protocol.TextDocumentIdentifier{URI: uriOf("new.journal")}})
	time.Sleep(50 * time.Millisecond)

	if got := hoverCash(); !strings.Contains(got, "- 10 USD") || !strings.Contains(got, "**Postings:** 1") {
		t.Errorf("hover in main.journal after new.journal was closed without saving (the file does not exist):\n%s\nexpected 10 USD in 1 posting; the 5 USD of the discarded buffer are still counted", got)
	}

	// the same as C12: against a rebuild on the final state
	fresh := workspace.NewWorkspace(dir, include.NewLoader())
	if err := fresh.Initialize(); err != nil {
		t.Fatal(err)
	}
	got, want := ts.Workspace().IndexSnapshot().Payees, fresh.IndexSnapshot().Payees
	if strings.Join(got, ",") != strings.Join(want, ",") {
		t.Errorf("payees known to the workspace: %v; a workspace rebuilt from the final state knows: %v", got, want)
	}
	newPath := filepath.Join(dir, "new.journal")
	if ts.Workspace().Contains(newPath) {
		t.Errorf("new.journal is neither open nor on disk, but it is still a member of the workspace view")
	}
}
