// Copy this file to: internal/workspace/defect_glob_literal_test.go (package workspace)
package workspace

import (
	"os"
	"path/filepath"
	"sort"
	"testing"

	"github.com/juev/hledger-lsp/internal/include"
)

// C12 (incrementally maintained workspace view equals a rebuild).
//
// main.journal includes the folder 2024 by a glob and includes b.journal; b.journal names
// 2024/feb.journal literally, but that file does not exist yet. The file is then created
// (reported like any new file: UpdateFile). Because b.journal's literal include already
// points at it, the file joins the workspace through that edge and the glob of
// main.journal is NOT expanded again. When b.journal later drops its include line, the
// only edge the workspace knows is gone and feb.journal is thrown out of the view -
// although main.journal's "include 2024/*.journal" matches it. A freshly initialised
// workspace on the same final files contains feb.journal.
func TestDefectGlobNotRenewedWhenFileJoinsThroughLiteralInclude(t *testing.T) {
	t.Setenv("LEDGER_FILE", "")
	t.Setenv("HLEDGER_JOURNAL", "")
	dir, err := filepath.EvalSymlinks(t.TempDir())
	if err != nil {
		t.Fatal(err)
	}
	write := func(name, content string) string {
		p := filepath.Join(dir, name)
		if err := os.MkdirAll(filepath.Dir(p), 0o755); err != nil {
			t.Fatal(err)
		}
		if err := os.WriteFile(p, []byte(content), 0o644); err != nil {
			t.Fatal(err)
		}
		return p
	}
	write("main.journal", "include 2024/*.journal\ninclude b.journal\n")
	write("2024/jan.journal", "2024-01-05 Shop\n  expenses:food  10 USD\n  assets:cash\n")
	bPath := write("b.journal", "include 2024/feb.journal\n")

	w := NewWorkspace(dir, include.NewLoader())
	if err := w.Initialize(); err != nil {
		t.Fatal(err)
	}

	// 1. the missing file is created (the server reports it with UpdateFile on didOpen/didSave)
	febText := "2024-02-05 Cafe\n  expenses:coffee  3 USD\n  assets:cash\n"
	febPath := write("2024/feb.journal", febText)
	w.UpdateFile(febPath, febText)
	if !w.Contains(febPath) {
		t.Fatalf("precondition: feb.journal should be a member after it was created")
	}

	// 2. b.journal no longer names it; main.journal's glob still matches it
	bText := "; nothing included any more\n"
	write("b.journal", bText)
	w.UpdateFile(bPath, bText)

	fresh := NewWorkspace(dir, include.NewLoader())
	if err := fresh.Initialize(); err != nil {
		t.Fatal(err)
	}

	members := func(ws *Workspace) []string {
		var out []string
		for p := range ws.GetResolved().Files {
			rel, _ := filepath.Rel(dir, p)
			out = append(out, rel)
		}
		sort.Strings(out)
		return out
	}
	got, want := members(w), members(fresh)
	if len(got) != len(want) {
		t.Errorf("member files after the history: %v\n a rebuild on the same files has: %v", got, want)
	}
	gotPayees, wantPayees := w.IndexSnapshot().Payees, fresh.IndexSnapshot().Payees
	if len(gotPayees) != len(wantPayees) {
		t.Errorf("payees known incrementally: %v, after a rebuild: %v", gotPayees, wantPayees)
	}
	if !w.Contains(febPath) {
		t.Errorf("2024/feb.journal is matched by main.journal's 'include 2024/*.journal' but is not a workspace member")
	}
}
