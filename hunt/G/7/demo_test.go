// Copy this file to: internal/server/defect_hover_open_include_test.go (package server)
package server

import (
	"context"
	"os"
	"path/filepath"
	"strings"
	"testing"
	"time"

	"go.lsp.dev/protocol"
)

// C20 (hover figures are exact aggregates over the whole include tree) together with C01
// ("Every feature answer is computed from that text [the text the server holds for each open
// document] and from no older version").
//
// No workspace folder. main.journal includes b.journal; both are open in the editor.
// b.journal is edited (5 USD -> 7 USD, and a second transaction is added) but not saved.
// References and rename asked from main.journal already work on the editor's text of
// b.journal (withOpenDocuments), and with a workspace folder hover does too. Without one,
// hover (and completion) in main.journal take the included file from disk: the balance
// shown is that of the last saved version of a document whose current text the server holds.
func TestDefectHoverIgnoresUnsavedTextOfOpenIncludedDocument(t *testing.T) {
	dir, err := filepath.EvalSymlinks(t.TempDir())
	if err != nil {
		t.Fatal(err)
	}
	mainText := "include b.journal\n\n2024-01-01 x\n  assets:cash  10 USD\n  income:x\n"
	bSaved := "2024-01-02 y\n  assets:cash  5 USD\n  income:x\n"
	bEdited := "2024-01-02 y\n  assets:cash  7 USD\n  income:x\n\n2024-01-03 z\n  assets:cash  1 USD\n  income:new\n"
	for name, content := range map[string]string{"main.journal": mainText, "b.journal": bSaved} {
		if err := os.WriteFile(filepath.Join(dir, name), []byte(content), 0o644); err != nil {
			t.Fatal(err)
		}
	}
	uriOf := func(name string) protocol.DocumentURI {
		return protocol.DocumentURI("file://" + filepath.Join(dir, name))
	}
	ts := newTestServer()
	if _, err := ts.Initialize(context.Background(), &protocol.InitializeParams{}); err != nil { // no root: no workspace
		t.Fatal(err)
	}
	_ = ts.Initialized(context.Background(), &protocol.InitializedParams{})
	ctx := context.Background()

	_ = ts.openDocument(uriOf("main.journal"), mainText)
	_ = ts.openDocument(uriOf("b.journal"), bSaved)
	_ = ts.changeDocument(uriOf("b.journal"), []protocol.TextDocumentContentChangeEvent{{Text: bEdited}})
	time.Sleep(100 * time.Millisecond)

	onCash := protocol.TextDocumentPositionParams{
		TextDocument: protocol.TextDocumentIdentifier{URI: uriOf("main.journal")},
		Position:     protocol.Position{Line: 3, Character: 4},
	}

	// control: references asked from main.journal see the editor's text of b.journal (2 occurrences there)
	refs, err := ts.References(ctx, &protocol.ReferenceParams{TextDocumentPositionParams: onCash})
	if err != nil {
		t.Fatal(err)
	}
	if len(refs) != 3 {
		t.Fatalf("precondition: references see main.journal (1) and the unsaved b.journal (2), got %d: %v", len(refs), refs)
	}

	h, err := ts.Hover(ctx, &protocol.HoverParams{TextDocumentPositionParams: onCash})
	if err != nil || h == nil {
		t.Fatalf("no hover: %v", err)
	}
	if got := h.Contents.Value; !strings.Contains(got, "- 18 USD") || !strings.Contains(got, "**Postings:** 3") {
		t.Errorf("hover on assets:cash in main.journal while b.journal holds unsaved edits:\n%s\nexpected 10 + 7 + 1 = 18 USD in 3 postings (the texts the server holds); it shows the saved version of b.journal (10 + 5 = 15 USD, 2 postings)", got)
	}

	// completion: the account typed in the unsaved b.journal exists in an open document of the tree
	_ = ts.changeDocument(uriOf("main.journal"), []protocol.TextDocumentContentChangeEvent{{Text: mainText + "2024-01-04 w\n  income:n"}})
	list, err := ts.Completion(ctx, &protocol.CompletionParams{TextDocumentPositionParams: protocol.TextDocumentPositionParams{
		TextDocument: protocol.TextDocumentIdentifier{URI: uriOf("main.journal")},
		Position:     protocol.Position{Line: 6, Character: 10},
	}})
	if err != nil {
		t.Fatal(err)
	}
	found := false
	var labels []string
	for _, it := range list.Items {
		labels = append(labels, it.Label)
		if it.Label == "income:new" {
			found = true
		}
	}
	if !found {
		t.Errorf("completion of \"income:n\" in main.journal offers %v; income:new, used in the open document b.journal, is missing", labels)
	}
}
