// Copy this file to: internal/server/defect_root_discovery_glob_test.go (package server)
package server

import (
	"context"
	"os"
	"path/filepath"
	"strings"
	"testing"

	"go.lsp.dev/protocol"
)

// C20 ("hovering an account shows ... the exact sum of all amounts explicitly posted to that
// account in the current file and its include tree or workspace ... hover on any occurrence
// from any file") and C09 (references "whichever file of the tree the request is made from").
//
// A workspace folder without main.journal / .hledger.journal: the root journal is found
// from the include graph ("the file nobody includes"). all.journal includes the monthly
// files with a glob. While looking for the root the include directives are joined to the
// directory as plain paths - the pattern "2024/*.journal" is never expanded (the loader and
// the workspace index both expand it) - so the monthly files look as if nobody included
// them, become root candidates, and the alphabetically first of them,
// 2024/feb.journal, is chosen as the root journal of the workspace. The workspace view then
// consists of feb.journal alone: a request made from jan.journal is answered from
// jan.journal only.
func TestDefectRootDiscoveryIgnoresGlobIncludes(t *testing.T) {
	t.Setenv("LEDGER_FILE", "")
	t.Setenv("HLEDGER_JOURNAL", "")
	dir, err := filepath.EvalSymlinks(t.TempDir())
	if err != nil {
		t.Fatal(err)
	}
	files := map[string]string{
		"all.journal":      "include 2024/*.journal\n\n2024-01-01 opening\n  assets:cash  10 USD\n  equity:opening\n",
		"2024/jan.journal": "2024-01-02 shop\n  assets:cash  5 USD\n  income:x\n",
		"2024/feb.journal": "2024-02-02 shop\n  assets:cash  7 USD\n  income:x\n",
	}
	for name, content := range files {
		p := filepath.Join(dir, name)
		if err := os.MkdirAll(filepath.Dir(p), 0o755); err != nil {
			t.Fatal(err)
		}
		if err := os.WriteFile(p, []byte(content), 0o644); err != nil {
			t.Fatal(err)
		}
	}
	ts := newTestServer()
	if _, err := ts.Initialize(context.Background(), &protocol.InitializeParams{RootURI: protocol.DocumentURI("file://" + dir)}); err != nil {
		t.Fatal(err)
	}
	_ = ts.Initialized(context.Background(), &protocol.InitializedParams{})

	if root, want := ts.Workspace().RootJournalPath(), filepath.Join(dir, "all.journal"); root != want {
		t.Errorf("root journal of the workspace: %s\nexpected %s, the only file that no other file includes", root, want)
	}

	janURI := protocol.DocumentURI("file://" + filepath.Join(dir, "2024/jan.journal"))
	_ = ts.openDocument(janURI, files["2024/jan.journal"])
	h, err := ts.Hover(context.Background(), &protocol.HoverParams{TextDocumentPositionParams: protocol.TextDocumentPositionParams{
		TextDocument: protocol.TextDocumentIdentifier{URI: janURI},
		Position:     protocol.Position{Line: 1, Character: 4}, // on "assets:cash"
	}})
	if err != nil || h == nil {
		t.Fatalf("no hover: %v", err)
	}
	if got := h.Contents.Value; !strings.Contains(got, "- 22 USD") || !strings.Contains(got, "**Postings:** 3") {
		t.Errorf("hover on assets:cash in 2024/jan.journal:\n%s\nexpected the workspace total 10+5+7 = 22 USD in 3 postings", got)
	}

	refs, err := ts.References(context.Background(), &protocol.ReferenceParams{
		TextDocumentPositionParams: protocol.TextDocumentPositionParams{
			TextDocument: protocol.TextDocumentIdentifier{URI: janURI},
			Position:     protocol.Position{Line: 1, Character: 4},
		},
	})
	if err != nil {
		t.Fatal(err)
	}
	if len(refs) != 3 {
		t.Errorf("references to assets:cash asked from 2024/jan.journal: %d location(s) %v, expected 3 (all.journal, jan.journal, feb.journal)", len(refs), refs)
	}
}
