// Copy this file to: internal/include/defect_include_blank_test.go (package include)
package include

import (
	"os"
	"path/filepath"
	"testing"

	"github.com/juev/hledger-lsp/internal/parser"
)

// An include path may contain blanks ("include 2024 taxes.journal"). The path of the
// directive must be the text as written, and the file must be loaded.
// What happens: the parser glues the tokens of the path together WITHOUT the blanks
// whenever the first word is not lexed as free text (a number, an upper-case word, ...),
// so the loader looks for "2024taxes.journal" and reports an existing file as missing.
func TestDefectIncludePathLosesBlank(t *testing.T) {
	for _, name := range []string{"2024 taxes.journal", "TAXES 2024 x.journal", "Q4 report.journal"} {
		j, errs := parser.Parse("include " + name + "\n")
		if len(errs) != 0 || len(j.Includes) != 1 {
			t.Fatalf("%q: unexpected parse result: %v %v", name, j.Includes, errs)
		}
		if got := j.Includes[0].Path; got != name {
			t.Errorf("parser: include path: want %q, got %q", name, got)
		}

		dir := t.TempDir()
		if err := os.WriteFile(filepath.Join(dir, name), []byte("account a:b\n"), 0o644); err != nil {
			t.Fatal(err)
		}
		main := filepath.Join(dir, "main.journal")
		res, loadErrs := NewLoader().LoadFromContent(main, "include "+name+"\n")
		if len(loadErrs) != 0 {
			t.Errorf("loader: %q exists but is reported: %v", name, loadErrs)
		}
		if _, ok := res.Files[filepath.Join(dir, name)]; !ok {
			t.Errorf("loader: %q is reachable through the include directive but was not loaded (files: %v)", name, res.FileOrder)
		}
	}
}

// Control: the same shape works when the first word happens to be lexed as text.
func TestDefectIncludePathLosesBlank_Control(t *testing.T) {
	j, _ := parser.Parse("include my taxes.journal\n")
	if got := j.Includes[0].Path; got != "my taxes.journal" {
		t.Errorf("control: want %q, got %q", "my taxes.journal", got)
	}
}
