// Copy this file to: internal/include/defect_home_glob_test.go (package include)
package include

import (
	"os"
	"path/filepath"
	"testing"
)

// "include ~/j/a.journal" is resolved against the home directory, and "include j/*.journal"
// is expanded as a glob. The combination "include ~/j/*.journal" must therefore load the
// files of $HOME/j. What happens: the glob branch never expands "~", joins the pattern to the
// directory of the including file ("<dir>/~/j/*.journal") and reports "no files match".
func TestDefectHomeRelativeGlobIsNotExpanded(t *testing.T) {
	home := t.TempDir()
	t.Setenv("HOME", home)
	if err := os.MkdirAll(filepath.Join(home, "j"), 0o755); err != nil {
		t.Fatal(err)
	}
	a := filepath.Join(home, "j", "a.journal")
	b := filepath.Join(home, "j", "b.journal")
	os.WriteFile(a, []byte("account a:a\n"), 0o644)
	os.WriteFile(b, []byte("account a:b\n"), 0o644)

	main := filepath.Join(t.TempDir(), "main.journal")

	// control: the home-relative form without glob works
	res, errs := NewLoader().LoadFromContent(main, "include ~/j/a.journal\n")
	if len(errs) != 0 || res.Files[a] == nil {
		t.Fatalf("control failed: files=%v errs=%v", res.FileOrder, errs)
	}

	res, errs = NewLoader().LoadFromContent(main, "include ~/j/*.journal\n")
	if len(errs) != 0 {
		t.Errorf("want no load errors for a home-relative glob matching 2 files, got %v", errs)
	}
	if res.Files[a] == nil || res.Files[b] == nil {
		t.Errorf("want %s and %s loaded, got %v", a, b, res.FileOrder)
	}
}
