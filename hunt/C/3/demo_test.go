// Copy this file to: internal/include/defect_glob_dir_meta_test.go (package include)
package include

import (
	"os"
	"path/filepath"
	"testing"
)

// A relative glob is a pattern for names in the directory of the including file. The
// directory itself is not part of the pattern. What happens: the directory is joined into
// the pattern unescaped, so a journal that lives in a directory whose name contains a glob
// metacharacter ("[", "*", "?", "{") cannot include anything by glob: "my[1]" is read as
// "my" followed by the class [1], which does not match the directory "my[1]".
func TestDefectGlobInDirectoryWithMetacharacters(t *testing.T) {
	for _, dirName := range []string{"my[1]", "books{old}", "what?"} {
		root := t.TempDir()
		dir := filepath.Join(root, dirName)
		if err := os.MkdirAll(dir, 0o755); err != nil {
			t.Fatal(err)
		}
		main := filepath.Join(dir, "main.journal")
		x := filepath.Join(dir, "x.journal")
		os.WriteFile(main, []byte("include *.journal\n"), 0o644)
		os.WriteFile(x, []byte("account a:b\n"), 0o644)

		// control: the plain relative include works in this directory
		res, errs := NewLoader().LoadFromContent(main, "include x.journal\n")
		if len(errs) != 0 || res.Files[x] == nil {
			t.Fatalf("control failed in %q: files=%v errs=%v", dirName, res.FileOrder, errs)
		}

		res, errs = NewLoader().Load(main)
		if len(errs) != 0 {
			t.Errorf("dir %q: want no errors for 'include *.journal' (x.journal is next to main.journal), got %v", dirName, errs)
		}
		if res == nil || res.Files[x] == nil {
			t.Errorf("dir %q: want %s loaded, got none", dirName, x)
		}
	}
}
