// Copy this file to: internal/server/defect_dependents_test.go (package server)
package server

import (
	"context"
	"fmt"
	"os"
	"path/filepath"
	"testing"
	"time"

	"go.lsp.dev/protocol"
)

// Property C13: once notifications stop, the last diagnostics published for each open
// document are those of its latest content (in the state the other files are in then).
//
// main.journal includes decl.journal, which declares the accounts main.journal posts to.
// Both are open. decl.journal is changed so that it no longer declares "wallet:cash"
// and is saved. main.journal is never analysed again: the last
// diagnostics the client holds for it say "nothing wrong", a server that is given the
// same final texts from the start warns about wallet:cash.

func defectLastDiagnosticsFor(c *integrationMockClient, uri protocol.DocumentURI) string {
	c.mu.Lock()
	defer c.mu.Unlock()
	for i := len(c.diagnostics) - 1; i >= 0; i-- {
		if c.diagnostics[i].URI != uri {
			continue
		}
		s := ""
		for _, d := range c.diagnostics[i].Diagnostics {
			s += fmt.Sprintf("[%d:%d %v %s]", d.Range.Start.Line, d.Range.Start.Character, d.Code, d.Message)
		}
		return s
	}
	return "<nothing published>"
}

func defectDependentsRun(t *testing.T, withWorkspace, save bool) (session, fresh string) {
	t.Helper()
	dir := t.TempDir()
	mainPath := filepath.Join(dir, "main.journal")
	declPath := filepath.Join(dir, "decl.journal")
	mainText := "include decl.journal\n\n2024-01-15 x\n    spend:food  $5\n    wallet:cash\n"
	decl1 := "account spend:food\naccount wallet:cash\n"
	decl2 := "account spend:food\naccount wallet:bank\n"
	if err := os.WriteFile(mainPath, []byte(mainText), 0o644); err != nil {
		t.Fatal(err)
	}
	mainURI := protocol.DocumentURI("file://" + mainPath)
	declURI := protocol.DocumentURI("file://" + declPath)
	ctx := context.Background()

	newServer := func() *testServer {
		ts := newTestServer()
		if withWorkspace {
			_, _ = ts.Initialize(ctx, &protocol.InitializeParams{RootURI: protocol.DocumentURI("file://" + dir)})
			_ = ts.Initialized(ctx, &protocol.InitializedParams{})
		}
		return ts
	}

	// the editing session
	_ = os.WriteFile(declPath, []byte(decl1), 0o644)
	ts := newServer()
	_ = ts.openDocument(mainURI, mainText)
	_ = ts.openDocument(declURI, decl1)
	time.Sleep(150 * time.Millisecond) // both analyses have published
	_ = ts.changeDocument(declURI, []protocol.TextDocumentContentChangeEvent{{Text: decl2}})
	if save {
		_ = os.WriteFile(declPath, []byte(decl2), 0o644)
		_ = ts.DidSave(ctx, &protocol.DidSaveTextDocumentParams{TextDocument: protocol.TextDocumentIdentifier{URI: declURI}})
	}
	time.Sleep(300 * time.Millisecond) // notifications have stopped
	session = defectLastDiagnosticsFor(ts.client, mainURI)

	// a fresh server that sees the same final state
	fs := newServer()
	_ = fs.openDocument(declURI, decl2)
	_ = fs.openDocument(mainURI, mainText)
	time.Sleep(300 * time.Millisecond)
	fresh = defectLastDiagnosticsFor(fs.client, mainURI)
	return session, fresh
}

// The same with a workspace folder (declarations are then also taken from the workspace index).
func TestDefectDependentNotReanalysedAfterSave_Workspace(t *testing.T) {
	session, fresh := defectDependentsRun(t, true, true)
	if session != fresh {
		t.Errorf("main.journal, last published diagnostics after decl.journal was changed and saved:\n  got  %s\n  want %s (what a fresh server publishes for the same files)", session, fresh)
	}
}

// Without a workspace the declarations come from the include tree, read from disk:
// the change shows once decl.journal is saved.
func TestDefectDependentNotReanalysedAfterSave_NoWorkspace(t *testing.T) {
	session, fresh := defectDependentsRun(t, false, true)
	if session != fresh {
		t.Errorf("main.journal, last published diagnostics after decl.journal was changed and saved:\n  got  %s\n  want %s (what a fresh server publishes for the same files)", session, fresh)
	}
}

// A burst of two changes to two documents, nothing saved (C13's quantifier): first
// main.journal gets a posting to the new account wallet:new, then decl.journal gets the
// declaration "account wallet:new". With a workspace folder the declarations of the
// open decl.journal count as soon as they are typed - a fresh server given the two final
// texts publishes no warning for main.journal - but the warning computed for
// main.journal before decl.journal changed remains the last word.
func TestDefectBurstOverTwoDocuments_Workspace(t *testing.T) {
	dir := t.TempDir()
	mainPath := filepath.Join(dir, "main.journal")
	declPath := filepath.Join(dir, "decl.journal")
	main1 := "include decl.journal\n\n2024-01-15 x\n    spend:food  $5\n    wallet:cash\n"
	main2 := "include decl.journal\n\n2024-01-15 x\n    spend:food  $5\n    wallet:new\n"
	decl1 := "account spend:food\naccount wallet:cash\n"
	decl2 := "account spend:food\naccount wallet:cash\naccount wallet:new\n"
	_ = os.WriteFile(mainPath, []byte(main1), 0o644)
	_ = os.WriteFile(declPath, []byte(decl1), 0o644)
	mainURI := protocol.DocumentURI("file://" + mainPath)
	declURI := protocol.DocumentURI("file://" + declPath)
	ctx := context.Background()
	newServer := func() *testServer {
		ts := newTestServer()
		_, _ = ts.Initialize(ctx, &protocol.InitializeParams{RootURI: protocol.DocumentURI("file://" + dir)})
		_ = ts.Initialized(ctx, &protocol.InitializedParams{})
		return ts
	}

	ts := newServer()
	_ = ts.openDocument(mainURI, main1)
	_ = ts.openDocument(declURI, decl1)
	time.Sleep(150 * time.Millisecond)
	_ = ts.changeDocument(mainURI, []protocol.TextDocumentContentChangeEvent{{Text: main2}})
	time.Sleep(150 * time.Millisecond) // the analysis of main.journal reaches its publish point first
	_ = ts.changeDocument(declURI, []protocol.TextDocumentContentChangeEvent{{Text: decl2}})
	time.Sleep(300 * time.Millisecond)
	session := defectLastDiagnosticsFor(ts.client, mainURI)

	fs := newServer()
	_ = fs.openDocument(declURI, decl2)
	_ = fs.openDocument(mainURI, main2)
	time.Sleep(300 * time.Millisecond)
	fresh := defectLastDiagnosticsFor(fs.client, mainURI)

	if session != fresh {
		t.Errorf("main.journal, last published diagnostics after the burst:\n  got  %s\n  want %s (what a fresh server publishes for the same two texts)", session, fresh)
	}
}
