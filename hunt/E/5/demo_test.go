// Copy this file to: internal/server/defect_diagnostics_settings_test.go (package server)
package server

import (
	"context"
	"fmt"
	"testing"
	"time"

	"go.lsp.dev/protocol"
)

// Property C19: "Recognised well-typed values take effect on subsequent behaviour
// (..., diagnostic categories, ...)" for configuration changes; with C13: once
// notifications stop, the last diagnostics published for an open document are the ones
// that hold for it (under the configuration in force).
//
// A configuration change that switches a diagnostic category off (or on) is stored, but
// no open document is analysed again: the warnings of the category stay on the client
// until the user happens to edit each document.

type defectDiagConfigClient struct {
	*integrationMockClient
	answer interface{}
}

func (c *defectDiagConfigClient) Configuration(context.Context, *protocol.ConfigurationParams) ([]interface{}, error) {
	return []interface{}{c.answer}, nil
}

func defectLastFor(c *integrationMockClient, uri protocol.DocumentURI) string {
	c.mu.Lock()
	defer c.mu.Unlock()
	for i := len(c.diagnostics) - 1; i >= 0; i-- {
		if c.diagnostics[i].URI != uri {
			continue
		}
		s := ""
		for _, d := range c.diagnostics[i].Diagnostics {
			s += fmt.Sprintf("[%d:%d %v %s]", d.Range.Start.Line, d.Range.Start.Character, d.Code, d.Message)
		}
		return s
	}
	return "<nothing published>"
}

func TestDefectDiagnosticCategorySwitchedOffStaysPublished(t *testing.T) {
	text := "account wallet:cash\n\n2024-01-15 x\n    wallet:cash  $5\n    pocket:money  $-4\n"
	uri := protocol.DocumentURI("file:///tmp/defect-diag-settings/main.journal")
	ctx := context.Background()
	off := map[string]interface{}{"diagnostics": map[string]interface{}{
		"undeclaredAccounts": false, "unbalancedTransactions": false}}

	start := func(initOptions interface{}) (*Server, *defectDiagConfigClient) {
		srv := NewServer()
		cl := &defectDiagConfigClient{integrationMockClient: newIntegrationMockClient(), answer: initOptions}
		srv.SetClient(cl)
		_, _ = srv.Initialize(ctx, &protocol.InitializeParams{
			Capabilities:          protocol.ClientCapabilities{Workspace: &protocol.WorkspaceClientCapabilities{Configuration: true}},
			InitializationOptions: initOptions,
		})
		_ = srv.Initialized(ctx, &protocol.InitializedParams{})
		time.Sleep(50 * time.Millisecond)
		_ = srv.DidOpen(ctx, &protocol.DidOpenTextDocumentParams{TextDocument: protocol.TextDocumentItem{URI: uri, Text: text}})
		time.Sleep(150 * time.Millisecond)
		return srv, cl
	}

	// reference: a server that has the two categories off from the start
	_, refClient := start(off)
	want := defectLastFor(refClient.integrationMockClient, uri)

	// session: defaults first (both diagnostics are published), then the change
	srv, cl := start(nil)
	before := defectLastFor(cl.integrationMockClient, uri)
	if before == "" || before == want {
		t.Fatalf("precondition: with default settings the document has diagnostics, got %q", before)
	}
	cl.answer = off
	_ = srv.DidChangeConfiguration(ctx, &protocol.DidChangeConfigurationParams{})
	time.Sleep(300 * time.Millisecond) // the refresh has been applied, notifications have stopped
	if s := srv.getSettings().Diagnostics; s.UndeclaredAccounts || s.UnbalancedTransactions {
		t.Fatalf("the new values are not in force: %+v", s)
	}
	got := defectLastFor(cl.integrationMockClient, uri)
	if got != want {
		t.Errorf("diagnostics.undeclaredAccounts and .unbalancedTransactions switched off by a configuration change (values in force: off)\n  last published for the open document: %s\n  want: %q (what a server configured like this from the start publishes)", got, want)
	}
}

// The ordinary start of an editor session: the user's settings (category off) are not in
// initializationOptions, they come with the answer to the workspace/configuration request
// that Initialized() sends; the editor opens its document right after `initialized`,
// i.e. before that answer (one round trip) has arrived.  The document is analysed under
// the defaults, and when the settings arrive nothing is published again.
type defectSlowConfigClient struct {
	*integrationMockClient
	answer interface{}
	delay  time.Duration
}

func (c *defectSlowConfigClient) Configuration(context.Context, *protocol.ConfigurationParams) ([]interface{}, error) {
	time.Sleep(c.delay)
	return []interface{}{c.answer}, nil
}

func TestDefectSettingsArrivingAfterDidOpenAreNotApplied(t *testing.T) {
	text := "account wallet:cash\n\n2024-01-15 x\n    wallet:cash  $5\n    pocket:money  $-5\n"
	uri := protocol.DocumentURI("file:///tmp/defect-diag-settings/start.journal")
	ctx := context.Background()
	srv := NewServer()
	cl := &defectSlowConfigClient{
		integrationMockClient: newIntegrationMockClient(),
		answer:                map[string]interface{}{"diagnostics": map[string]interface{}{"undeclaredAccounts": false}},
		delay:                 100 * time.Millisecond,
	}
	srv.SetClient(cl)
	_, _ = srv.Initialize(ctx, &protocol.InitializeParams{
		Capabilities: protocol.ClientCapabilities{Workspace: &protocol.WorkspaceClientCapabilities{Configuration: true}},
	})
	_ = srv.Initialized(ctx, &protocol.InitializedParams{})
	_ = srv.DidOpen(ctx, &protocol.DidOpenTextDocumentParams{TextDocument: protocol.TextDocumentItem{URI: uri, Text: text}})
	time.Sleep(500 * time.Millisecond)
	if srv.getSettings().Diagnostics.UndeclaredAccounts {
		t.Fatal("the pulled setting is not in force")
	}
	if got := defectLastFor(cl.integrationMockClient, uri); got != "" {
		t.Errorf("diagnostics.undeclaredAccounts = false is in force, yet the last diagnostics published for the open document are %s", got)
	}
}
