// Copy this file to: internal/parser/defect_subdirective_test.go (package parser)
package parser

import (
	"testing"

	"github.com/juev/hledger-lsp/internal/ast"
)

// Property C03: a journal written only with supported constructs (comments, account /
// commodity directives with their indented sub-directives, ...) produces no syntax-error
// diagnostics and the directive payloads extracted equal what was written.
// (Seen from C07: the false error lands on a line that is perfectly well-formed.)
//
// A sub-directive line that carries a comment, or whose text contains a colon, ends the
// directive: the next indented line is reported as "unexpected token: Indent", its
// content is lost, and the comment is filed as a top-level comment of the journal.

func defectCommodityDirective(t *testing.T, j *ast.Journal) ast.CommodityDirective {
	t.Helper()
	for _, d := range j.Directives {
		if cd, ok := d.(ast.CommodityDirective); ok {
			return cd
		}
	}
	t.Fatal("no commodity directive in the syntax tree")
	return ast.CommodityDirective{}
}

func TestDefectCommentAfterSubdirectiveEndsTheDirective(t *testing.T) {
	src := "commodity EUR\n" +
		"  note  the common currency  ; since 1999\n" +
		"  format 1.000,00 EUR\n" +
		"\n" +
		"2024-01-15 x\n" +
		"    a:b  1,50 EUR\n" +
		"    a:c\n"
	j, errs := Parse(src)
	for _, e := range errs {
		t.Errorf("syntax error on a valid journal: %d:%d %s", e.Pos.Line, e.Pos.Column, e.Message)
	}
	cd := defectCommodityDirective(t, j)
	if cd.Format != "1.000,00 EUR" {
		t.Errorf("format sub-directive: got %q, want %q", cd.Format, "1.000,00 EUR")
	}
	if cd.Note != "the common currency" {
		t.Errorf("note sub-directive: got %q", cd.Note)
	}
	if cd.Range.End.Line != 3 {
		t.Errorf("the directive ends on line %d, want 3 (it has two sub-directive lines)", cd.Range.End.Line)
	}
	if len(j.Comments) != 0 {
		t.Errorf("the comment of the sub-directive became a top-level comment: %q", j.Comments[0].Text)
	}
}

func TestDefectColonInSubdirectiveEndsTheDirective(t *testing.T) {
	src := "commodity EUR\n" +
		"  note see https://example.org/eur\n" +
		"  format 1.000,00 EUR\n"
	j, errs := Parse(src)
	for _, e := range errs {
		t.Errorf("syntax error on a valid journal: %d:%d %s", e.Pos.Line, e.Pos.Column, e.Message)
	}
	cd := defectCommodityDirective(t, j)
	if cd.Format != "1.000,00 EUR" {
		t.Errorf("format sub-directive: got %q, want %q", cd.Format, "1.000,00 EUR")
	}
	if cd.Note != "see https://example.org/eur" {
		t.Errorf("note sub-directive: got %q", cd.Note)
	}
}

func TestDefectAccountSubdirectiveWithComment(t *testing.T) {
	src := "account assets:cash\n" +
		"  note petty cash ; in the drawer\n" +
		"  type A\n"
	j, errs := Parse(src)
	for _, e := range errs {
		t.Errorf("syntax error on a valid journal: %d:%d %s", e.Pos.Line, e.Pos.Column, e.Message)
	}
	if len(j.Directives) != 1 {
		t.Fatalf("directives: %d", len(j.Directives))
	}
	ad := j.Directives[0].(ast.AccountDirective)
	if ad.Subdirs["type"] != "A" || ad.Subdirs["note"] != "petty cash" {
		t.Errorf("sub-directives: got %v, want note and type", ad.Subdirs)
	}
}
