// Copy this file to: internal/server/defect_limits_workspace_test.go (package server)
package server

import (
	"context"
	"os"
	"path/filepath"
	"sort"
	"strings"
	"testing"
	"time"

	"go.lsp.dev/protocol"
)

// Property C19: "Recognised well-typed values take effect on subsequent behaviour
// (completion limit ..., include limits)", for configuration "at initialisation or on
// change" and sequences of configuration changes.
//
// The include limits (limits.maxFileSizeBytes, limits.maxIncludeDepth) reach the loader,
// but the workspace's view of the root journal's include tree - which answers completion,
// hover, references, ... for every document of the tree - was built in Initialized()
// under the limits in force THEN and is never rebuilt.  Settings normally arrive later,
// through the workspace/configuration pull that Initialized() only starts.

type defectConfigClient struct {
	*integrationMockClient
	answer interface{}
}

func (c *defectConfigClient) Configuration(context.Context, *protocol.ConfigurationParams) ([]interface{}, error) {
	return []interface{}{c.answer}, nil
}

func defectLimits(maxFileSize float64) map[string]interface{} {
	return map[string]interface{}{"limits": map[string]interface{}{"maxFileSizeBytes": maxFileSize}}
}

// defectAccountsOffered starts a server on a folder whose main.journal includes
// big.journal (about 1.4 kB), configures it as told, and returns the accounts that
// completion offers on an empty posting line of main.journal.
func defectAccountsOffered(t *testing.T, initOptions, pulledAtStart, pulledOnChange interface{}) (offered []string, limitInForce int64) {
	t.Helper()
	dir := t.TempDir()
	mainPath := filepath.Join(dir, "main.journal")
	mainText := "include big.journal\n\n2024-01-15 x\n    spend:food  $5\n    \n"
	big := "2024-01-01 y\n    bigfile:account  $1\n    wallet:cash\n" + strings.Repeat("; padding padding padding padding\n", 40)
	_ = os.WriteFile(mainPath, []byte(mainText), 0o644)
	_ = os.WriteFile(filepath.Join(dir, "big.journal"), []byte(big), 0o644)
	mainURI := protocol.DocumentURI("file://" + mainPath)
	ctx := context.Background()

	srv := NewServer()
	cl := &defectConfigClient{integrationMockClient: newIntegrationMockClient(), answer: pulledAtStart}
	srv.SetClient(cl)
	_, _ = srv.Initialize(ctx, &protocol.InitializeParams{
		RootURI:               protocol.DocumentURI("file://" + dir),
		Capabilities:          protocol.ClientCapabilities{Workspace: &protocol.WorkspaceClientCapabilities{Configuration: true}},
		InitializationOptions: initOptions,
	})
	_ = srv.Initialized(ctx, &protocol.InitializedParams{})
	time.Sleep(100 * time.Millisecond) // the pull started by Initialized has been answered and applied
	_ = srv.DidOpen(ctx, &protocol.DidOpenTextDocumentParams{TextDocument: protocol.TextDocumentItem{URI: mainURI, Text: mainText}})
	if pulledOnChange != nil {
		cl.answer = pulledOnChange
		_ = srv.DidChangeConfiguration(ctx, &protocol.DidChangeConfigurationParams{})
	}
	time.Sleep(150 * time.Millisecond)

	res, err := srv.Completion(ctx, &protocol.CompletionParams{TextDocumentPositionParams: protocol.TextDocumentPositionParams{
		TextDocument: protocol.TextDocumentIdentifier{URI: mainURI}, Position: protocol.Position{Line: 4, Character: 4}}})
	if err != nil || res == nil {
		t.Fatalf("completion: %v", err)
	}
	offered = extractCompletionLabels(res.Items)
	sort.Strings(offered)
	return offered, srv.getSettings().Limits.MaxFileSizeBytes
}

// The limit is raised by a configuration change: the file that was too large is allowed
// now, its accounts must be offered (as they are when the server starts with that limit).
func TestDefectRaisedFileSizeLimitDoesNotReachWorkspace(t *testing.T) {
	want, _ := defectAccountsOffered(t, defectLimits(10_000_000), nil, nil)
	got, inForce := defectAccountsOffered(t, defectLimits(500), defectLimits(500), defectLimits(10_000_000))
	if inForce != 10_000_000 {
		t.Fatalf("limit in force %d", inForce)
	}
	if strings.Join(got, ",") != strings.Join(want, ",") {
		t.Errorf("limits.maxFileSizeBytes 500 -> 10000000 by configuration change (value in force: %d)\n  completion offers %v\n  want             %v (what a server started with that limit offers)", inForce, got, want)
	}
}

// The ordinary start-up of an editor: nothing in initializationOptions, the settings come
// with the answer to the server's workspace/configuration request.  The limit in force is
// 500 bytes, big.journal is refused wherever the loader is asked - but the workspace was
// built before the answer came and goes on offering the accounts of the refused file.
func TestDefectPulledFileSizeLimitDoesNotReachWorkspace(t *testing.T) {
	want, _ := defectAccountsOffered(t, defectLimits(500), defectLimits(500), nil)
	got, inForce := defectAccountsOffered(t, nil, defectLimits(500), nil)
	if inForce != 500 {
		t.Fatalf("limit in force %d", inForce)
	}
	if strings.Join(got, ",") != strings.Join(want, ",") {
		t.Errorf("limits.maxFileSizeBytes = 500 delivered by workspace/configuration (value in force: %d)\n  completion offers %v\n  want             %v (what a server given the same limit in initializationOptions offers)", inForce, got, want)
	}
}
