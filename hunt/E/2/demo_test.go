// Copy this file to: internal/server/defect_uri_spelling_test.go (package server)
package server

import (
	"context"
	"os"
	"path/filepath"
	"strings"
	"testing"
	"time"

	"go.lsp.dev/protocol"
)

// Properties C09 / C08 / C01: positions sent to the client refer to the text the client
// shows ("with unsaved edits in open files"), every answer is computed from the mirrored
// text and from no older version.
//
// The journals live in a folder called "R&D".  VS Code and Neovim percent-encode
// '&' (and + , ; = @ $) in the URIs they send: file:///.../R%26D/sub.journal.  The server
// finds the open copy of an included file with GetDocument(pathToURI(path)), and
// pathToURI (go.lsp.dev/uri.File) does NOT encode these characters, so the lookup misses
// and the included file is taken from disk although it is open with unsaved edits.

// editorURI encodes a path the way VS Code does: everything except unreserved
// characters and '/' is percent-encoded.
func editorURI(path string) protocol.DocumentURI {
	const hex = "0123456789ABCDEF"
	var sb strings.Builder
	sb.WriteString("file://")
	for i := 0; i < len(path); i++ {
		c := path[i]
		switch {
		case c >= 'a' && c <= 'z', c >= 'A' && c <= 'Z', c >= '0' && c <= '9',
			c == '-', c == '.', c == '_', c == '~', c == '/':
			sb.WriteByte(c)
		default:
			sb.WriteByte('%')
			sb.WriteByte(hex[c>>4])
			sb.WriteByte(hex[c&15])
		}
	}
	return protocol.DocumentURI(sb.String())
}

func defectURISetup(t *testing.T, folder string) (ts *testServer, mainURI, subURI protocol.DocumentURI, subPath string) {
	t.Helper()
	dir := filepath.Join(t.TempDir(), folder)
	if err := os.MkdirAll(dir, 0o755); err != nil {
		t.Fatal(err)
	}
	mainPath := filepath.Join(dir, "main.journal")
	subPath = filepath.Join(dir, "sub.journal")
	mainText := "include sub.journal\n\n2024-01-15 x\n    spend:food  $5\n    wallet:cash\n"
	subOnDisk := "2024-01-01 y\n    spend:food  $1\n    wallet:cash\n"
	// the editor's copy has two more lines at the top: not saved yet
	subInEditor := "; a new first line\n\n" + subOnDisk
	_ = os.WriteFile(mainPath, []byte(mainText), 0o644)
	_ = os.WriteFile(subPath, []byte(subOnDisk), 0o644)
	mainURI, subURI = editorURI(mainPath), editorURI(subPath)
	if uriToPath(subURI) != subPath {
		t.Fatalf("the server decodes %s to %s, not to %s", subURI, uriToPath(subURI), subPath)
	}
	ts = newTestServer()
	_ = ts.openDocument(mainURI, mainText)
	_ = ts.openDocument(subURI, subInEditor)
	time.Sleep(100 * time.Millisecond)
	return ts, mainURI, subURI, subPath
}

func TestDefectReferencesIgnoreOpenDocumentInFolderWithAmpersand(t *testing.T) {
	for _, folder := range []string{"plain", "R&D", "2024+2025", "me@home"} {
		ts, mainURI, _, subPath := defectURISetup(t, folder)
		// references of "spend:food", asked on main.journal line 3
		locs, err := ts.references(mainURI, 3, 6, true)
		if err != nil {
			t.Fatal(err)
		}
		var lines []uint32
		for _, l := range locs {
			if uriToPath(l.URI) == subPath {
				lines = append(lines, l.Range.Start.Line)
			}
		}
		// in the text the editor shows, the posting is on line 3 (0-based); on disk it is on line 1
		if len(lines) != 1 || lines[0] != 3 {
			t.Errorf("folder %q: the reference in sub.journal is reported on line(s) %v; the open document has it on line 3 (line 1 is where the stale file on disk has it)", folder, lines)
		}
	}
}

func TestDefectRenameEditsMissOpenDocumentInFolderWithAmpersand(t *testing.T) {
	ts, mainURI, _, subPath := defectURISetup(t, "R&D")
	edit, err := ts.Rename(context.Background(), &protocol.RenameParams{
		TextDocumentPositionParams: protocol.TextDocumentPositionParams{
			TextDocument: protocol.TextDocumentIdentifier{URI: mainURI},
			Position:     protocol.Position{Line: 3, Character: 6},
		},
		NewName: "spend:groceries",
	})
	if err != nil || edit == nil {
		t.Fatalf("rename: %v %v", edit, err)
	}
	for u, edits := range edit.Changes {
		if uriToPath(u) != subPath {
			continue
		}
		for _, e := range edits {
			// Applied to the editor's text, line 1 is the empty second line: the edit would
			// insert the new name there and leave the real occurrence (line 3) untouched.
			if e.Range.Start.Line != 3 {
				t.Errorf("rename edit for sub.journal at line %d (%+v); the account stands on line 3 of the open document", e.Range.Start.Line, e.Range)
			}
		}
	}
}
