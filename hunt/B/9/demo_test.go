// Copy this file to: internal/server/defect_semantic_blanks_test.go (package server)
package server

import (
	"context"
	"fmt"
	"strings"
	"testing"
	"unicode/utf16"

	"go.lsp.dev/protocol"
)

// defect9Tokens returns the semantic tokens of doc, decoded from the wire format of a
// textDocument/semanticTokens/full response, as "line:type:text" strings.
func defect9Tokens(t *testing.T, doc string) []string {
	t.Helper()
	srv := NewServer()
	uri := protocol.DocumentURI("file:///tmp/defect9/test.journal")
	srv.StoreDocument(uri, doc)
	res, err := srv.SemanticTokensFull(context.Background(), &protocol.SemanticTokensParams{
		TextDocument: protocol.TextDocumentIdentifier{URI: uri},
	})
	if err != nil {
		t.Fatal(err)
	}
	legend := GetSemanticTokensLegend().TokenTypes
	lines := strings.Split(doc, "\n")
	var out []string
	line, col := uint32(0), uint32(0)
	for i := 0; i+4 < len(res.Data); i += 5 {
		if res.Data[i] > 0 {
			line += res.Data[i]
			col = res.Data[i+1]
		} else {
			col += res.Data[i+1]
		}
		length := res.Data[i+2]
		u := utf16.Encode([]rune(lines[line]))
		if int(col+length) > len(u) {
			t.Fatalf("token %d:%d+%d lies outside its line %q", line, col, length, lines[line])
		}
		out = append(out, fmt.Sprintf("%d:%s:%q", line, legend[res.Data[i+3]], string(utf16.Decode(u[col:col+length]))))
	}
	return out
}

func defect9Check(t *testing.T, doc string, want ...string) {
	t.Helper()
	got := defect9Tokens(t, doc)
	if strings.Join(got, " ") != strings.Join(want, " ") {
		t.Errorf("semantic tokens of %q\n  got  %v\n  want %v", doc, got, want)
	}
}

// C17: "each covers exactly one lexeme of that kind". An account name that is followed
// by ONE blank and then a comment, '=' or the line end gets a token that includes the blank.
func TestDefectC17_AccountTokenIncludesTrailingBlank(t *testing.T) {
	defect9Check(t, "2024-01-15 shop\n    assets:cash ; note\n",
		`0:date:"2024-01-15"`, `0:payee:"shop"`, `1:account:"assets:cash"`, `1:comment:"; note"`)
	defect9Check(t, "2024-01-15 shop\n    assets:cash = 1 EUR\n",
		`0:date:"2024-01-15"`, `0:payee:"shop"`, `1:account:"assets:cash"`, `1:operator:"="`, `1:amount:"1"`, `1:commodity:"EUR"`)
	defect9Check(t, "account assets:cash ; c\n",
		`0:directive:"account"`, `0:account:"assets:cash"`, `0:comment:"; c"`)
}

// C17 (quantifier: "journals from G and arbitrary text"): free text that follows a tab
// gets a token that starts AT the tab and has the length of the text without it, so it
// is shifted one column to the left and cuts off the last character; a tab before the
// line end or a comment yields a token of length zero.
func TestDefectC17_TextAfterTabIsShiftedAndBlankTailGetsEmptyToken(t *testing.T) {
	defect9Check(t, "2024-01-15\tshop\n",
		`0:date:"2024-01-15"`, `0:payee:"shop"`)
	defect9Check(t, "2024-01-15 * shop |\tnote\n",
		`0:date:"2024-01-15"`, `0:status:"*"`, `0:payee:"shop"`, `0:operator:"|"`, `0:string:"note"`)
	defect9Check(t, "2024-01-15 shop\n    assets:cash  1 EUR\t; c\n",
		`0:date:"2024-01-15"`, `0:payee:"shop"`, `1:account:"assets:cash"`, `1:amount:"1"`, `1:commodity:"EUR"`, `1:comment:"; c"`)
	for _, tok := range defect9Tokens(t, "2024-01-15 shop\n    assets:cash\t\n") {
		if strings.HasSuffix(tok, `:""`) {
			t.Errorf("token of length zero: %s", tok)
		}
	}
}
