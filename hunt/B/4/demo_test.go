// Copy this file to: internal/server/defect_config_order_test.go (package server)
package server

import (
	"context"
	"fmt"
	"strings"
	"sync"
	"testing"
	"time"

	"go.lsp.dev/protocol"
)

// defect4Client answers workspace/configuration with the configuration the editor has
// at the moment the request arrives; the answer to the FIRST request is delayed in transit.
type defect4Client struct {
	*integrationMockClient
	mu       sync.Mutex
	calls    int
	current  int // the editor's hledger.completion.maxResults
	arrived1 chan struct{}
	release1 chan struct{}
}

func (c *defect4Client) Configuration(_ context.Context, _ *protocol.ConfigurationParams) ([]interface{}, error) {
	c.mu.Lock()
	c.calls++
	n := c.calls
	answer := map[string]interface{}{"completion": map[string]interface{}{"maxResults": float64(c.current)}}
	c.mu.Unlock()
	if n == 1 {
		close(c.arrived1)
		<-c.release1
	}
	return []interface{}{answer}, nil
}

func (c *defect4Client) set(v int) {
	c.mu.Lock()
	c.current = v
	c.mu.Unlock()
}

// C19 (effectiveness over sequences of configuration changes) / C14 (configuration
// refresh running concurrently with later notifications): the user sets maxResults to
// 5 and then to 7. Each didChangeConfiguration starts its own goroutine that pulls the
// configuration and writes the settings; when the first goroutine gets its answer after
// the second one, the superseded value 5 is what stays in force.
func TestDefectC19_OlderConfigurationAnswerOverwritesNewerOne(t *testing.T) {
	srv := NewServer()
	cl := &defect4Client{
		integrationMockClient: newIntegrationMockClient(),
		arrived1:              make(chan struct{}),
		release1:              make(chan struct{}),
	}
	srv.SetClient(cl)
	srv.supportsConfiguration = true
	ctx := context.Background()

	// a document with 10 accounts to complete
	var sb strings.Builder
	sb.WriteString("2024-01-01 opening\n")
	for i := 0; i < 10; i++ {
		fmt.Fprintf(&sb, "    assets:acc%02d  1 EUR\n", i)
	}
	sb.WriteString("    equity:opening\n\n2024-01-02 next\n    ")
	uri := protocol.DocumentURI("file:///tmp/defect4/test.journal")
	srv.StoreDocument(uri, sb.String())

	cl.set(5)
	if err := srv.DidChangeConfiguration(ctx, &protocol.DidChangeConfigurationParams{}); err != nil {
		t.Fatal(err)
	}
	<-cl.arrived1 // the first pull has been answered with maxResults=5; the answer is on its way

	cl.set(7)
	if err := srv.DidChangeConfiguration(ctx, &protocol.DidChangeConfigurationParams{}); err != nil {
		t.Fatal(err)
	}
	deadline := time.Now().Add(2 * time.Second)
	for srv.getSettings().Completion.MaxResults != 7 {
		if time.Now().After(deadline) {
			t.Fatalf("the second configuration (maxResults=7) never took effect: %d", srv.getSettings().Completion.MaxResults)
		}
		time.Sleep(time.Millisecond)
	}

	close(cl.release1) // now the delayed first answer arrives
	time.Sleep(200 * time.Millisecond)

	if got := srv.getSettings().Completion.MaxResults; got != 7 {
		t.Errorf("after both refreshes finished maxResults is %d; the editor's configuration says 7 (5 was superseded)", got)
	}
	res, err := srv.Completion(ctx, &protocol.CompletionParams{
		TextDocumentPositionParams: protocol.TextDocumentPositionParams{
			TextDocument: protocol.TextDocumentIdentifier{URI: uri},
			Position:     protocol.Position{Line: 14, Character: 4},
		},
	})
	if err != nil {
		t.Fatal(err)
	}
	if len(res.Items) != 7 {
		t.Errorf("completion returns %d items, expected 7 (the limit configured last)", len(res.Items))
	}
}
