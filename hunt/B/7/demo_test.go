// Copy this file to: internal/server/defect_completion_indent_test.go (package server)
package server

import (
	"context"
	"strings"
	"testing"

	"go.lsp.dev/protocol"

	"github.com/juev/hledger-lsp/internal/parser"
)

func defect7Labels(t *testing.T, srv *Server, uri protocol.DocumentURI, line, char uint32) []string {
	t.Helper()
	res, err := srv.Completion(context.Background(), &protocol.CompletionParams{
		TextDocumentPositionParams: protocol.TextDocumentPositionParams{
			TextDocument: protocol.TextDocumentIdentifier{URI: uri},
			Position:     protocol.Position{Line: line, Character: char},
		},
	})
	if err != nil {
		t.Fatal(err)
	}
	var labels []string
	for _, it := range res.Items {
		labels = append(labels, it.Label)
	}
	return labels
}

// C16, soundness and completeness in the account context: a posting line is any
// indented line (the parser, the formatter and semantic tokens treat it so), but
// completion only recognises postings indented by at least four blanks or a tab. On a
// posting indented by two blanks it offers dates: names that do not exist as accounts
// and do not match the fragment, and none of the accounts that do.
func TestDefectC16_PostingIndentedByTwoBlanksGetsDateCompletion(t *testing.T) {
	complete := "2024-01-01 Shop\n  expenses:food  10 EUR\n  assets:cash\n\n2024-01-02 Shop\n"
	if j, errs := parser.Parse(complete); len(errs) != 0 || len(j.Transactions[0].Postings) != 2 {
		t.Fatalf("two-blank indented postings are not valid for the project's parser: %v", errs)
	}
	doc := complete + "  ass" // the posting being typed
	srv := NewServer()
	uri := protocol.DocumentURI("file:///tmp/defect7/test.journal")
	srv.StoreDocument(uri, doc)

	labels := defect7Labels(t, srv, uri, 5, 5)
	if !contains7(labels, "assets:cash") {
		t.Errorf("account assets:cash exists and starts with the fragment \"ass\", but is not offered; offered: %q", labels)
	}
	for _, l := range labels {
		if !strings.Contains(strings.ToLower(l), "a") { // no subsequence match for "ass" possible
			t.Errorf("offered %q, which is neither an account nor matches the fragment \"ass\"", l)
		}
	}
}

// The same through the server's own formatter: with the supported setting
// formatting.indentSize = 2 the formatter indents postings by two blanks, after which
// account completion no longer works on any posting line of the document.
func TestDefectC16_NoAccountCompletionAfterFormattingWithIndentSize2(t *testing.T) {
	srv := NewServer()
	srv.setSettings(parseSettingsFromRaw(srv.getSettings(), map[string]interface{}{
		"formatting": map[string]interface{}{"indentSize": float64(2)},
	}))
	uri := protocol.DocumentURI("file:///tmp/defect7/fmt.journal")
	doc := "2024-01-01 Shop\n    expenses:food  10 EUR\n    assets:cash\n"
	srv.StoreDocument(uri, doc)
	edits, err := srv.Format(context.Background(), &protocol.DocumentFormattingParams{TextDocument: protocol.TextDocumentIdentifier{URI: uri}})
	if err != nil {
		t.Fatal(err)
	}
	lines := strings.Split(doc, "\n")
	for _, e := range edits { // every edit of this formatter replaces (part of) one line
		l := lines[e.Range.Start.Line]
		lines[e.Range.Start.Line] = l[:e.Range.Start.Character] + e.NewText + l[e.Range.End.Character:]
	}
	formatted := strings.Join(lines, "\n")
	if !strings.HasPrefix(lines[2], "  assets:cash") {
		t.Fatalf("expected a two-blank indent after formatting, got %q", formatted)
	}
	srv.StoreDocument(uri, formatted)

	// cursor after "  ass" on the line "  assets:cash"
	labels := defect7Labels(t, srv, uri, 2, 5)
	if !contains7(labels, "assets:cash") {
		t.Errorf("after formatting with indentSize=2, completion at `  ass|ets:cash` offers %q instead of accounts", labels)
	}
}

func contains7(list []string, s string) bool {
	for _, x := range list {
		if x == s {
			return true
		}
	}
	return false
}
