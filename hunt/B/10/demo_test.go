// Copy this file to: internal/server/defect_semantic_lowercase_commodity_test.go (package server)
package server

import (
	"context"
	"fmt"
	"strings"
	"testing"
	"unicode/utf16"

	"go.lsp.dev/protocol"

	"github.com/juev/hledger-lsp/internal/parser"
)

func defect10Tokens(t *testing.T, doc string) []string {
	t.Helper()
	srv := NewServer()
	uri := protocol.DocumentURI("file:///tmp/defect10/test.journal")
	srv.StoreDocument(uri, doc)
	res, err := srv.SemanticTokensFull(context.Background(), &protocol.SemanticTokensParams{
		TextDocument: protocol.TextDocumentIdentifier{URI: uri},
	})
	if err != nil {
		t.Fatal(err)
	}
	legend := GetSemanticTokensLegend().TokenTypes
	lines := strings.Split(doc, "\n")
	var out []string
	line, col := uint32(0), uint32(0)
	for i := 0; i+4 < len(res.Data); i += 5 {
		if res.Data[i] > 0 {
			line += res.Data[i]
			col = res.Data[i+1]
		} else {
			col += res.Data[i+1]
		}
		u := utf16.Encode([]rune(lines[line]))
		out = append(out, fmt.Sprintf("%s:%q", legend[res.Data[i+3]], string(utf16.Decode(u[col:col+res.Data[i+2]]))))
	}
	return out
}

// C17: "each covers exactly one lexeme of that kind (… an operator on the operator)".
// A commodity written as a lower-case word after the quantity is a commodity for the
// parser (also when a cost, an assertion or a comment follows), but the semantic
// tokenizer, which works on the lexer alone, emits ONE `string` token that swallows
// the commodity, the operator and the cost amount.
func TestDefectC17_LowerCaseCommodityWithCostIsOneStringToken(t *testing.T) {
	doc := "2024-01-15 work\n    assets:time  1.5 hours @ $20\n    income:work  -30 $ = -30 usd\n"

	// what the parser makes of it - the lexemes are there:
	j, errs := parser.Parse(doc)
	if len(errs) != 0 {
		t.Fatalf("journal not valid for the project's parser: %v", errs)
	}
	p := j.Transactions[0].Postings[0]
	if p.Amount.Commodity.Symbol != "hours" || p.Cost == nil || p.Cost.Amount.Commodity.Symbol != "$" {
		t.Fatalf("unexpected parse: %+v", p)
	}

	got := defect10Tokens(t, doc)
	want := []string{
		`date:"2024-01-15"`, `payee:"work"`,
		`account:"assets:time"`, `amount:"1.5"`, `commodity:"hours"`, `operator:"@"`, `commodity:"$"`, `amount:"20"`,
		`account:"income:work"`, `amount:"30"`, `commodity:"$"`, `operator:"="`, `amount:"30"`, `commodity:"usd"`,
	}
	if strings.Join(got, " ") != strings.Join(want, " ") {
		t.Errorf("semantic tokens\n  got  %v\n  want %v", got, want)
	}
}
