// Copy this file to: internal/server/defect_insert_at_origin_test.go (package server)
package server

import (
	"context"
	"encoding/json"
	"testing"

	"go.lsp.dev/protocol"
)

// The server advertises incremental text synchronisation. An incremental change that
// inserts text at the very beginning of the document (range 0:0-0:0 - the user types
// at the top of the file, or pastes a header comment) is mistaken for a full-text
// change: the whole document is replaced by the inserted text.
//
// C13: afterwards the last diagnostics published are not those of the document's
// latest content. C17: semantic tokens (full or rebuilt from deltas) are not those of
// the current text. C14: every later response is computed from a wrong document state.
func TestDefectC13_InsertionAtDocumentStartReplacesTheWholeDocument(t *testing.T) {
	ts := newTestServer()
	ctx := context.Background()
	res, err := ts.Initialize(ctx, &protocol.InitializeParams{})
	if err != nil {
		t.Fatal(err)
	}
	sync, ok := res.Capabilities.TextDocumentSync.(protocol.TextDocumentSyncOptions)
	if !ok {
		t.Fatalf("unexpected textDocumentSync capability: %#v", res.Capabilities.TextDocumentSync)
	}

	uri := protocol.DocumentURI("file:///tmp/defect11/test.journal")
	original := "2024-01-15 shop\n    expenses:food  10 EUR\n    assets:cash  -9 EUR\n" // does not balance
	diags, err := ts.openAndWait(uri, original)
	if err != nil {
		t.Fatal(err)
	}
	if len(diags) != 1 {
		t.Fatalf("expected the one 'does not balance' diagnostic, got %v", diags)
	}

	want := "; my journal\n" + original

	// exactly what an editor sends when "; my journal\n" is typed/pasted at 0:0 - in the
	// form the server asked for in its capabilities
	raw := `{"textDocument":{"uri":"file:///tmp/defect11/test.journal","version":2},
	         "contentChanges":[{"range":{"start":{"line":0,"character":0},"end":{"line":0,"character":0}},
	                            "rangeLength":0,"text":"; my journal\n"}]}`
	if sync.Change == protocol.TextDocumentSyncKindFull {
		b, _ := json.Marshal(want)
		raw = `{"textDocument":{"uri":"file:///tmp/defect11/test.journal","version":2},"contentChanges":[{"text":` + string(b) + `}]}`
	}
	var params protocol.DidChangeTextDocumentParams
	if err := json.Unmarshal([]byte(raw), &params); err != nil {
		t.Fatal(err)
	}
	if err := ts.DidChange(ctx, &params); err != nil {
		t.Fatal(err)
	}

	if got, _ := ts.GetDocument(uri); got != want {
		t.Errorf("document after inserting a line at 0:0:\n  got  %q\n  want %q", got, want)
	}

	if !ts.client.waitDiagnostics() {
		t.Fatal("no diagnostics after the change")
	}
	last := ts.client.getLastDiagnostics()
	if len(last.Diagnostics) != 1 || last.Diagnostics[0].Range.Start.Line != 1 {
		t.Errorf("the latest content still holds the unbalanced transaction (now on line 1); last published diagnostics: %v", last.Diagnostics)
	}

	tokens, err := ts.SemanticTokensFull(ctx, &protocol.SemanticTokensParams{TextDocument: protocol.TextDocumentIdentifier{URI: uri}})
	if err != nil {
		t.Fatal(err)
	}
	if len(tokens.Data)/5 < 5 {
		t.Errorf("semantic tokens for the current text: %d token(s); the text has a comment, a header and two postings", len(tokens.Data)/5)
	}
}
