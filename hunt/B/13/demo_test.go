// Copy this file to: internal/server/defect_stale_diagnostics_aba_test.go (package server); run with: go test -tags verif -run TestDefectC13_ ./internal/server/

//go:build verif

package server

import (
	"context"
	"os"
	"path/filepath"
	"sync"
	"testing"
	"time"

	"go.lsp.dev/protocol"

	"github.com/juev/hledger-lsp/internal/verifhook"
)

// C13: "diagnostics computed from a superseded version never remain the final word".
// publishDiagnostics decides whether a result is superseded by comparing TEXTS
// (current != content). When a document returns to an earlier text (undo, or
// retyping), the analysis of the earlier VERSION passes that check although it was
// computed from an older state of the workspace, and it can be published last.
//
// main.journal uses foo:bar; decl.journal (open in the editor too) declares accounts.
// Burst: main:=X (v1) | decl += "account foo:bar" | main:=Y (v2) | main:=X (v3).
// The analysis of v1 is held at the publishing point (hook "pd.publish"), the others run
// to completion, then v1 is let go.
func TestDefectC13_AnalysisOfSupersededVersionWithSameTextIsPublishedLast(t *testing.T) {
	t.Setenv("LEDGER_FILE", "")
	t.Setenv("HLEDGER_JOURNAL", "")
	dir := t.TempDir()
	declText := "account assets:cash\n"
	textX := "include decl.journal\n\n2024-01-01 x\n    foo:bar  1 EUR\n    assets:cash\n"
	textY := textX + "\n"
	mainPath, declPath := filepath.Join(dir, "main.journal"), filepath.Join(dir, "decl.journal")
	if err := os.WriteFile(mainPath, []byte(textY), 0o644); err != nil {
		t.Fatal(err)
	}
	if err := os.WriteFile(declPath, []byte(declText), 0o644); err != nil {
		t.Fatal(err)
	}
	mainURI, declURI := protocol.DocumentURI("file://"+mainPath), protocol.DocumentURI("file://"+declPath)

	// hook: count the analyses of main.journal that finished, and hold the one we are told to hold
	var mu sync.Mutex
	holdNext := false
	parked := make(chan struct{}, 1)
	release := make(chan struct{})
	done := 0
	verifhook.Set(func(point, key string) {
		if key != string(mainURI) {
			return
		}
		switch point {
		case "pd.publish":
			mu.Lock()
			hold := holdNext
			holdNext = false
			mu.Unlock()
			if hold {
				parked <- struct{}{}
				<-release
			}
		case "pd.done":
			mu.Lock()
			done++
			mu.Unlock()
		}
	})
	defer verifhook.Set(nil)
	waitDone := func(n int) {
		t.Helper()
		deadline := time.Now().Add(3 * time.Second)
		for {
			mu.Lock()
			d := done
			mu.Unlock()
			if d >= n {
				return
			}
			if time.Now().After(deadline) {
				t.Fatalf("analysis %d of main.journal did not finish", n)
			}
			time.Sleep(time.Millisecond)
		}
	}

	ts := newTestServer()
	ctx := context.Background()
	if _, err := ts.Initialize(ctx, &protocol.InitializeParams{RootURI: protocol.DocumentURI("file://" + dir)}); err != nil {
		t.Fatal(err)
	}
	if err := ts.Initialized(ctx, &protocol.InitializedParams{}); err != nil {
		t.Fatal(err)
	}
	ts.openDocument(declURI, declText)
	ts.openDocument(mainURI, textY)
	waitDone(1)

	full := func(text string) []protocol.TextDocumentContentChangeEvent {
		return []protocol.TextDocumentContentChangeEvent{{Text: text}}
	}

	// change 1: main := X. Its analysis computes "account 'foo:bar' is not declared" and is held.
	mu.Lock()
	holdNext = true
	mu.Unlock()
	ts.changeDocument(mainURI, full(textX))
	<-parked
	// change 2: decl.journal now declares foo:bar
	ts.changeDocument(declURI, full(declText+"account foo:bar\n"))
	// change 3 and 4: main := Y, main := X again; both analyses run to completion
	ts.changeDocument(mainURI, full(textY))
	waitDone(2)
	ts.changeDocument(mainURI, full(textX))
	waitDone(3)
	lastForMain := func() *protocol.PublishDiagnosticsParams {
		ts.client.mu.Lock()
		defer ts.client.mu.Unlock()
		var last *protocol.PublishDiagnosticsParams
		for i := range ts.client.diagnostics {
			if ts.client.diagnostics[i].URI == mainURI {
				last = &ts.client.diagnostics[i]
			}
		}
		return last
	}
	if l := lastForMain(); l == nil || len(l.Diagnostics) != 0 {
		t.Fatalf("precondition: the analysis of the latest version (v3) should have published no diagnostics, got %v", l)
	}

	// now the analysis of version 1 reaches the publishing point
	close(release)
	waitDone(4)

	last := lastForMain()
	if len(last.Diagnostics) != 0 {
		t.Errorf("notifications have stopped; foo:bar is declared in decl.journal, and the analysis of main.journal's latest version published no diagnostics, "+
			"but the LAST diagnostics published for main.journal are those computed for version 1: %v", last.Diagnostics)
	}
}
