// Copy this file to: internal/workspace/defect_discovery_edges_test.go (package workspace)
package workspace

import (
	"fmt"
	"os"
	"path/filepath"
	"sort"
	"testing"

	"github.com/juev/hledger-lsp/internal/include"
)

// C12: the folder has no main.journal, so the root journal is found from the include
// graph of all journal files (a.journal: nobody includes it, first in name order).
// c.journal includes d.journal; neither is reachable from the root. Updating d.journal
// (didOpen/didChange/didSave of that file, here even with unchanged text) makes it a
// member of the workspace view; a workspace initialised on the same files does not
// contain it.
func TestDefectC12_UnreachableFileBecomesMemberThroughRootDiscoveryEdges(t *testing.T) {
	t.Setenv("LEDGER_FILE", "")
	t.Setenv("HLEDGER_JOURNAL", "")
	dir := t.TempDir()
	write := func(name, content string) string {
		p := filepath.Join(dir, name)
		if err := os.WriteFile(p, []byte(content), 0o644); err != nil {
			t.Fatal(err)
		}
		return p
	}
	aPath := write("a.journal", "2024-01-01 Alpha\n    expenses:a  1 EUR\n    assets:cash\n")
	write("c.journal", "include d.journal\n")
	dText := "2024-01-01 Delta\n    expenses:d  1 EUR\n    assets:cash\n"
	dPath := write("d.journal", dText)

	ws := NewWorkspace(dir, include.NewLoader())
	if err := ws.Initialize(); err != nil {
		t.Fatal(err)
	}
	if ws.RootJournalPath() != aPath {
		t.Fatalf("root journal is %s, expected %s", ws.RootJournalPath(), aPath)
	}

	ws.UpdateFile(dPath, dText)

	rebuilt := NewWorkspace(dir, include.NewLoader())
	if err := rebuilt.Initialize(); err != nil {
		t.Fatal(err)
	}

	members := func(w *Workspace) string {
		var out []string
		for p := range w.GetResolved().Files {
			out = append(out, filepath.Base(p))
		}
		sort.Strings(out)
		return fmt.Sprint(out)
	}
	if got, want := members(ws), members(rebuilt); got != want {
		t.Errorf("included member files after the update: %s, in a rebuilt workspace: %s", got, want)
	}
	if got, want := fmt.Sprint(ws.IndexSnapshot().Payees), fmt.Sprint(rebuilt.IndexSnapshot().Payees); got != want {
		t.Errorf("payees after the update: %s, in a rebuilt workspace: %s", got, want)
	}
	if got, want := fmt.Sprint(ws.IndexSnapshot().Accounts.All), fmt.Sprint(rebuilt.IndexSnapshot().Accounts.All); got != want {
		t.Errorf("accounts after the update: %s, in a rebuilt workspace: %s", got, want)
	}
}
