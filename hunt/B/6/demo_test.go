// Copy this file to: internal/server/defect_completion_query_test.go (package server)
package server

import (
	"context"
	"strings"
	"testing"
	"unicode/utf16"

	"go.lsp.dev/protocol"
)

const defect6Journal = `2024-01-01 * Shop One
    expenses:food  10 EUR @ 2 USD
    (assets:virtual)  1 EUR
    assets:cash  -10 EUR = 5 CHF

`

// defect6Complete appends `line` (with "|" marking the cursor) to the journal above and
// returns the completion items at the cursor.
func defect6Complete(t *testing.T, fuzzy bool, lines string) []protocol.CompletionItem {
	t.Helper()
	text := defect6Journal + lines
	idx := strings.Index(text, "|")
	if idx < 0 {
		t.Fatal("no cursor mark")
	}
	doc := text[:idx] + text[idx+1:]
	before := text[:idx]
	line := strings.Count(before, "\n")
	col := len(utf16.Encode([]rune(before[strings.LastIndex(before, "\n")+1:])))

	srv := NewServer()
	s := srv.getSettings()
	s.Completion.FuzzyMatching = fuzzy
	srv.setSettings(s)
	uri := protocol.DocumentURI("file:///tmp/defect6/test.journal")
	srv.StoreDocument(uri, doc)
	res, err := srv.Completion(context.Background(), &protocol.CompletionParams{
		TextDocumentPositionParams: protocol.TextDocumentPositionParams{
			TextDocument: protocol.TextDocumentIdentifier{URI: uri},
			Position:     protocol.Position{Line: uint32(line), Character: uint32(col)},
		},
	})
	if err != nil {
		t.Fatal(err)
	}
	return res.Items
}

func defect6Expect(t *testing.T, what, lines, wantLabel, wantReplaced string) {
	t.Helper()
	for _, fuzzy := range []bool{true, false} {
		items := defect6Complete(t, fuzzy, lines)
		var found *protocol.CompletionItem
		var labels []string
		for i := range items {
			labels = append(labels, items[i].Label)
			if items[i].Label == wantLabel {
				found = &items[i]
			}
		}
		if found == nil {
			t.Errorf("%s (fuzzy=%v): %q exists and starts with the typed fragment %q, but completion offers %q",
				what, fuzzy, wantLabel, wantReplaced, labels)
			continue
		}
		if found.TextEdit != nil {
			// the edit must replace exactly the typed fragment
			text := defect6Journal + lines
			cursorLine := text[:strings.Index(text, "|")]
			cursorLine = cursorLine[strings.LastIndex(cursorLine, "\n")+1:]
			u := utf16.Encode([]rune(cursorLine))
			r := found.TextEdit.Range
			if got := string(utf16.Decode(u[r.Start.Character:r.End.Character])); got != wantReplaced {
				t.Errorf("%s (fuzzy=%v): accepting %q replaces %q, expected it to replace only the fragment %q",
					what, fuzzy, wantLabel, got, wantReplaced)
			}
		}
	}
}

// C16, completeness + replace range: a payee typed after a status mark or a code.
func TestDefectC16_PayeeAfterStatusOrCode(t *testing.T) {
	defect6Expect(t, "payee after '*'", "2024-01-02 * Sho|\n", "Shop One", "Sho")
	defect6Expect(t, "payee after '!'", "2024-01-02 ! Sho|\n", "Shop One", "Sho")
	defect6Expect(t, "payee after a code", "2024-01-02 (123) Sho|\n", "Shop One", "Sho")
	defect6Expect(t, "payee after status and code", "2024-01-02 * (123) Sho|\n", "Shop One", "Sho")
}

// C16, completeness: an account typed in a virtual posting or after a posting status.
func TestDefectC16_AccountInVirtualOrMarkedPosting(t *testing.T) {
	defect6Expect(t, "account after '('", "2024-01-02 x\n    (ass|\n", "assets:cash", "ass")
	defect6Expect(t, "account after '['", "2024-01-02 x\n    [ass|\n", "assets:cash", "ass")
	defect6Expect(t, "account after posting status", "2024-01-02 x\n    * ass|\n", "assets:cash", "ass")
	defect6Expect(t, "sub-account after '('", "2024-01-02 x\n    (assets:ca|\n", "assets:cash", "assets:ca")
}

// C16, completeness: a commodity typed in a cost or in a balance assertion.
func TestDefectC16_CommodityInCostOrAssertion(t *testing.T) {
	defect6Expect(t, "commodity of a unit cost", "2024-01-02 x\n    assets:cash  10 EUR @ 2 US|\n", "USD", "US")
	defect6Expect(t, "commodity of a total cost", "2024-01-02 x\n    assets:cash  10 EUR @@ 20 US|\n", "USD", "US")
	defect6Expect(t, "commodity of an assertion", "2024-01-02 x\n    assets:cash  10 EUR = 50 CH|\n", "CHF", "CH")
	defect6Expect(t, "commodity of an assertion without amount", "2024-01-02 x\n    assets:cash  = 50 CH|\n", "CHF", "CH")
}
