// Copy this file to: internal/server/defect_feature_switches_test.go (package server)
package server

import (
	"context"
	"testing"

	"go.lsp.dev/protocol"
)

type defect12Client struct {
	*integrationMockClient
	answer interface{}
}

func (c *defect12Client) Configuration(_ context.Context, _ *protocol.ConfigurationParams) ([]interface{}, error) {
	return []interface{}{c.answer}, nil
}

// C19: "Recognised well-typed values take effect on subsequent behaviour (… diagnostic
// categories, feature switches, include limits)" - at initialisation *or on change*.
// After a configuration change that switches every feature off, features.diagnostics
// and features.inlineCompletion are honoured; hover, completion, formatting, semantic
// tokens, folding ranges, document links and workspace symbols keep answering as before:
// these switches are only looked at once, when the capabilities are built in Initialize.
func TestDefectC19_FeatureSwitchesChangedAtRuntimeHaveNoEffect(t *testing.T) {
	srv := NewServer()
	cl := &defect12Client{integrationMockClient: newIntegrationMockClient()}
	srv.SetClient(cl)
	ctx := context.Background()
	if _, err := srv.Initialize(ctx, &protocol.InitializeParams{
		Capabilities: protocol.ClientCapabilities{Workspace: &protocol.WorkspaceClientCapabilities{Configuration: true}},
	}); err != nil {
		t.Fatal(err)
	}

	uri := protocol.DocumentURI("file:///tmp/defect12/test.journal")
	doc := "include other.journal\n\n2024-01-15 shop\n    expenses:food   10 EUR\n    assets:cash\n"
	if err := srv.DidOpen(ctx, &protocol.DidOpenTextDocumentParams{TextDocument: protocol.TextDocumentItem{URI: uri, Text: doc}}); err != nil {
		t.Fatal(err)
	}
	cl.waitDiagnostics()

	off := map[string]interface{}{}
	for _, f := range []string{"hover", "completion", "formatting", "diagnostics", "semanticTokens", "codeActions", "foldingRanges", "documentLinks", "workspaceSymbol", "inlineCompletion"} {
		off[f] = false
	}
	cl.answer = map[string]interface{}{"features": off}
	srv.refreshConfiguration(ctx) // what didChangeConfiguration runs in the background
	if f := srv.getSettings().Features; f.Hover || f.Completion || f.Formatting || f.SemanticTokens || f.FoldingRanges || f.DocumentLinks || f.WorkspaceSymbol {
		t.Fatalf("the payload was not taken over: %+v", f)
	}

	id := protocol.TextDocumentIdentifier{URI: uri}
	pos := protocol.TextDocumentPositionParams{TextDocument: id, Position: protocol.Position{Line: 3, Character: 8}}

	if h, _ := srv.Hover(ctx, &protocol.HoverParams{TextDocumentPositionParams: pos}); h != nil {
		t.Errorf("features.hover=false, but hover still answers: %q", h.Contents.Value)
	}
	if c, _ := srv.Completion(ctx, &protocol.CompletionParams{TextDocumentPositionParams: pos}); c != nil && len(c.Items) > 0 {
		t.Errorf("features.completion=false, but completion still offers %d item(s)", len(c.Items))
	}
	if e, _ := srv.Format(ctx, &protocol.DocumentFormattingParams{TextDocument: id}); len(e) > 0 {
		t.Errorf("features.formatting=false, but formatting still returns %d edit(s)", len(e))
	}
	if s, _ := srv.SemanticTokensFull(ctx, &protocol.SemanticTokensParams{TextDocument: id}); s != nil && len(s.Data) > 0 {
		t.Errorf("features.semanticTokens=false, but %d semantic token(s) are returned", len(s.Data)/5)
	}
	if f, _ := srv.FoldingRanges(ctx, &protocol.FoldingRangeParams{TextDocumentPositionParams: protocol.TextDocumentPositionParams{TextDocument: id}}); len(f) > 0 {
		t.Errorf("features.foldingRanges=false, but %d folding range(s) are returned", len(f))
	}
	if l, _ := srv.DocumentLink(ctx, &protocol.DocumentLinkParams{TextDocument: id}); len(l) > 0 {
		t.Errorf("features.documentLinks=false, but %d document link(s) are returned", len(l))
	}
	if s, _ := srv.WorkspaceSymbol(ctx, &protocol.WorkspaceSymbolParams{Query: ""}); len(s) > 0 {
		t.Errorf("features.workspaceSymbol=false, but %d workspace symbol(s) are returned", len(s))
	}
}
