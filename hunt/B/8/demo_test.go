// Copy this file to: internal/server/defect_outside_tree_test.go (package server)
package server

import (
	"context"
	"os"
	"path/filepath"
	"strings"
	"testing"

	"go.lsp.dev/protocol"
)

// The workspace folder holds main.journal (the root journal) and other.journal, which
// main.journal does not include. Requests in other.journal are answered from the
// include tree of main.journal only - the document itself is left out.
func defect8Server(t *testing.T) (*testServer, protocol.DocumentURI) {
	t.Helper()
	t.Setenv("LEDGER_FILE", "")
	t.Setenv("HLEDGER_JOURNAL", "")
	dir := t.TempDir()
	mainText := "2024-01-01 Shop\n    expenses:food  10 EUR\n    assets:cash\n"
	otherText := "2024-01-02 Landlord\n    expenses:food  5 EUR\n    expenses:rent  700 EUR\n    liabilities:card\n\n2024-01-03 Landlord\n    "
	for name, text := range map[string]string{"main.journal": mainText, "other.journal": otherText} {
		if err := os.WriteFile(filepath.Join(dir, name), []byte(text), 0o644); err != nil {
			t.Fatal(err)
		}
	}
	ts := newTestServer()
	ctx := context.Background()
	if _, err := ts.Initialize(ctx, &protocol.InitializeParams{RootURI: protocol.DocumentURI("file://" + dir)}); err != nil {
		t.Fatal(err)
	}
	if err := ts.Initialized(ctx, &protocol.InitializedParams{}); err != nil {
		t.Fatal(err)
	}
	uri := protocol.DocumentURI("file://" + filepath.Join(dir, "other.journal"))
	if _, err := ts.openAndWait(uri, otherText); err != nil {
		t.Fatal(err)
	}
	return ts, uri
}

func defect8Pos(uri protocol.DocumentURI, line, char uint32) protocol.TextDocumentPositionParams {
	return protocol.TextDocumentPositionParams{
		TextDocument: protocol.TextDocumentIdentifier{URI: uri},
		Position:     protocol.Position{Line: line, Character: char},
	}
}

// C20: hovering an account shows the sum of all amounts posted to it "in the current
// file and its include tree or workspace", and the number of such postings.
func TestDefectC20_HoverInFileOutsideTheRootTreeIgnoresTheFileItself(t *testing.T) {
	ts, uri := defect8Server(t)
	ctx := context.Background()

	// on "expenses:rent  700 EUR" (line 2): posted once, here, nowhere else
	h, err := ts.Hover(ctx, &protocol.HoverParams{TextDocumentPositionParams: defect8Pos(uri, 2, 8)})
	if err != nil || h == nil {
		t.Fatalf("no hover: %v", err)
	}
	if !strings.Contains(h.Contents.Value, "700 EUR") || !strings.Contains(h.Contents.Value, "**Postings:** 1") {
		t.Errorf("hover on the posting `expenses:rent  700 EUR` must show balance 700 EUR and 1 posting, got:\n%s", h.Contents.Value)
	}

	// on "expenses:food  5 EUR" (line 1): whatever the scope, the 5 EUR under the cursor belong to the sum
	h, err = ts.Hover(ctx, &protocol.HoverParams{TextDocumentPositionParams: defect8Pos(uri, 1, 8)})
	if err != nil || h == nil {
		t.Fatalf("no hover: %v", err)
	}
	if !strings.Contains(h.Contents.Value, "- 5 EUR") && !strings.Contains(h.Contents.Value, "- 15 EUR") {
		t.Errorf("hover on the posting `expenses:food  5 EUR` shows a sum that does not contain these 5 EUR:\n%s", h.Contents.Value)
	}

	// on the payee "Landlord" (line 0): two transactions in this file
	h, err = ts.Hover(ctx, &protocol.HoverParams{TextDocumentPositionParams: defect8Pos(uri, 0, 13)})
	if err != nil || h == nil {
		t.Fatalf("no hover: %v", err)
	}
	if !strings.Contains(h.Contents.Value, "**Transactions:** 2") {
		t.Errorf("hover on payee Landlord (2 transactions in this file) shows:\n%s", h.Contents.Value)
	}
}

// C16: completion offers "every existing name" of "the document or its workspace" that
// starts with the fragment.
func TestDefectC16_CompletionInFileOutsideTheRootTreeIgnoresTheFileItself(t *testing.T) {
	ts, uri := defect8Server(t)
	res, err := ts.Completion(context.Background(), &protocol.CompletionParams{TextDocumentPositionParams: defect8Pos(uri, 6, 4)})
	if err != nil {
		t.Fatal(err)
	}
	var labels []string
	for _, it := range res.Items {
		labels = append(labels, it.Label)
	}
	for _, want := range []string{"expenses:rent", "liabilities:card"} {
		found := false
		for _, l := range labels {
			found = found || l == want
		}
		if !found {
			t.Errorf("account %q is used in the document itself but is not offered on an empty posting line; offered: %q", want, labels)
		}
	}
}
