// Copy this file to: internal/server/defect_limits_cache_test.go (package server)
package server

import (
	"context"
	"os"
	"path/filepath"
	"strings"
	"testing"

	"go.lsp.dev/protocol"

	"github.com/juev/hledger-lsp/internal/include"
)

type defect5Client struct {
	*integrationMockClient
	answer interface{}
}

func (c *defect5Client) Configuration(_ context.Context, _ *protocol.ConfigurationParams) ([]interface{}, error) {
	return []interface{}{c.answer}, nil
}

func defect5Messages(diags []protocol.Diagnostic) []string {
	var out []string
	for _, d := range diags {
		out = append(out, d.Message)
	}
	return out
}

// C19: "include limits" configured by a configuration change must take effect on
// subsequent behaviour. Here hledger.limits.maxFileSizeBytes is lowered to 1000 after
// a.journal (which includes the 3.6 kB b.journal) has been analysed once. The next
// analysis of a.journal still includes b.journal without complaint, because the loader
// serves b.journal from its cache before it looks at the size limit. A server that gets
// the same configuration from the start reports "included file too large".
func TestDefectC19_LoweredFileSizeLimitIsNotAppliedToCachedIncludes(t *testing.T) {
	dir := t.TempDir()
	big := "2024-01-01 x\n    a:b  1 EUR\n    a:c\n" + strings.Repeat("; padding padding padding\n", 140)
	if err := os.WriteFile(filepath.Join(dir, "b.journal"), []byte(big), 0o644); err != nil {
		t.Fatal(err)
	}
	uri := protocol.DocumentURI("file://" + filepath.Join(dir, "a.journal"))
	limits := map[string]interface{}{"limits": map[string]interface{}{"maxFileSizeBytes": float64(1000)}}
	ctx := context.Background()

	// server 1: default limits first, the limit is lowered by a configuration change
	srv := NewServer()
	cl := &defect5Client{integrationMockClient: newIntegrationMockClient(), answer: limits}
	srv.SetClient(cl)
	srv.supportsConfiguration = true
	ts := &testServer{Server: srv, client: cl.integrationMockClient}
	if d, _ := ts.openAndWait(uri, "include b.journal\n"); len(d) != 0 {
		t.Fatalf("unexpected diagnostics with default limits: %v", defect5Messages(d))
	}
	srv.refreshConfiguration(ctx) // what didChangeConfiguration runs in the background
	if got := srv.getSettings().Limits.MaxFileSizeBytes; got != 1000 {
		t.Fatalf("limit not taken over: %d", got)
	}
	if err := ts.changeDocument(uri, []protocol.TextDocumentContentChangeEvent{{Text: "include b.journal\n\n"}}); err != nil {
		t.Fatal(err)
	}
	if !ts.client.waitDiagnostics() {
		t.Fatal("no diagnostics after the change")
	}
	got := defect5Messages(ts.client.getLastDiagnostics().Diagnostics)

	// server 2: the same configuration from the start, the same final text
	ref := newTestServer()
	ref.setSettings(parseSettingsFromRaw(ref.getSettings(), limits))
	d, _ := ref.openAndWait(uri, "include b.journal\n\n")
	want := defect5Messages(d)

	if strings.Join(got, "|") != strings.Join(want, "|") {
		t.Errorf("diagnostics of a.journal after lowering limits.maxFileSizeBytes to 1000:\n  got  %q\n  a server configured like that from the start publishes\n  want %q", got, want)
	}
}

// The cause, at the loader: a cache hit is returned before the size check.
func TestDefectC19_LoaderCacheHitBypassesSizeLimit(t *testing.T) {
	dir := t.TempDir()
	big := strings.Repeat("; padding padding padding\n", 140)
	if err := os.WriteFile(filepath.Join(dir, "b.journal"), []byte(big), 0o644); err != nil {
		t.Fatal(err)
	}
	mainPath := filepath.Join(dir, "main.journal")
	if err := os.WriteFile(mainPath, []byte("include b.journal\n"), 0o644); err != nil {
		t.Fatal(err)
	}
	small := include.Limits{MaxFileSizeBytes: 1000, MaxIncludeDepth: 50}

	shared := include.NewLoader()
	shared.Load(mainPath) // b.journal is cached
	shared.SetLimits(small)
	res, errs := shared.Load(mainPath)

	fresh := include.NewLoader()
	fresh.SetLimits(small)
	wantRes, wantErrs := fresh.Load(mainPath)

	if len(res.Files) != len(wantRes.Files) || len(errs) != len(wantErrs) {
		t.Errorf("shared loader after SetLimits: %d included files, errors %v; fresh loader with the same limits: %d included files, errors %v",
			len(res.Files), errs, len(wantRes.Files), wantErrs)
	}
}
