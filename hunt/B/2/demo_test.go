// Copy this file to: internal/workspace/defect_payee_templates_test.go (package workspace)
package workspace

import (
	"fmt"
	"os"
	"path/filepath"
	"testing"

	"github.com/juev/hledger-lsp/internal/include"
)

func defect2Write(t *testing.T, dir, name, content string) string {
	t.Helper()
	p := filepath.Join(dir, name)
	if err := os.WriteFile(p, []byte(content), 0o644); err != nil {
		t.Fatal(err)
	}
	return p
}

func defect2Init(t *testing.T, dir string) *Workspace {
	t.Helper()
	ws := NewWorkspace(dir, include.NewLoader())
	if err := ws.Initialize(); err != nil {
		t.Fatal(err)
	}
	return ws
}

// C12: two files use the payee "Shop" with different postings. Replacing the root
// journal's content by the very same content changes the payee's posting template in
// the workspace index; a workspace initialised on the (unchanged) files keeps the other one.
func TestDefectC12_PayeeTemplateChangesWhenAFileIsUpdatedWithTheSameContent(t *testing.T) {
	t.Setenv("LEDGER_FILE", "")
	t.Setenv("HLEDGER_JOURNAL", "")
	dir := t.TempDir()
	mainText := "include a.journal\n\n2024-01-01 Shop\n    expenses:food  10 EUR\n    assets:cash\n"
	mainPath := defect2Write(t, dir, "main.journal", mainText)
	defect2Write(t, dir, "a.journal", "2024-01-02 Shop\n    expenses:misc  5 EUR\n    assets:bank\n")

	ws := defect2Init(t, dir)
	before := fmt.Sprint(ws.IndexSnapshot().PayeeTemplates["Shop"])

	ws.UpdateFile(mainPath, mainText) // e.g. didSave, or didOpen of the root journal

	after := fmt.Sprint(ws.IndexSnapshot().PayeeTemplates["Shop"])
	rebuilt := fmt.Sprint(defect2Init(t, dir).IndexSnapshot().PayeeTemplates["Shop"])

	if after != rebuilt {
		t.Errorf("payee template of Shop\n after UpdateFile(main, same text): %s\n in a rebuilt workspace:           %s\n (before the update:               %s)", after, rebuilt, before)
	}
}

// C15 (same cause seen from the other side): with two INCLUDED files sharing the payee,
// even freshly initialised workspaces disagree with each other, because
// buildIndexFromResolvedLocked adds the files in map iteration order and the last one wins.
func TestDefectC15_FreshWorkspacesDisagreeOnPayeeTemplate(t *testing.T) {
	t.Setenv("LEDGER_FILE", "")
	t.Setenv("HLEDGER_JOURNAL", "")
	dir := t.TempDir()
	defect2Write(t, dir, "main.journal", "include a.journal\ninclude b.journal\n")
	defect2Write(t, dir, "a.journal", "2024-01-02 Shop\n    expenses:misc  5 EUR\n    assets:bank\n")
	defect2Write(t, dir, "b.journal", "2024-01-03 Shop\n    expenses:food  7 EUR\n    assets:cash\n")

	seen := map[string]int{}
	for i := 0; i < 60; i++ {
		seen[fmt.Sprint(defect2Init(t, dir).IndexSnapshot().PayeeTemplates["Shop"])]++
	}
	if len(seen) != 1 {
		t.Errorf("60 fresh workspaces on the same files produced %d different templates for Shop: %v", len(seen), seen)
	}
}
