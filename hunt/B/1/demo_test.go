// Copy this file to: internal/workspace/defect_fileorder_test.go (package workspace)
package workspace

import (
	"fmt"
	"os"
	"path/filepath"
	"testing"

	"github.com/juev/hledger-lsp/internal/include"
)

// C12: after an update that makes a file reachable, the workspace lists its files in
// a different order than a workspace initialised on the same final contents. The
// order is observable: GetCommodityFormats lets the LAST commodity directive win, so
// the incrementally maintained workspace formats EUR amounts differently from a
// rebuilt one (and so does everything else that walks AllTransactions/AllDirectives
// in order, e.g. the payee templates of inline completion).
func TestDefectC12_FileOrderAndCommodityFormatsDifferFromRebuild(t *testing.T) {
	t.Setenv("LEDGER_FILE", "")
	t.Setenv("HLEDGER_JOURNAL", "")
	dir := t.TempDir()
	write := func(name, content string) string {
		p := filepath.Join(dir, name)
		if err := os.WriteFile(p, []byte(content), 0o644); err != nil {
			t.Fatal(err)
		}
		return p
	}
	mainPath := write("main.journal", "include b.journal\n")
	write("a.journal", "commodity 1.000,00 EUR\n")
	write("b.journal", "commodity 1,000.00 EUR\n")

	ws := NewWorkspace(dir, include.NewLoader())
	if err := ws.Initialize(); err != nil {
		t.Fatal(err)
	}

	// one update: main.journal now includes a.journal BEFORE b.journal
	newMain := "include a.journal\ninclude b.journal\n"
	write("main.journal", newMain)
	ws.UpdateFile(mainPath, newMain)

	rebuilt := NewWorkspace(dir, include.NewLoader())
	if err := rebuilt.Initialize(); err != nil {
		t.Fatal(err)
	}

	order := func(w *Workspace) []string {
		var out []string
		for _, p := range w.GetResolved().FileOrder {
			out = append(out, filepath.Base(p))
		}
		return out
	}
	if got, want := fmt.Sprint(order(ws)), fmt.Sprint(order(rebuilt)); got != want {
		t.Errorf("file order after the update is %s, a rebuilt workspace has %s", got, want)
	}
	got, want := ws.GetCommodityFormats()["EUR"], rebuilt.GetCommodityFormats()["EUR"]
	if got != want {
		t.Errorf("commodity format of EUR after the update is %+v, a rebuilt workspace has %+v", got, want)
	}
}
