// Copy this file to: internal/workspace/defect_depth_demo_test.go (package workspace)
package workspace

import (
	"os"
	"path/filepath"
	"reflect"
	"sort"
	"testing"

	"github.com/juev/hledger-lsp/internal/include"
)

func demoDepthMembers(w *Workspace) []string {
	out := []string{}
	if r := w.GetResolved(); r != nil {
		for p := range r.Files {
			out = append(out, filepath.Base(p))
		}
	}
	sort.Strings(out)
	return out
}

// C12: after an update the incrementally maintained view must equal the view of a fresh
// workspace initialised on the final contents (same loader limits).
//
// main.journal includes a.journal; the include depth limit is 2, so a file included by
// a.journal is refused by the loader ("include depth limit exceeded"). When a.journal
// GAINS the line "include b.journal" through an update, the incremental refresh
// (refreshIncludeTreeLocked / addMissingReachableLocked) adds b.journal all the same.
func TestDefectDepthLimitIgnoredByIncrementalRefresh(t *testing.T) {
	t.Setenv("LEDGER_FILE", "")
	t.Setenv("HLEDGER_JOURNAL", "")
	dir := t.TempDir()
	write := func(name, content string) string {
		p := filepath.Join(dir, name)
		if err := os.WriteFile(p, []byte(content), 0o644); err != nil {
			t.Fatal(err)
		}
		return p
	}
	write("main.journal", "include a.journal\n")
	a := write("a.journal", "account assets:a\n")
	write("b.journal", "account assets:b\n\n2024-01-01 shop\n  assets:b  1 USD\n  assets:a\n")

	limits := include.Limits{MaxIncludeDepth: 2}

	loader := include.NewLoader()
	loader.SetLimits(limits)
	w := NewWorkspace(dir, loader)
	if err := w.Initialize(); err != nil {
		t.Fatal(err)
	}

	newA := "account assets:a\ninclude b.journal\n"
	if err := os.WriteFile(a, []byte(newA), 0o644); err != nil {
		t.Fatal(err)
	}
	loader.InvalidateFile(a)
	w.UpdateFile(a, newA) // what didChange + didSave do

	freshLoader := include.NewLoader()
	freshLoader.SetLimits(limits)
	fresh := NewWorkspace(dir, freshLoader)
	if err := fresh.Initialize(); err != nil {
		t.Fatal(err)
	}

	got, want := demoDepthMembers(w), demoDepthMembers(fresh)
	if !reflect.DeepEqual(got, want) {
		t.Errorf("member files after the update: incremental view %v, fresh workspace %v (b.journal lies beyond maxIncludeDepth=2)", got, want)
	}
	gotPayees, wantPayees := w.IndexSnapshot().Payees, fresh.IndexSnapshot().Payees
	if !reflect.DeepEqual(gotPayees, wantPayees) {
		t.Errorf("payees: incremental view %v, fresh workspace %v", gotPayees, wantPayees)
	}
}
