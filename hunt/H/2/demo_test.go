// Copy this file to: internal/workspace/defect_size_demo_test.go (package workspace)
package workspace

import (
	"os"
	"path/filepath"
	"reflect"
	"sort"
	"strings"
	"testing"

	"github.com/juev/hledger-lsp/internal/include"
)

func demoSizeMembers(w *Workspace) []string {
	out := []string{}
	if r := w.GetResolved(); r != nil {
		for p := range r.Files {
			out = append(out, filepath.Base(p))
		}
	}
	sort.Strings(out)
	return out
}

// C12: after an update the incrementally maintained view must equal the view of a fresh
// workspace initialised on the final contents (same loader limits).
//
// main.journal includes a.journal; the size limit is 200 bytes. a.journal is edited and
// saved with a text of more than 200 bytes. The include loader refuses such a file
// ("included file too large"), so a fresh workspace does not contain it; the workspace
// that received the update keeps it, with all the names of the oversized text.
// (Commit 95b42c8 put the size check into addMissingReachableLocked only; the file that
// is being updated itself goes through updateFileLocked, which has no such check.)
func TestDefectOversizedUpdateStaysInWorkspaceView(t *testing.T) {
	t.Setenv("LEDGER_FILE", "")
	t.Setenv("HLEDGER_JOURNAL", "")
	dir := t.TempDir()
	write := func(name, content string) string {
		p := filepath.Join(dir, name)
		if err := os.WriteFile(p, []byte(content), 0o644); err != nil {
			t.Fatal(err)
		}
		return p
	}
	write("main.journal", "include a.journal\n\n2024-01-01 baker\n  expenses:food  1 USD\n  assets:cash\n")
	a := write("a.journal", "2024-01-02 small\n  expenses:a  1 USD\n  assets:cash\n")

	limits := include.Limits{MaxFileSizeBytes: 200}

	loader := include.NewLoader()
	loader.SetLimits(limits)
	w := NewWorkspace(dir, loader)
	if err := w.Initialize(); err != nil {
		t.Fatal(err)
	}
	if got := demoSizeMembers(w); !reflect.DeepEqual(got, []string{"a.journal"}) {
		t.Fatalf("setup: members %v", got)
	}

	big := "2024-01-02 grown\n  expenses:big  1 USD\n  assets:cash\n" + strings.Repeat("; padding padding padding\n", 10)
	if len(big) <= 200 {
		t.Fatal("setup: text not over the limit")
	}
	if err := os.WriteFile(a, []byte(big), 0o644); err != nil {
		t.Fatal(err)
	}
	loader.InvalidateFile(a)
	w.UpdateFile(a, big) // what didChange + didSave do

	freshLoader := include.NewLoader()
	freshLoader.SetLimits(limits)
	fresh := NewWorkspace(dir, freshLoader)
	if err := fresh.Initialize(); err != nil {
		t.Fatal(err)
	}

	got, want := demoSizeMembers(w), demoSizeMembers(fresh)
	if !reflect.DeepEqual(got, want) {
		t.Errorf("member files after the update: incremental view %v, fresh workspace %v (a.journal is %d bytes, limit 200)", got, want, len(big))
	}
	gotPayees, wantPayees := w.IndexSnapshot().Payees, fresh.IndexSnapshot().Payees
	if !reflect.DeepEqual(gotPayees, wantPayees) {
		t.Errorf("payees: incremental view %v, fresh workspace %v", gotPayees, wantPayees)
	}
}
