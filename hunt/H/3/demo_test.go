// Copy this file to: internal/formatter/defect_blank_subdirective_demo_test.go (package formatter)
package formatter

import (
	"strings"
	"testing"

	"github.com/juev/hledger-lsp/internal/ast"
	"github.com/juev/hledger-lsp/internal/parser"
)

// C04: applying the formatting edits preserves meaning (same directives, same diagnostics).
//
// A line of nothing but blanks inside a commodity directive does NOT end the directive for
// the parser (parseSubdirectives skips it and goes on reading sub-directives), but the
// formatter trims it to an empty line, and an empty line DOES end the directive. After
// formatting, the "format" sub-directive is an orphan: the commodity loses its display
// format and a syntax error appears that was not there before.
func TestDefectBlankLineInsideCommodityDirectiveFormatting(t *testing.T) {
	src := "commodity USD\n   \n  format 1.000,00 USD\n\n2024-01-01 shop\n  expenses:food  1.000,00 USD\n  assets:cash\n"

	// (today the original parses without any error; whatever the parser makes of it,
	// formatting must not change that)
	before, errsBefore := parser.Parse(src)

	edits := FormatDocumentWithOptions(before, src, nil, Options{IndentSize: 2, AlignAmounts: false})
	lines := strings.Split(src, "\n")
	for _, e := range edits { // every edit of this document lies inside one ASCII line
		if e.Range.Start.Line != e.Range.End.Line {
			t.Fatalf("unexpected multi-line edit %+v", e)
		}
		l := lines[e.Range.Start.Line]
		lines[e.Range.Start.Line] = l[:e.Range.Start.Character] + e.NewText + l[e.Range.End.Character:]
	}
	formatted := strings.Join(lines, "\n")

	after, errsAfter := parser.Parse(formatted)
	if len(errsAfter) != len(errsBefore) {
		t.Errorf("formatting introduced syntax errors: before %v, after %v\nformatted text:\n%q", errsBefore, errsAfter, formatted)
	}
	formatOf := func(j *ast.Journal) string {
		for _, d := range j.Directives {
			if c, ok := d.(ast.CommodityDirective); ok {
				return c.Format
			}
		}
		return "<no commodity directive>"
	}
	if formatOf(before) != formatOf(after) {
		t.Errorf("commodity USD format: before formatting %q, after formatting %q", formatOf(before), formatOf(after))
	}
}
