// Copy this file to: internal/server/defect_c02_exponent_test.go (package server)
package server

import (
	"context"
	"strings"
	"testing"

	"github.com/shopspring/decimal"
	"go.lsp.dev/protocol"

	"github.com/juev/hledger-lsp/internal/parser"
)

// C02 / C03: a quantity in scientific notation whose mantissa has ONE decimal digit and
// whose exponent has ONE digit ("1.5E3", "6.5e2", "2,5E1", "50.3E0") is read ten times too
// large: the decimal mark is dropped as if it were a digit group mark.

func diagnosticsOf(t *testing.T, text string) []protocol.Diagnostic {
	t.Helper()
	srv := NewServer()
	client := &mockClient{}
	srv.SetClient(client)
	uri := protocol.DocumentURI("file:///tmp/c02.journal")
	srv.StoreDocument(uri, text)
	srv.publishDiagnostics(context.Background(), uri, text)
	published := client.getDiagnostics()
	if len(published) == 0 {
		t.Fatal("no diagnostics published")
	}
	return published[len(published)-1].Diagnostics
}

func TestDefectC02_BalancedTransactionWithExponentIsReportedUnbalanced(t *testing.T) {
	// 1.5E3 = 1500: the transaction balances exactly.
	text := "2024-01-15 wire\n" +
		"    assets:bank      1.5E3 EUR\n" +
		"    income:salary    -1500 EUR\n"
	for _, d := range diagnosticsOf(t, text) {
		if d.Code == "UNBALANCED" || strings.Contains(d.Message, "does not balance") {
			t.Errorf("balanced transaction (1.5E3 EUR - 1500 EUR = 0) gets: %s", d.Message)
		}
	}
}

func TestDefectC02_UnbalancedTransactionWithExponentIsAccepted(t *testing.T) {
	// 2,5E1 = 25, so this one is off by 225 EUR - and gets no diagnostic at all.
	text := "2024-01-15 wire\n" +
		"    assets:bank      2,5E1 EUR\n" +
		"    income:salary    -250 EUR\n"
	found := false
	for _, d := range diagnosticsOf(t, text) {
		if d.Code == "UNBALANCED" {
			found = true
			if !strings.Contains(d.Message, "225") {
				t.Errorf("residual should be 225 EUR, message says: %s", d.Message)
			}
		}
	}
	if !found {
		t.Errorf("transaction 2,5E1 EUR - 250 EUR is off by 225 EUR but no UNBALANCED diagnostic is published")
	}
}

func TestDefectC03_QuantityWithExponent(t *testing.T) {
	for _, tc := range []struct{ written, want string }{
		{"1.5E3", "1500"},
		{"6.5e2", "650"},
		{"2,5E1", "25"},
		{"50.3E0", "50.3"},
		{"1.5E+3", "1500"}, // control: four characters after the mark, read correctly
		{"1.25E3", "1250"}, // control
		{"15E2", "1500"},   // control
	} {
		journal, errs := parser.Parse("2024-01-15 x\n    a:b  " + tc.written + " EUR\n    c:d\n")
		if len(errs) > 0 {
			t.Errorf("%s: unexpected syntax errors %v", tc.written, errs)
			continue
		}
		got := journal.Transactions[0].Postings[0].Amount.Quantity
		if want := decimal.RequireFromString(tc.want); !got.Equal(want) {
			t.Errorf("quantity written %q: parsed as %s, want %s", tc.written, got, want)
		}
	}
}
