// Copy this file to: internal/parser/defect_c06_quadratic_line_test.go (package parser)
package parser

import (
	"strings"
	"testing"
	"time"
)

// C06: tokenising one long line of short upper-case words takes time quadratic in its
// length. A 64 KiB document (the bound of the property) needs several seconds for ONE
// parse, and every request (hover, completion, symbols, folding, formatting, semantic tokens,
// diagnostics ...) parses the document at least once.

func parseTime(src string) time.Duration {
	best := time.Duration(1<<62 - 1)
	for i := 0; i < 3; i++ {
		start := time.Now()
		Parse(src)
		if d := time.Since(start); d < best {
			best = d
		}
	}
	return best
}

func longLine(words int) string {
	return "2024-01-15 x\n    a:b  " + strings.Repeat("A ", words) + "\n"
}

func TestDefectC06_ParseTimeIsQuadraticInLineLength(t *testing.T) {
	small := parseTime(longLine(4000)) //  8 KiB
	large := parseTime(longLine(16000)) // 32 KiB, four times the size
	ratio := float64(large) / float64(small)
	t.Logf("8 KiB: %v   32 KiB: %v   ratio %.1f (linear: about 4, quadratic: about 16)", small, large, ratio)
	if ratio > 8 {
		t.Errorf("parse time grows faster than the document: 4x the size costs %.1fx the time", ratio)
	}
}

func TestDefectC06_SixtyFourKiBDocumentTakesSeconds(t *testing.T) {
	src := longLine(32000) // 64 KiB
	start := time.Now()
	Parse(src)
	d := time.Since(start)
	t.Logf("one parse of a %d byte document: %v", len(src), d)
	if d > time.Second {
		t.Errorf("one parse of a %d byte document takes %v; an ordinary journal of that size parses in a few milliseconds", len(src), d)
	}
}

// Control: the same amount of ordinary journal text.
func TestDefectC06_Control(t *testing.T) {
	src := strings.Repeat("2024-01-15 * shop | note ; t:v\n    expenses:food  $50.00\n    assets:cash\n\n", 900) // 64 KiB
	start := time.Now()
	Parse(src)
	if d := time.Since(start); d > time.Second {
		t.Errorf("control took %v", d)
	}
}
