// Copy this file to: internal/include/defect_c10_depth_limit_order_test.go (package include)
package include

import (
	"os"
	"path/filepath"
	"sort"
	"strings"
	"testing"
)

// C10: with a depth limit, which files are loaded depends on the ORDER of the include
// directives, not on the include graph. A file that is first reached at the deepest allowed
// level (so that its own includes are refused as "too deep") is marked as done; when it is
// reached again along a shorter path, on which its includes are within the limit, it is
// skipped. The files behind it are lost although they are reachable within the limit, and a
// "depth limit exceeded" error is reported that the shorter path does not justify.
//
//	a -> b -> c -> d        limit 3:  a>b>c>d is too deep (4 files),
//	a ------> c -> d                  a>c>d is fine (3 files)

func loadGraph(t *testing.T, aText string) (files []string, errs []LoadError) {
	t.Helper()
	dir := t.TempDir()
	for name, text := range map[string]string{
		"a.journal": aText,
		"b.journal": "include c.journal\n",
		"c.journal": "include d.journal\n",
		"d.journal": "2024-01-15 in d\n    x:y  1 EUR\n    z:w\n",
	} {
		if err := os.WriteFile(filepath.Join(dir, name), []byte(text), 0o644); err != nil {
			t.Fatal(err)
		}
	}
	l := NewLoader()
	l.SetLimits(Limits{MaxIncludeDepth: 3})
	res, errs := l.Load(filepath.Join(dir, "a.journal"))
	if res == nil {
		t.Fatal("no result")
	}
	for p := range res.Files {
		files = append(files, filepath.Base(p))
	}
	sort.Strings(files)
	return files, errs
}

func TestDefectC10_DepthLimitResultDependsOnDirectiveOrder(t *testing.T) {
	shortFirst, errsShortFirst := loadGraph(t, "include c.journal\ninclude b.journal\n")
	longFirst, errsLongFirst := loadGraph(t, "include b.journal\ninclude c.journal\n")

	// Control: with the short path first everything is loaded and nothing is reported.
	if got := strings.Join(shortFirst, " "); got != "b.journal c.journal d.journal" || len(errsShortFirst) != 0 {
		t.Fatalf("control (c before b): files %q errors %v", got, errsShortFirst)
	}

	// Same graph, same limit, the two directives of a.journal swapped.
	if got, want := strings.Join(longFirst, " "), strings.Join(shortFirst, " "); got != want {
		t.Errorf("same include graph, directives of a.journal swapped:\n loaded %q\n want   %q (d.journal is reachable as a > c > d, 3 files deep)", got, want)
	}
	for _, e := range errsLongFirst {
		t.Errorf("unexpected load error (d.journal is within the limit along a > c > d): %s", e.Message)
	}
}
