// Copy this file to: internal/formatter/defect_c05_crlf_edit_range_test.go (package formatter)
package formatter

import (
	"strings"
	"testing"
	"unicode/utf16"

	"github.com/juev/hledger-lsp/internal/parser"
)

// C05: in a document with CRLF line ends every posting edit ends one character past the end
// of its line: the CR of the line terminator is counted as a character of the line.

func TestDefectC05_PostingEditEndsPastTheLineInCRLFDocument(t *testing.T) {
	src := "2024-01-15 grocery\r\n" +
		"  expenses:food  $50.00\r\n" +
		"  assets:cash\r\n"
	journal, errs := parser.Parse(src)
	if len(errs) > 0 {
		t.Fatalf("valid journal: %v", errs)
	}
	// what a client sees: lines without their terminators
	var lines []string
	for _, l := range strings.Split(src, "\n") {
		lines = append(lines, strings.TrimSuffix(l, "\r"))
	}
	edits := FormatDocument(journal, src)
	if len(edits) == 0 {
		t.Fatal("expected edits")
	}
	for _, e := range edits {
		for _, p := range []struct {
			name       string
			line, char uint32
		}{{"start", e.Range.Start.Line, e.Range.Start.Character}, {"end", e.Range.End.Line, e.Range.End.Character}} {
			if int(p.line) >= len(lines) {
				t.Errorf("edit %v: %s line outside the document", e.Range, p.name)
				continue
			}
			if n := len(utf16.Encode([]rune(lines[p.line]))); int(p.char) > n {
				t.Errorf("edit %v (new text %q): %s character %d is past the end of line %d, which has %d characters (%q)",
					e.Range, e.NewText, p.name, p.char, p.line, n, lines[p.line])
			}
		}
	}
}
