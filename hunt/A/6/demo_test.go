// Copy this file to: internal/server/defect_c09_outside_root_tree_test.go (package server)
package server

import (
	"context"
	"os"
	"path/filepath"
	"testing"

	"go.lsp.dev/protocol"
	"go.lsp.dev/uri"
)

// C09: with a workspace root, a request made from a file that is not in the include tree of
// the journal the workspace picked as "root" is answered from that other tree only: the
// occurrences in the requesting file itself - including the one under the cursor - are missing,
// and rename edits every file except the one the user is in.

func c09Workspace(t *testing.T, files map[string]string) (*Server, string) {
	t.Helper()
	t.Setenv("LEDGER_FILE", "")
	t.Setenv("HLEDGER_JOURNAL", "")
	dir := t.TempDir()
	for name, text := range files {
		if err := os.WriteFile(filepath.Join(dir, name), []byte(text), 0o644); err != nil {
			t.Fatal(err)
		}
	}
	srv := NewServer()
	if _, err := srv.Initialize(context.Background(), &protocol.InitializeParams{RootURI: uri.File(dir)}); err != nil {
		t.Fatal(err)
	}
	if err := srv.Workspace().Initialize(); err != nil {
		t.Fatal(err)
	}
	return srv, dir
}

func open(srv *Server, path, text string) protocol.DocumentURI {
	u := uri.File(path)
	_ = srv.DidOpen(context.Background(), &protocol.DidOpenTextDocumentParams{
		TextDocument: protocol.TextDocumentItem{URI: u, Version: 1, Text: text},
	})
	return u
}

func filesOf(locs []protocol.Location) map[string]int {
	out := map[string]int{}
	for _, l := range locs {
		out[filepath.Base(uri.URI(l.URI).Filename())]++
	}
	return out
}

// Three files connected by include directives: a -> c <- b. The workspace takes a.journal
// (first file nobody includes) as its root; b.journal is opened and asked.
func TestDefectC09_ReferencesFromSecondTopLevelFile(t *testing.T) {
	files := map[string]string{
		"a.journal": "include c.journal\n2024-01-01 in a\n  x:y  1 EUR\n  z:w\n",
		"b.journal": "include c.journal\n2024-01-02 in b\n  x:y  2 EUR\n  z:w\n",
		"c.journal": "2024-01-03 in c\n  x:y  3 EUR\n  z:w\n",
	}
	srv, dir := c09Workspace(t, files)
	b := open(srv, filepath.Join(dir, "b.journal"), files["b.journal"])

	pos := protocol.TextDocumentPositionParams{
		TextDocument: protocol.TextDocumentIdentifier{URI: b},
		Position:     protocol.Position{Line: 2, Character: 3}, // on "x:y" in b.journal
	}
	locs, err := srv.References(context.Background(), &protocol.ReferenceParams{
		TextDocumentPositionParams: pos,
		Context:                    protocol.ReferenceContext{IncludeDeclaration: true},
	})
	if err != nil {
		t.Fatal(err)
	}
	got := filesOf(locs)
	if got["b.journal"] != 1 {
		t.Errorf("references asked on x:y in b.journal do not contain that very occurrence: %v", got)
	}
	if got["c.journal"] != 1 {
		t.Errorf("references must contain the occurrence in the included c.journal: %v", got)
	}

	edit, err := srv.Rename(context.Background(), &protocol.RenameParams{TextDocumentPositionParams: pos, NewName: "x:renamed"})
	if err != nil || edit == nil {
		t.Fatalf("rename: %v %v", edit, err)
	}
	if len(edit.Changes[b]) != 1 {
		t.Errorf("rename issued from b.journal does not edit b.journal (%d edits there); it edits: %v",
			len(edit.Changes[b]), keys(edit.Changes))
	}
}

// Two files are enough when the included one happens to be called main.journal: the workspace
// prefers that name as root although all.journal includes it.
func TestDefectC09_ReferencesFromTheFileThatIncludesMainJournal(t *testing.T) {
	files := map[string]string{
		"all.journal":  "include main.journal\n2024-01-02 in all\n  x:y  2 EUR\n  z:w\n",
		"main.journal": "2024-01-03 in main\n  x:y  3 EUR\n  z:w\n",
	}
	srv, dir := c09Workspace(t, files)
	all := open(srv, filepath.Join(dir, "all.journal"), files["all.journal"])
	locs, _ := srv.References(context.Background(), &protocol.ReferenceParams{
		TextDocumentPositionParams: protocol.TextDocumentPositionParams{
			TextDocument: protocol.TextDocumentIdentifier{URI: all},
			Position:     protocol.Position{Line: 2, Character: 3},
		},
		Context: protocol.ReferenceContext{IncludeDeclaration: true},
	})
	got := filesOf(locs)
	if got["all.journal"] != 1 || got["main.journal"] != 1 {
		t.Errorf("want 1 occurrence in all.journal and 1 in main.journal, got %v", got)
	}
}

func keys(m map[protocol.DocumentURI][]protocol.TextEdit) []string {
	var out []string
	for k := range m {
		out = append(out, filepath.Base(uri.URI(k).Filename()))
	}
	return out
}
