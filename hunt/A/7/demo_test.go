// Copy this file to: internal/server/defect_c10_nested_include_error_test.go (package server)
package server

import (
	"context"
	"os"
	"path/filepath"
	"strings"
	"testing"

	"go.lsp.dev/protocol"
	"go.lsp.dev/uri"
)

// C10 / C08: an include problem (missing file, cycle, too deep, too large) found in an
// INCLUDED file is published as a diagnostic of the ROOT document, at the line/column the
// offending directive has in the included file. In the root document that position is
// either outside the text or on an unrelated line.

func publishedFor(t *testing.T, rootText string, others map[string]string) (string, []protocol.Diagnostic) {
	t.Helper()
	dir := t.TempDir()
	for name, text := range others {
		if err := os.WriteFile(filepath.Join(dir, name), []byte(text), 0o644); err != nil {
			t.Fatal(err)
		}
	}
	root := filepath.Join(dir, "root.journal")
	if err := os.WriteFile(root, []byte(rootText), 0o644); err != nil {
		t.Fatal(err)
	}
	srv := NewServer()
	client := &mockClient{}
	srv.SetClient(client)
	u := uri.File(root)
	srv.StoreDocument(u, rootText)
	srv.publishDiagnostics(context.Background(), u, rootText)
	all := client.getDiagnostics()
	if len(all) == 0 {
		t.Fatal("nothing published")
	}
	last := all[len(all)-1]
	if last.URI != u {
		t.Fatalf("published for %s", last.URI)
	}
	return dir, last.Diagnostics
}

func TestDefectC10_NestedIncludeErrorLandsOutsideTheRootDocument(t *testing.T) {
	rootText := "include b.journal\n" // the document has lines 0 and 1 (empty)
	_, diags := publishedFor(t, rootText, map[string]string{
		"b.journal": "; 1\n; 2\n; 3\n; 4\n; 5\ninclude missing.journal\n", // directive on line 5
	})
	lines := strings.Split(rootText, "\n")
	for _, d := range diags {
		if int(d.Range.Start.Line) >= len(lines) || int(d.Range.End.Line) >= len(lines) {
			t.Errorf("diagnostic %q has range %v, but root.journal has only %d lines",
				d.Message, d.Range, len(lines))
			continue
		}
		if !strings.HasPrefix(lines[d.Range.Start.Line], "include") {
			t.Errorf("diagnostic %q is not on an include directive of root.journal: line %d is %q",
				d.Message, d.Range.Start.Line, lines[d.Range.Start.Line])
		}
	}
}

func TestDefectC10_NestedIncludeErrorLandsOnAnUnrelatedLine(t *testing.T) {
	rootText := "include b.journal\n" +
		"\n" +
		"2024-01-15 groceries\n" + // line 2: this is where the diagnostic ends up
		"    expenses:food  $50\n" +
		"    assets:cash\n"
	_, diags := publishedFor(t, rootText, map[string]string{
		"b.journal": "; b\n\ninclude b.journal\n", // b includes itself: a cycle, directive on line 2
	})
	lines := strings.Split(rootText, "\n")
	found := false
	for _, d := range diags {
		if !strings.Contains(d.Message, "cycle") {
			continue
		}
		found = true
		if !strings.HasPrefix(lines[d.Range.Start.Line], "include") {
			t.Errorf("cycle diagnostic %q is attached to line %d of root.journal, which is %q - the directive that closes the cycle is in b.journal",
				d.Message, d.Range.Start.Line, lines[d.Range.Start.Line])
		}
		if got := int(d.Range.End.Character); got > len(lines[d.Range.End.Line]) {
			t.Errorf("range %v ends past the end of line %q", d.Range, lines[d.Range.End.Line])
		}
	}
	if !found {
		t.Log("no cycle diagnostic published for root.journal (acceptable)")
	}
}
