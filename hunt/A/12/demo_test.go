// Copy this file to: internal/parser/defect_c03_hash_star_comment_test.go (package parser)
package parser

import "testing"

// C03: top-level comment lines that begin with '#' or '*' (docs/hledger.md, "Line Comments")
// are reported as syntax errors.

func TestDefectC03_HashAndStarCommentLines(t *testing.T) {
	src := "# hash comment (entire line)\n" +
		"* org-mode heading\n" +
		"; semicolon comment\n" +
		"2024-01-15 grocery\n" +
		"    expenses:food  $50.00\n" +
		"    assets:cash\n"
	journal, errs := Parse(src)
	for _, e := range errs {
		t.Errorf("valid journal, unexpected syntax error: %v", e)
	}
	if len(journal.Transactions) != 1 || len(journal.Transactions[0].Postings) != 2 {
		t.Errorf("the transaction must be unaffected")
	}
}
