// Copy this file to: internal/parser/defect_c03_tab_separator_test.go (package parser)
package parser

import (
	"testing"

	"github.com/shopspring/decimal"
)

// C03: a tab is a legal separator on a posting line (docs/hledger.md of this project:
// "Account-Amount separator: At least 2 spaces OR 1 tab required"). The lexer ends an
// account name at a tab but never skips the tab, so everything after it becomes one
// text token: the journal gets syntax errors and the postings are lost.

func TestDefectC03_TabBetweenAccountAndAmount(t *testing.T) {
	src := "2024-01-15 grocery\n" +
		"    expenses:food\t$50.00\n" +
		"    assets:cash\n"
	journal, errs := Parse(src)
	for _, e := range errs {
		t.Errorf("valid journal, unexpected syntax error: %v", e)
	}
	if len(journal.Transactions) != 1 {
		t.Fatalf("want 1 transaction, got %d", len(journal.Transactions))
	}
	tx := journal.Transactions[0]
	if len(tx.Postings) != 2 {
		t.Fatalf("want 2 postings, got %d", len(tx.Postings))
	}
	p := tx.Postings[0]
	if p.Account.Name != "expenses:food" {
		t.Errorf("account: got %q", p.Account.Name)
	}
	if p.Amount == nil {
		t.Fatalf("posting 'expenses:food<TAB>$50.00' has no amount")
	}
	if !p.Amount.Quantity.Equal(decimal.RequireFromString("50")) || p.Amount.Commodity.Symbol != "$" {
		t.Errorf("amount: got %s %q, want 50 \"$\"", p.Amount.Quantity, p.Amount.Commodity.Symbol)
	}
}

func TestDefectC03_TabInOtherPlacesOfAPostingLine(t *testing.T) {
	for name, line := range map[string]string{
		"tab before comment":   "    expenses:food  50 EUR\t; lunch",
		"tab before cost":      "    expenses:food  50 EUR\t@ 2 USD",
		"tab before assertion": "    expenses:food  50 EUR\t= 50 EUR",
		"tabs and blanks":      "    expenses:food \t 50 EUR",
	} {
		src := "2024-01-15 grocery\n" + line + "\n    assets:cash\n"
		journal, errs := Parse(src)
		if len(errs) > 0 {
			t.Errorf("%s: unexpected syntax errors: %v", name, errs)
		}
		if len(journal.Transactions) != 1 || len(journal.Transactions[0].Postings) != 2 {
			t.Errorf("%s: postings lost (want 1 transaction with 2 postings)", name)
			continue
		}
		if a := journal.Transactions[0].Postings[0].Amount; a == nil || a.Commodity.Symbol != "EUR" {
			t.Errorf("%s: amount of the first posting not read", name)
		}
	}
}

// Control: a tab as indentation is already understood.
func TestDefectC03_Control_TabIndent(t *testing.T) {
	_, errs := Parse("2024-01-15 grocery\n\texpenses:food  $50.00\n\tassets:cash\n")
	if len(errs) > 0 {
		t.Errorf("unexpected: %v", errs)
	}
}
