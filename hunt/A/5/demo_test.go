// Copy this file to: internal/server/defect_c09_commodity_occurrences_test.go (package server)
package server

import (
	"context"
	"sort"
	"strings"
	"testing"

	"go.lsp.dev/protocol"

	"github.com/juev/hledger-lsp/internal/lsputil"
	"github.com/juev/hledger-lsp/internal/parser"
)

// C09: references / rename of a commodity do not see its occurrences in P directives
// (neither the priced commodity nor the commodity of the price), in D directives and in the
// format subdirective of a commodity directive. After "rename EUR -> EURO" the journal still
// says EUR in four places, and the commodity directive contradicts itself.

const c09Journal = "commodity EUR\n" + // 0  EUR at 10-13  (found)
	"  format 1.000,00 EUR\n" + //          1  EUR at 18-21  (missed)
	"D 1.000,00 EUR\n" + //                 2  EUR at 11-14  (missed)
	"P 2024-01-01 EUR 1.10 USD\n" + //      3  EUR at 13-16  (missed)
	"P 2024-01-02 USD 0.90 EUR\n" + //      4  EUR at 22-25  (missed)
	"2024-01-15 x\n" + //                   5
	"    a:b  5 EUR @ 2 USD\n" + //         6  EUR at 11-14  (found)
	"    c:d  -10 USD = 7 EUR\n" //         7  EUR at 21-24  (found)

func c09Server(t *testing.T) (*Server, protocol.DocumentURI) {
	t.Helper()
	if _, errs := parser.Parse(c09Journal); len(errs) > 0 {
		t.Fatalf("the journal must be valid: %v", errs)
	}
	srv := NewServer()
	uri := protocol.DocumentURI("file:///nonexistent-c09/main.journal")
	srv.StoreDocument(uri, c09Journal)
	return srv, uri
}

func TestDefectC09_ReferencesOfCommodityMissDirectives(t *testing.T) {
	srv, uri := c09Server(t)
	locs, err := srv.References(context.Background(), &protocol.ReferenceParams{
		TextDocumentPositionParams: protocol.TextDocumentPositionParams{
			TextDocument: protocol.TextDocumentIdentifier{URI: uri},
			Position:     protocol.Position{Line: 6, Character: 12}, // on EUR of "5 EUR"
		},
		Context: protocol.ReferenceContext{IncludeDeclaration: true},
	})
	if err != nil {
		t.Fatal(err)
	}
	got := map[[2]uint32]bool{}
	for _, l := range locs {
		got[[2]uint32{l.Range.Start.Line, l.Range.Start.Character}] = true
	}
	// every place where the commodity EUR is written
	for _, want := range [][2]uint32{{0, 10}, {1, 18}, {2, 11}, {3, 13}, {4, 22}, {6, 11}, {7, 21}} {
		if !got[want] {
			line := strings.Split(c09Journal, "\n")[want[0]]
			t.Errorf("occurrence of EUR at %d:%d is not reported (line %q)", want[0], want[1], line)
		}
	}
}

func TestDefectC09_RenameOfCommodityLeavesOldNameBehind(t *testing.T) {
	srv, uri := c09Server(t)
	edit, err := srv.Rename(context.Background(), &protocol.RenameParams{
		TextDocumentPositionParams: protocol.TextDocumentPositionParams{
			TextDocument: protocol.TextDocumentIdentifier{URI: uri},
			Position:     protocol.Position{Line: 6, Character: 12},
		},
		NewName: "EURO",
	})
	if err != nil || edit == nil {
		t.Fatalf("rename failed: %v %v", edit, err)
	}
	edits := edit.Changes[uri]
	sort.Slice(edits, func(i, j int) bool {
		a, b := edits[i].Range.Start, edits[j].Range.Start
		if a.Line != b.Line {
			return a.Line > b.Line
		}
		return a.Character > b.Character
	})
	text := c09Journal
	for _, e := range edits {
		text = lsputil.NewPositionMapper(text).ApplyChange(e.Range, e.NewText)
	}
	for i, line := range strings.Split(text, "\n") {
		for _, word := range strings.Fields(line) {
			if word == "EUR" {
				t.Errorf("after renaming EUR to EURO, line %d still names the old commodity: %q", i, line)
			}
		}
	}
}
