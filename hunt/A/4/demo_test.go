// Copy this file to: internal/formatter/defect_c04_quoted_commodity_test.go (package formatter)
package formatter

import (
	"sort"
	"testing"

	"go.lsp.dev/protocol"

	"github.com/juev/hledger-lsp/internal/lsputil"
	"github.com/juev/hledger-lsp/internal/parser"
)

// C04 / C05: the formatter writes a quoted commodity WITHOUT its quotes whenever the symbol
// consists of letters or of one currency sign. Whether the bare symbol can be read back is
// decided by the lexer, and the lexer is much stricter:
//   - on the LEFT of the number it reads only an all-upper-case ASCII word or one of $ € £ ¥ ₽ ₴,
//   - on the RIGHT only letters/digits words or one of those six signs.
// So `"eur" 5`, `"Chf" 5`, `"руб" 5`, `5 "₹"`, `"₹" 5`, `5 "¢"` ... are valid before formatting
// and syntax errors after it.

func applyEditsC04(text string, edits []protocol.TextEdit) string {
	sort.SliceStable(edits, func(i, j int) bool {
		a, b := edits[i].Range.Start, edits[j].Range.Start
		if a.Line != b.Line {
			return a.Line > b.Line
		}
		return a.Character > b.Character
	})
	for _, e := range edits {
		text = lsputil.NewPositionMapper(text).ApplyChange(e.Range, e.NewText)
	}
	return text
}

func TestDefectC04_FormattingUnquotesCommoditiesThatNeedTheirQuotes(t *testing.T) {
	for _, amount := range []string{
		`"eur" 5`,  // lower-case word on the left
		`"Chf" 5`,  // mixed case on the left
		`"руб" 5`,  // non-ASCII letters on the left
		`-"eur" 5`, // with a sign
		`5 "₹"`,    // a currency sign the lexer does not know, on the right
		`"₹" 5`,    // ... and on the left
		`5 "¢"`,
	} {
		src := "2024-01-15 x\n    a:b  " + amount + "\n    c:d\n"

		before, errs := parser.Parse(src)
		if len(errs) > 0 {
			t.Fatalf("%s: the input must be valid, got %v", amount, errs)
		}
		want := before.Transactions[0].Postings[0].Amount
		if want == nil {
			t.Fatalf("%s: the input must have an amount", amount)
		}

		out := applyEditsC04(src, FormatDocument(before, src))

		after, errs := parser.Parse(out)
		if len(errs) > 0 {
			t.Errorf("amount %s: formatting turned a valid journal into an invalid one\n formatted: %q\n errors: %v", amount, out, errs)
			continue
		}
		if len(after.Transactions) != 1 || len(after.Transactions[0].Postings) != 2 {
			t.Errorf("amount %s: postings lost after formatting: %q", amount, out)
			continue
		}
		got := after.Transactions[0].Postings[0].Amount
		if got == nil || got.Commodity.Symbol != want.Commodity.Symbol || !got.Quantity.Equal(want.Quantity) {
			t.Errorf("amount %s: meaning changed by formatting: %q", amount, out)
		}
	}
}

// Control: where the bare symbol is readable, dropping the quotes is fine.
func TestDefectC04_Control(t *testing.T) {
	for _, amount := range []string{`"EUR" 5`, `5 "eur"`, `5 "руб"`, `"$" 5`, `5 "A B"`, `"A B" 5`} {
		src := "2024-01-15 x\n    a:b  " + amount + "\n    c:d\n"
		j, _ := parser.Parse(src)
		out := applyEditsC04(src, FormatDocument(j, src))
		if _, errs := parser.Parse(out); len(errs) > 0 {
			t.Errorf("control %s: %q %v", amount, out, errs)
		}
	}
}
