// Copy this file to: internal/server/defect_c01_insert_at_origin_test.go (package server)
package server

import (
	"context"
	"encoding/json"
	"testing"

	"go.lsp.dev/protocol"
)

// C01: a ranged change whose range is the EMPTY range 0:0-0:0 is an insertion at
// the very beginning of the document (what every editor sends when the user types
// at the top of the file, pastes a header, or toggles a comment on line 1).
// The server takes it for a range-less "full text" change and throws the whole
// document away.
func TestDefectC01_InsertionAtOriginIsNotAFullReplacement(t *testing.T) {
	const original = "2024-01-15 grocery\n    expenses:food  $50\n    assets:cash\n"

	// The notification exactly as an LSP client puts it on the wire.
	wire := `{
	  "textDocument": {"uri": "file:///tmp/c01.journal", "version": 2},
	  "contentChanges": [
	    {"range": {"start": {"line": 0, "character": 0}, "end": {"line": 0, "character": 0}},
	     "text": "; my journal\n"}
	  ]
	}`
	var params protocol.DidChangeTextDocumentParams
	if err := json.Unmarshal([]byte(wire), &params); err != nil {
		t.Fatal(err)
	}

	srv := NewServer()
	uri := protocol.DocumentURI("file:///tmp/c01.journal")
	if err := srv.DidOpen(context.Background(), &protocol.DidOpenTextDocumentParams{
		TextDocument: protocol.TextDocumentItem{URI: uri, Version: 1, Text: original},
	}); err != nil {
		t.Fatal(err)
	}
	if err := srv.DidChange(context.Background(), &params); err != nil {
		t.Fatal(err)
	}

	got, _ := srv.GetDocument(uri)
	want := "; my journal\n" + original // what the client's buffer holds now
	if got != want {
		t.Errorf("server mirror differs from the client buffer after an insertion at 0:0\n got: %q\nwant: %q", got, want)
	}

	// ... and every feature now answers from the wrong text: the transaction is gone.
	syms, _ := srv.DocumentSymbol(context.Background(), &protocol.DocumentSymbolParams{
		TextDocument: protocol.TextDocumentIdentifier{URI: uri},
	})
	if len(syms) != 1 {
		t.Errorf("document symbols: want the 1 transaction of the document, got %d symbols", len(syms))
	}
}

// Same shape inside a batch: the second change of one notification is an insertion
// at 0:0 and wipes out the effect of the first.
func TestDefectC01_InsertionAtOriginInsideBatch(t *testing.T) {
	srv := NewServer()
	uri := protocol.DocumentURI("file:///tmp/c01b.journal")
	_ = srv.DidOpen(context.Background(), &protocol.DidOpenTextDocumentParams{
		TextDocument: protocol.TextDocumentItem{URI: uri, Version: 1, Text: "abc\n"},
	})
	_ = srv.DidChange(context.Background(), &protocol.DidChangeTextDocumentParams{
		TextDocument: protocol.VersionedTextDocumentIdentifier{
			TextDocumentIdentifier: protocol.TextDocumentIdentifier{URI: uri}, Version: 2,
		},
		ContentChanges: []protocol.TextDocumentContentChangeEvent{
			{Range: protocol.Range{Start: protocol.Position{Line: 0, Character: 3}, End: protocol.Position{Line: 0, Character: 3}}, Text: "d"},
			{Range: protocol.Range{}, Text: "X"}, // insert "X" at 0:0
		},
	})
	got, _ := srv.GetDocument(uri)
	if want := "Xabcd\n"; got != want {
		t.Errorf("after [insert d at 0:3, insert X at 0:0]: got %q, want %q", got, want)
	}
}
