// Copy this file to: internal/parser/defect_c03_digit_account_test.go (package parser)
package parser

import "testing"

// C03: an account name whose first character is a digit ("1000:cash" - numbered charts of
// accounts -, "401k:vanguard", "2024:budget:food") is not recognised. The posting line is a
// syntax error and the posting is dropped; in an account directive the name is refused as well.

func TestDefectC03_AccountNameStartingWithADigit(t *testing.T) {
	src := "2024-01-15 opening\n" +
		"    1000:cash            100 EUR\n" +
		"    401k:vanguard         50 EUR\n" +
		"    equity:opening      -150 EUR\n"
	journal, errs := Parse(src)
	for _, e := range errs {
		t.Errorf("valid journal, unexpected syntax error: %v", e)
	}
	if len(journal.Transactions) != 1 {
		t.Fatalf("want 1 transaction, got %d", len(journal.Transactions))
	}
	var names []string
	for _, p := range journal.Transactions[0].Postings {
		names = append(names, p.Account.Name)
	}
	want := []string{"1000:cash", "401k:vanguard", "equity:opening"}
	if len(names) != len(want) {
		t.Fatalf("postings: got %q, want %q", names, want)
	}
	for i := range want {
		if names[i] != want[i] {
			t.Errorf("posting %d: account %q, want %q", i, names[i], want[i])
		}
	}
}

func TestDefectC03_AccountDirectiveWithDigitFirst(t *testing.T) {
	_, errs := Parse("account 1000:cash\n")
	for _, e := range errs {
		t.Errorf("valid directive, unexpected syntax error: %v", e)
	}
}

// Control: digits anywhere else in the name are fine.
func TestDefectC03_DigitControl(t *testing.T) {
	_, errs := Parse("account a1:2b 3\n2024-01-15 x\n    a1:2b 3  1 EUR\n    assets:401k\n")
	if len(errs) > 0 {
		t.Errorf("unexpected: %v", errs)
	}
}
