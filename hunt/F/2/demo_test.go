// Copy this file to: internal/parser/defect_note_with_bar_test.go (package parser)
package parser

import "testing"

// In "PAYEE | NOTE" only the FIRST bar separates payee and note; the note is the rest of
// the line up to a comment ("Shop | bread | 2 loaves" has the note "bread | 2 loaves").
//
// Expected: no syntax errors, payee "Shop", note "bread | 2 loaves", two postings.
// What happens: three syntax errors ("unexpected token: Pipe", and "unexpected token:
// Indent" for every posting line) and the transaction is left with NO postings.
func TestDefectSecondBarInNoteLosesThePostings(t *testing.T) {
	src := "2024-01-15 Shop | bread | 2 loaves\n" +
		"    expenses:food  $5\n" +
		"    assets:cash\n"
	journal, errs := Parse(src)
	for _, e := range errs {
		t.Errorf("unexpected syntax error: %v", e)
	}
	if len(journal.Transactions) != 1 {
		t.Fatalf("want 1 transaction, got %d", len(journal.Transactions))
	}
	tx := journal.Transactions[0]
	if tx.Payee != "Shop" {
		t.Errorf("payee: want %q, got %q", "Shop", tx.Payee)
	}
	if tx.Note != "bread | 2 loaves" {
		t.Errorf("note: want %q, got %q", "bread | 2 loaves", tx.Note)
	}
	if len(tx.Postings) != 2 {
		t.Errorf("want 2 postings, got %d", len(tx.Postings))
	}
}

// The same hole with nothing before the bar: "| note" is a transaction with an empty
// payee. Expected: no errors and two postings; what happens: the same three errors.
func TestDefectBarWithoutPayeeLosesThePostings(t *testing.T) {
	src := "2024-01-15 | only a note\n" +
		"    expenses:food  $5\n" +
		"    assets:cash\n"
	journal, errs := Parse(src)
	for _, e := range errs {
		t.Errorf("unexpected syntax error: %v", e)
	}
	if len(journal.Transactions) != 1 || len(journal.Transactions[0].Postings) != 2 {
		t.Fatalf("want 1 transaction with 2 postings, got %+v", journal.Transactions)
	}
	if got := journal.Transactions[0].Note; got != "only a note" {
		t.Errorf("note: want %q, got %q", "only a note", got)
	}
}
