// Copy this file to: internal/server/defect_three_decimals_test.go (package server)
package server

import (
	"os"
	"path/filepath"
	"testing"

	"go.lsp.dev/protocol"
)

// Commodities with three decimal places (KWD, BHD, OMR, TND; fuel prices; many
// securities). The commodity directive even says which mark is the decimal mark.
//
//	1.234 - 1.000 - 0.234 = 0: the transaction balances.
//
// Expected: no UNBALANCED diagnostic.
// What happens: "1.234" and "1.000" are read as the integers 1234 and 1000 (one mark,
// three digits after it, something other than zero before it => "digit group mark"),
// while "0.234" of the same commodity in the same transaction is read as a decimal:
// "transaction does not balance: KWD off by 233.766".
func TestDefectThreeDecimalAmountsReadAsIntegers(t *testing.T) {
	cases := map[string]string{
		"decimal point": "commodity 1,000.000 KWD\n\n" +
			"2024-01-15 transfer\n    assets:a  1.234 KWD\n    assets:b  -1.000 KWD\n    assets:c  -0.234 KWD\n",
		"decimal comma": "commodity 1.000,000 TND\n\n" +
			"2024-01-15 transfer\n    assets:a  1,234 TND\n    assets:b  -1,000 TND\n    assets:c  -0,234 TND\n",
		"no directive": "2024-01-15 fuel\n    expenses:car  1.659 EUR\n    assets:a  -1.000 EUR\n    assets:b  -0.659 EUR\n",
	}
	for name, text := range cases {
		path := filepath.Join(t.TempDir(), "main.journal")
		if err := os.WriteFile(path, []byte(text), 0o644); err != nil {
			t.Fatal(err)
		}
		ts := newTestServer()
		diags, err := ts.openAndWait(protocol.DocumentURI("file://"+path), text)
		if err != nil {
			t.Fatal(err)
		}
		for _, d := range diags {
			if d.Code == "UNBALANCED" {
				t.Errorf("%s: balanced transaction reported: %s", name, d.Message)
			}
		}
	}
}

// A real imbalance of 0.001 KWD is reported, but the residual named in the message is
// a thousand times the true one ("off by 1").
func TestDefectThreeDecimalResidual(t *testing.T) {
	text := "2024-01-15 transfer\n    assets:a  1.234 KWD\n    assets:b  -1.233 KWD\n"
	path := filepath.Join(t.TempDir(), "main.journal")
	if err := os.WriteFile(path, []byte(text), 0o644); err != nil {
		t.Fatal(err)
	}
	ts := newTestServer()
	diags, err := ts.openAndWait(protocol.DocumentURI("file://"+path), text)
	if err != nil {
		t.Fatal(err)
	}
	want := "transaction does not balance: KWD off by 0.001"
	found := false
	for _, d := range diags {
		if d.Code == "UNBALANCED" {
			found = true
			if d.Message != want {
				t.Errorf("message: want %q, got %q", want, d.Message)
			}
		}
	}
	if !found {
		t.Errorf("no UNBALANCED diagnostic")
	}
}
