// Copy this file to: internal/parser/defect_code_with_colon_test.go (package parser)
package parser

import "testing"

// The code of a transaction is whatever stands in the parentheses after the date and
// the status: "(12:30)", "(INV:2024-007)", "(chk: 101)".
//
// Expected: Code "12:30", description "Shop".
// What happens: a code that contains a colon is taken for the opening of a virtual
// posting's account; the parser then gives up on the prefix: Code is empty and the
// description (and with it the payee) is "(12:30) Shop".
func TestDefectCodeWithColonBecomesDescription(t *testing.T) {
	cases := []struct{ header, code string }{
		{"2024-01-15 (12:30) Shop", "12:30"},
		{"2024-01-15 * (INV:2024-007) Shop", "INV:2024-007"},
		{"2024-01-15=2024-01-16 ! (chk: 101) Shop", "chk: 101"},
	}
	for _, c := range cases {
		src := c.header + "\n    expenses:food  $5\n    assets:cash\n"
		journal, errs := Parse(src)
		for _, e := range errs {
			t.Errorf("%q: unexpected syntax error: %v", c.header, e)
		}
		if len(journal.Transactions) != 1 {
			t.Fatalf("%q: want 1 transaction, got %d", c.header, len(journal.Transactions))
		}
		tx := journal.Transactions[0]
		if tx.Code != c.code {
			t.Errorf("%q: code: want %q, got %q", c.header, c.code, tx.Code)
		}
		if tx.Description != "Shop" {
			t.Errorf("%q: description: want %q, got %q", c.header, "Shop", tx.Description)
		}
	}
}
