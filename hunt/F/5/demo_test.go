// Copy this file to: internal/server/defect_unicode_blank_before_text_test.go (package server)
package server

import (
	"context"
	"os"
	"path/filepath"
	"sort"
	"strings"
	"testing"

	"go.lsp.dev/protocol"

	"github.com/juev/hledger-lsp/internal/lsputil"
)

// applyEdits applies the edits of one document the way an editor does (back to front).
func applyEdits(text string, edits []protocol.TextEdit) string {
	sort.Slice(edits, func(i, j int) bool {
		a, b := edits[i].Range.Start, edits[j].Range.Start
		return a.Line > b.Line || (a.Line == b.Line && a.Character > b.Character)
	})
	for _, e := range edits {
		text = lsputil.NewPositionMapper(text).ApplyChange(e.Range, e.NewText)
	}
	return text
}

// The description "Shop" is preceded by a no-break space (U+00A0; the same happens with
// the ideographic space U+3000 that CJK input methods produce). The parser drops the
// blank from the payee's NAME but leaves the payee's RANGE at the blank.
//
// Expected: renaming the payee Shop -> Market gives "2024-01-15  Market" on line 0
// and "2024-01-16 Market" on line 4.
// What happens: the edit on line 0 covers " Sho": the result is "2024-01-15 Marketp".
func TestDefectRenamePayeeAfterNoBreakSpaceCorruptsTheLine(t *testing.T) {
	for _, blank := range []string{" ", "　"} {
		text := "2024-01-15 " + blank + "Shop\n    expenses:food  $5\n    assets:cash\n\n" +
			"2024-01-16 Shop\n    expenses:food  $6\n    assets:cash\n"
		path := filepath.Join(t.TempDir(), "main.journal")
		if err := os.WriteFile(path, []byte(text), 0o644); err != nil {
			t.Fatal(err)
		}
		ts := newTestServer()
		uri := protocol.DocumentURI("file://" + path)
		if _, err := ts.openAndWait(uri, text); err != nil {
			t.Fatal(err)
		}
		// cursor inside "Shop" of the second transaction
		edit, err := ts.Rename(context.Background(), &protocol.RenameParams{
			TextDocumentPositionParams: protocol.TextDocumentPositionParams{
				TextDocument: protocol.TextDocumentIdentifier{URI: uri},
				Position:     protocol.Position{Line: 4, Character: 12},
			},
			NewName: "Market",
		})
		if err != nil || edit == nil {
			t.Fatalf("rename: %v %v", edit, err)
		}
		var edits []protocol.TextEdit
		for _, es := range edit.Changes {
			edits = append(edits, es...)
		}
		got := applyEdits(text, edits)
		want := strings.ReplaceAll(text, "Shop", "Market")
		if got != want {
			t.Errorf("blank %U: text after rename\n got: %q\nwant: %q", []rune(blank)[0], got, want)
		}
	}
}

// The same wrong start shows in the semantic tokens: the payee token must cover "Shop"
// (columns 12..16); it covers " Sho" (11..15). With blanks only (a description that
// consists of U+3000) a token of length 0 is emitted.
func TestDefectSemanticTokenAfterNoBreakSpaceIsShifted(t *testing.T) {
	tokens := tokenizeForSemantics("2024-01-15  Shop\n")
	found := false
	for _, tok := range tokens {
		if tok.tokenType == TokenTypePayee {
			found = true
			if tok.col != 12 || tok.length != 4 {
				t.Errorf("payee token: want col 12 length 4 (\"Shop\"), got col %d length %d", tok.col, tok.length)
			}
		}
	}
	if !found {
		t.Errorf("no payee token")
	}
	for _, tok := range tokenizeForSemantics("2024-01-15 　\n    a:b  1\n") {
		if tok.length == 0 {
			t.Errorf("empty token emitted: %+v", tok)
		}
	}
}
