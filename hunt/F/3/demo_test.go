// Copy this file to: internal/parser/defect_secondary_date_without_year_test.go (package parser)
package parser

import "testing"

// A secondary date may leave out the year; it is then the year of the primary date
// ("2024-01-15=01-20", "2024/1/15=1/20"). This is the usual way to write it.
//
// Expected: no syntax error, Date2 = 2024-01-20, description "Shop".
// What happens: error "expected date" at the secondary date, Date2 stays nil and the
// secondary date becomes the beginning of the description ("01-20 Shop").
func TestDefectSecondaryDateWithoutYear(t *testing.T) {
	for _, header := range []string{"2024-01-15=01-20 Shop", "2024/1/15=1/20 Shop", "2024.01.15=01.20 * (7) Shop"} {
		src := header + "\n    expenses:food  $5\n    assets:cash\n"
		journal, errs := Parse(src)
		for _, e := range errs {
			t.Errorf("%q: unexpected syntax error: %v", header, e)
		}
		if len(journal.Transactions) != 1 {
			t.Fatalf("%q: want 1 transaction, got %d", header, len(journal.Transactions))
		}
		tx := journal.Transactions[0]
		if tx.Date2 == nil {
			t.Errorf("%q: secondary date is missing", header)
		} else if tx.Date2.Year != 2024 || tx.Date2.Month != 1 || tx.Date2.Day != 20 {
			t.Errorf("%q: secondary date: want 2024-1-20, got %d-%d-%d", header, tx.Date2.Year, tx.Date2.Month, tx.Date2.Day)
		}
		if tx.Description != "Shop" {
			t.Errorf("%q: description: want %q, got %q", header, "Shop", tx.Description)
		}
	}
}

// The same with the year taken from a Y directive for both dates.
func TestDefectSecondaryDateWithoutYearUnderYearDirective(t *testing.T) {
	src := "Y 2024\n01-15=01-20 Shop\n    expenses:food  $5\n    assets:cash\n"
	journal, errs := Parse(src)
	for _, e := range errs {
		t.Errorf("unexpected syntax error: %v", e)
	}
	if len(journal.Transactions) != 1 || journal.Transactions[0].Date2 == nil {
		t.Fatalf("want one transaction with a secondary date, got %+v", journal.Transactions)
	}
	if d := journal.Transactions[0].Description; d != "Shop" {
		t.Errorf("description: want %q, got %q", "Shop", d)
	}
}
