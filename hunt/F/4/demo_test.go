// Copy this file to: internal/parser/defect_blank_line_with_spaces_test.go (package parser)
package parser

import "testing"

// Between entries a line may consist of blanks only (editors leave the indent behind when
// a line is emptied) and a comment line may be indented. Both are empty-or-comment lines
// of the journal, not the beginning of anything.
//
// Expected: no syntax errors, both transactions intact.
// What happens: "unexpected token: Indent" at column 1 of every such line, unless the line
// happens to follow a posting directly (then the transaction above swallows it).
func TestDefectLineOfBlanksBetweenEntriesIsASyntaxError(t *testing.T) {
	cases := map[string]string{
		"blanks after an empty line": "2024-01-15 x\n    a:b  1\n    a:c\n\n    \n2024-01-16 y\n    a:b  1\n    a:c\n",
		"blanks at the top":          "  \n2024-01-16 y\n    a:b  1\n    a:c\n",
		"blanks after a directive":   "Y 2024\n  \n2024-01-16 y\n    a:b  1\n    a:c\n",
		"tab only, CRLF":             "; head\r\n\t\r\n2024-01-16 y\r\n    a:b  1\r\n    a:c\r\n",
		"indented comment":           "2024-01-15 x\n    a:b  1\n    a:c\n\n    ; a remark about what follows\n2024-01-16 y\n    a:b  1\n    a:c\n",
		"indented comment at top":    "  ; -*- ledger -*-\n2024-01-16 y\n    a:b  1\n    a:c\n",
	}
	for name, src := range cases {
		journal, errs := Parse(src)
		for _, e := range errs {
			t.Errorf("%s: unexpected syntax error: %v", name, e)
		}
		for _, tx := range journal.Transactions {
			if len(tx.Postings) != 2 {
				t.Errorf("%s: transaction %q: want 2 postings, got %d", name, tx.Description, len(tx.Postings))
			}
		}
	}
}
