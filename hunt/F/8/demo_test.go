// Copy this file to: internal/parser/defect_tag_after_text_test.go (package parser)
package parser

import "testing"

// A tag is a word followed by a colon anywhere in a comment; text may precede it. This
// is the example of the hledger manual: "; a comment containing tag1:, tag2: some value".
//
// Expected: the transaction comment carries tag1 (no value) and tag2 ("some value"),
// the posting comment carries ref ("123").
// What happens: only tag2 is found. Each comma-separated piece of the comment is taken
// to be "NAME: VALUE" as a whole; when words precede the tag the "name" contains blanks
// and the piece is dropped.
func TestDefectTagAfterFreeTextIsNotRecognised(t *testing.T) {
	src := "2024-01-15 Shop  ; a comment containing tag1:, tag2: some value\n" +
		"    expenses:food  $5  ; paid by card ref:123\n" +
		"    assets:cash\n"
	journal, errs := Parse(src)
	if len(errs) > 0 || len(journal.Transactions) != 1 {
		t.Fatalf("parse: %v", errs)
	}
	tx := journal.Transactions[0]

	got := map[string]string{}
	for _, c := range tx.Comments {
		for _, tag := range c.Tags {
			got[tag.Name] = tag.Value
		}
	}
	if v, ok := got["tag1"]; !ok || v != "" {
		t.Errorf("transaction tags: want tag1 with empty value, got %v", got)
	}
	if v, ok := got["tag2"]; !ok || v != "some value" {
		t.Errorf("transaction tags: want tag2 = \"some value\", got %v", got)
	}

	ptags := tx.Postings[0].Tags
	if len(ptags) != 1 || ptags[0].Name != "ref" || ptags[0].Value != "123" {
		t.Fatalf("posting tags: want [ref=123], got %+v", ptags)
	}
	// the tag's range covers "ref:123" and nothing else (line 2, columns 39..46, 1-based)
	line := "    expenses:food  $5  ; paid by card ref:123"
	start, end := ptags[0].Range.Start.Column-1, ptags[0].Range.End.Column-1
	if start < 0 || end > len(line) || line[start:end] != "ref:123" {
		t.Errorf("posting tag range: want the text \"ref:123\", got columns %d..%d", start, end)
	}
}
