// Copy this file to: internal/server/defect_glob_directory_test.go (package server)
package server

import (
	"os"
	"path/filepath"
	"testing"

	"go.lsp.dev/protocol"

	"github.com/juev/hledger-lsp/internal/include"
)

// A glob include whose pattern also matches a DIRECTORY (here y2024/receipts next to
// y2024/jan.journal) must load the files it matches and report nothing: a directory is
// not a file reachable through the directive, and it is neither missing, oversized nor
// too deep.
//
// What happens: the directory is handed to the file reader, and the include line of the
// root document gets the error "cannot read included file: read .../receipts: is a directory".
func TestDefectGlobIncludeMatchingDirectoryIsReportedAsError(t *testing.T) {
	tmp := t.TempDir()
	if err := os.MkdirAll(filepath.Join(tmp, "y2024", "receipts"), 0o755); err != nil {
		t.Fatal(err)
	}
	jan := "2024-01-10 pay\n    income:salary  $-3\n    assets:bank  $3\n"
	if err := os.WriteFile(filepath.Join(tmp, "y2024", "jan.journal"), []byte(jan), 0o644); err != nil {
		t.Fatal(err)
	}
	main := "include y2024/*\n"
	mainPath := filepath.Join(tmp, "main.journal")
	if err := os.WriteFile(mainPath, []byte(main), 0o644); err != nil {
		t.Fatal(err)
	}

	// 1. the loader
	resolved, errs := include.NewLoader().Load(mainPath)
	if resolved == nil {
		t.Fatalf("no result")
	}
	if _, ok := resolved.Files[filepath.Join(tmp, "y2024", "jan.journal")]; !ok {
		t.Errorf("jan.journal was not loaded: %v", resolved.FileOrder)
	}
	for _, e := range errs {
		t.Errorf("expected no load error for a glob that matches one file and one directory, got: %s", e.Message)
	}

	// 2. what the user sees
	ts := newTestServer()
	diags, err := ts.openAndWait(protocol.DocumentURI("file://"+mainPath), main)
	if err != nil {
		t.Fatal(err)
	}
	for _, d := range diags {
		t.Errorf("expected no diagnostics on `include y2024/*`, got %v: %s", d.Range, d.Message)
	}
}
