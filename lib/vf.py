"""Shared machinery for the /verif checks.

Every check is:  TLC (contract theorems + generation of behaviours)  ->  Go harness built
from /repo's working tree with -tags verif (replay, projection)  ->  comparison of the
projection with what the specification expects  ->  classification against
known_findings.json  ->  evidence file + exit code.

Exit codes: 0 held on everything explored, 1 VIOLATION, 2 tooling failure (never a verdict).
"""
import atexit
import hashlib
import json
import os
import random
import re
import shutil
import signal
import subprocess
import sys
import tempfile
import threading
import time

VERIF = os.path.dirname(os.path.dirname(os.path.abspath(__file__)))
REPO = os.environ.get("VERIF_REPO", "/repo")
SPEC = os.path.join(VERIF, "spec")
HARNESS = os.path.join(VERIF, "harness")
GO = os.environ.get("VERIF_GO", "go1.26")
TLC_JAR = "/opt/veriftools/tla/tla2tools.jar:/opt/veriftools/tla/CommunityModules-deps.jar"


class ToolingError(Exception):
    pass


# Where a case's files live is no part of any contract: the server-level harnesses put every case into a directory whose
# name is plain, holds a blank, a non-ASCII word, brackets or braces (what ordinary folders are called).  The style is a
# function of the case's content (not of its position or id), so that a replay gets the same directory.
DIRSTYLE_COMMANDS = ("script", "workspace", "srvinclude", "pubdiag", "concur", "stress", "diag", "docsync", "semtok", "settings", "total")


def with_dirstyle(command, c):
    if command not in DIRSTYLE_COMMANDS or not isinstance(c, dict) or "dirstyle" in c:
        return c
    import zlib
    body = json.dumps({k: v for k, v in c.items() if k != "id"}, sort_keys=True, ensure_ascii=False)
    return dict(c, dirstyle=zlib.crc32(body.encode("utf-8")) % 6)


class ServerCrash(Exception):
    pass


CRASH_RE = re.compile(r"^(fatal error: [^\n]*|panic: [^\n]*)$", re.M)


def server_crash(stderr):
    """(kind, first frame of the server's code, excerpt) when the process was killed by an unrecovered panic or a fatal
    runtime error whose first non-runtime frame lies in the server's packages; None otherwise (the harness's own failure)."""
    m = None
    for m in CRASH_RE.finditer(stderr):
        break
    if not m:
        return None
    tail = stderr[m.start():]
    block = tail.split("\n\n", 2)
    stack = "\n\n".join(block[:2])
    frames = [l.strip() for l in stack.split("\n") if l and not l.startswith(("\t", " ")) and "(" in l and not l.startswith(("goroutine ", "fatal error", "panic:", "[signal"))]
    for fr in frames:
        if fr.startswith(("runtime.", "runtime/", "internal/runtime", "internal/", "sync.", "sync/", "panic(", "testing.")):
            continue
        if fr.startswith("github.com/juev/hledger-lsp/internal/"):
            name = fr.split("(0x")[0].replace("github.com/juev/hledger-lsp/internal/", "")
            name = re.sub(r"\(.*$", "", name) if name.count("(") > 1 else name
            return (m.group(1)[:200], name[:120], tail[:3000])
        return None
    return None


def replay_crash(prop, rp):
    """bin/check --replay of a server-crash divergence: run the same harness command on the same cases"""
    run = Run(prop, None, None)
    c = rp["case"]
    run._in_crash = True
    crashed = False
    for _ in range(4):
        try:
            run.harness(c["harness_command"], c["cases"], race=c.get("race", False), args=tuple(c.get("args") or ()), env_extra=c.get("env_extra") or None)
        except ServerCrash:
            crashed = True
            break
    run._in_crash = False
    if crashed:
        run.diverge(rp["sig"], rp.get("what", ""), c, None)
    run.rule = "replay of a recorded crash of the server's code"
    run.finish(confirm=lambda d: True)


def die_tooling(msg):
    sys.stdout.flush()
    print("TOOLING-FAILURE: " + msg, file=sys.stderr)
    sys.exit(2)


def go_env():
    env = dict(os.environ)
    env.update({"GOFLAGS": "-mod=mod", "GOPROXY": "off", "GOSUMDB": "off", "GOTOOLCHAIN": "local"})
    for k in ("LEDGER_FILE", "HLEDGER_JOURNAL"):
        env.pop(k, None)
    return env


class TLCResult:
    def __init__(self):
        self.json = []          # decoded PrintT(ToJson(..)) lines
        self.generated = 0
        self.distinct = 0
        self.left = 0
        self.stdout = ""
        self.ok = True
        self.wall = 0.0
        self.coverage_zero = []


class Run:
    """One check run: scratch dir, TLC, harness, verdict bookkeeping."""

    def __init__(self, prop, tier=None, seed=None, level="model_checking"):
        self.prop = prop
        self.tier = tier or os.environ.get("VERIF_TIER") or "quick"
        if self.tier not in ("quick", "thorough"):
            self.tier = "quick"
        try:
            self.seed = int(seed if seed is not None else os.environ.get("VERIF_SEED", "1"))
        except ValueError:
            self.seed = 1
        self.level = level
        self.t0 = time.time()
        base = os.environ.get("VERIF_SCRATCH") or os.environ.get("TMPDIR") or "/var/tmp"
        os.makedirs(base, exist_ok=True)
        self.scratch = tempfile.mkdtemp(prefix="verif.%s." % prop, dir=base)
        atexit.register(self.cleanup)
        signal.signal(signal.SIGTERM, lambda *_: sys.exit(2))
        self.rng = random.Random(self.seed)
        self.states = 0
        self.transitions = 0
        self.tlc_runs = []
        self.evaluations = 0
        self.nontrivial = set()
        self.samples = []
        self.traces_validated = 0
        self.divergences = []     # dicts: sig, what, case, obs
        self.assumptions = []
        self.extra = {}
        self.rule = ""
        self.exhaustive = False
        self._harness_bin = {}
        self._lock = threading.Lock()
        self._tlc_n = 0

    # ------------------------------------------------------------------ scratch
    def cleanup(self):
        if os.environ.get("VERIF_KEEP"):
            print("scratch kept: " + self.scratch, file=sys.stderr)
            return
        shutil.rmtree(self.scratch, ignore_errors=True)

    def mkdir(self, name):
        p = os.path.join(self.scratch, name)
        os.makedirs(p, exist_ok=True)
        return p

    # ------------------------------------------------------------------ TLC
    def tlc(self, module, cfg, mode="bfs", workers=1, simulate=None, depth=None, timeout=900,
            coverage=False, extra_args=(), allow_violation=False, jvm=(), collect_json=True, dfid=None,
            extra_modules=None, seed=None):
        """Run TLC on spec/<module>.tla with the cfg text/file. Returns TLCResult.

        mode bfs: exhaustive; must end with 0 states left on queue.
        mode simulate: -simulate num=<simulate> -depth <depth> -seed <seed>.
        """
        with self._lock:
            self._tlc_n += 1
            wd = self.mkdir("tlc%d" % self._tlc_n)
        seed = self.seed if seed is None else seed
        for fn in os.listdir(SPEC):
            if fn.endswith(".tla"):
                shutil.copy(os.path.join(SPEC, fn), wd)
        for name, text in (extra_modules or {}).items():
            with open(os.path.join(wd, name + ".tla"), "w") as f:
                f.write(text)
        if "\n" in cfg or cfg.strip().startswith(("CONSTANT", "SPECIFICATION", "INIT")):
            cfgpath = os.path.join(wd, module + ".run.cfg")
            with open(cfgpath, "w") as f:
                f.write(cfg)
        else:
            cfgpath = os.path.join(wd, os.path.basename(cfg))
            shutil.copy(os.path.join(SPEC, cfg), cfgpath)
        cmd = ["java", "-XX:+UseParallelGC", "-Xss512m", "-Dfile.encoding=UTF-8", "-Dstdout.encoding=UTF-8",
               "-Dsun.stdout.encoding=UTF-8"]
        cmd += list(jvm)
        cmd += ["-cp", TLC_JAR, "tlc2.TLC", "-workers", str(workers), "-metadir", os.path.join(wd, "md"),
                "-config", cfgpath]
        if mode == "simulate":
            cmd += ["-simulate", "num=%d" % simulate, "-depth", str(depth), "-seed", str(seed)]
        else:
            cmd += ["-seed", str(seed)]
            if dfid:
                cmd += ["-dfid", str(dfid)]
        if coverage:
            cmd += ["-coverage", "1"]
        cmd += list(extra_args)
        cmd += [os.path.join(wd, module + ".tla")]
        env = dict(os.environ)
        env.pop("JAVA_TOOL_OPTIONS", None)
        t0 = time.time()
        try:
            p = subprocess.run(cmd, cwd=wd, env=env, stdout=subprocess.PIPE, stderr=subprocess.STDOUT,
                               timeout=timeout)
        except subprocess.TimeoutExpired:
            die_tooling("TLC timed out after %ds on %s" % (timeout, module))
        out = p.stdout.decode("utf-8", "replace")
        res = TLCResult()
        res.stdout = out
        res.wall = time.time() - t0
        for line in out.splitlines():
            if collect_json and line.startswith('"') and line.endswith('"') and len(line) > 2:
                try:
                    inner = json.loads(line)
                    if inner[:1] in "{[":
                        res.json.append(json.loads(inner))
                        continue
                except Exception:
                    pass
            m = re.match(r"^(\d+) states generated, (\d+) distinct states found, (\d+) states left on queue", line)
            if m:
                res.generated, res.distinct, res.left = int(m.group(1)), int(m.group(2)), int(m.group(3))
            m = re.match(r"^The number of states generated: (\d+)", line)
            if m:
                res.generated = int(m.group(1))
                res.distinct = max(res.distinct, int(m.group(1)))
        if workers > 1 and res.json:
            res.json.sort(key=lambda x: json.dumps(x, sort_keys=True))   # worker interleaving must not influence seeded sampling
        bad = ("Error:" in out) or ("is violated" in out) or ("Exception" in out and "Finished" not in out)
        if mode == "bfs":
            if p.returncode != 0 or bad or "Model checking completed. No error has been found" not in out:
                res.ok = False
            elif res.left != 0:
                res.ok = False
        else:
            if bad or p.returncode not in (0,):
                res.ok = False
        if coverage:
            for line in out.splitlines():
                m = re.match(r"^<(\w+) line .*>: (\d+):(\d+)$", line.strip())
                if m and int(m.group(3)) == 0 and m.group(1) not in ("Init",):
                    res.coverage_zero.append(m.group(1))
        with self._lock:
            self.tlc_runs.append({"module": module, "mode": mode, "generated": res.generated,
                                  "distinct": res.distinct, "wall_s": round(res.wall, 2), "ok": res.ok})
            self.states += res.distinct
            self.transitions += res.generated
        if not res.ok and not allow_violation:
            tail = "\n".join(out.splitlines()[-40:])
            # keep JSON noise out of the diagnostic
            tail = "\n".join(l for l in tail.splitlines() if not l.startswith('"{'))
            die_tooling("TLC failed on %s (%s):\n%s" % (module, mode, tail))
        shutil.rmtree(os.path.join(wd, "md"), ignore_errors=True)
        return res

    def tlaps(self, module, timeout=900):
        """Check the proofs of spec/<module>.tla with tlapm in a scratch copy; returns the number of obligations proved.
        A proof that does not go through is a tooling failure of the specification layer, never a verdict about the code."""
        wd = self.mkdir("tlaps-" + module)
        for fn in os.listdir(SPEC):
            if fn.endswith(".tla"):
                shutil.copy(os.path.join(SPEC, fn), wd)
        try:
            p = subprocess.run(["tlapm", "--threads", "16", module + ".tla"], cwd=wd, stdout=subprocess.PIPE, stderr=subprocess.STDOUT, timeout=timeout)
        except subprocess.TimeoutExpired:
            die_tooling("tlapm timed out on %s" % module)
        out = p.stdout.decode("utf-8", "replace")
        m = re.search(r"All (\d+) obligations? proved", out)
        if p.returncode != 0 or not m:
            die_tooling("tlapm did not prove %s:\n%s" % (module, out[-2000:]))
        shutil.rmtree(wd, ignore_errors=True)
        return int(m.group(1))

    def apalache_inductive(self, module, cinit="CInit", init="Init", indinit="IndInit", inv="IndInv", timeout=600):
        """Apalache: Init => inv (length 0) and indinit /\\ Next => inv' (length 1) on spec/<module>.tla.
        A failure is a tooling failure of the specification layer, never a verdict about the code."""
        wd = self.mkdir("apalache-" + module)
        shutil.copy(os.path.join(SPEC, module + ".tla"), wd)
        for i, length in ((init, 0), (indinit, 1)):
            try:
                p = subprocess.run(["apalache-mc", "check", "--cinit=" + cinit, "--init=" + i, "--inv=" + inv, "--length=%d" % length, module + ".tla"],
                                   cwd=wd, stdout=subprocess.PIPE, stderr=subprocess.STDOUT, timeout=timeout)
            except subprocess.TimeoutExpired:
                die_tooling("apalache timed out on %s" % module)
            out = p.stdout.decode("utf-8", "replace")
            if p.returncode != 0 or "EXITCODE: OK" not in out:
                die_tooling("apalache did not establish %s from %s on %s:\n%s" % (inv, i, module, out[-2000:]))
        shutil.rmtree(wd, ignore_errors=True)
        self.tlc_runs.append({"module": module, "mode": "apalache-inductive", "generated": 0, "distinct": 0, "wall_s": 0, "ok": True})

    def tlc_simulate_many(self, module, cfg, total, depth, procs=8, timeout=2400, extra_modules=None):
        """total simulated behaviours from `procs` TLC processes run side by side, each single-worker with its own
        seed derived from the run's seed (TLC's simulation workers share one random sequence, so -workers does not help);
        returns the decoded JSON lines in a deterministic order."""
        from concurrent.futures import ThreadPoolExecutor
        procs = max(1, min(procs, total))
        per = (total + procs - 1) // procs
        def one(k):
            return self.tlc(module, cfg, mode="simulate", simulate=per, depth=depth, workers=1, timeout=timeout,
                            extra_modules=extra_modules, seed=self.seed * 1000 + k).json
        with ThreadPoolExecutor(max_workers=procs) as ex:
            parts = list(ex.map(one, range(procs)))
        out = []
        for p in parts:
            out += p
        return out

    # ------------------------------------------------------------------ harness
    def build_harness(self, race=False):
        key = "race" if race else "plain"
        if key in self._harness_bin:
            return self._harness_bin[key]
        bindir = self.mkdir("bin")
        out = os.path.join(bindir, "verifharness" + ("-race" if race else ""))
        overlay = {"Replace": {}}
        for root, _dirs, files in os.walk(HARNESS):
            for fn in files:
                if not fn.endswith(".go"):
                    continue
                src = os.path.join(root, fn)
                rel = os.path.relpath(src, HARNESS)
                parts = rel.split(os.sep)
                if parts[0] == "inject":
                    # inject/<pkg path>/<file>.go  ->  /repo/<pkg path>/zz_verif_<file>.go
                    dst = os.path.join(REPO, *parts[1:-1], "zz_verif_" + parts[-1])
                else:
                    dst = os.path.join(REPO, "cmd", "verifharness", *parts)
                overlay["Replace"][dst] = src
        ov = os.path.join(bindir, "overlay-%s.json" % key)
        with open(ov, "w") as f:
            json.dump(overlay, f)
        cmd = [GO, "build", "-tags", "verif", "-overlay", ov, "-o", out]
        if race:
            cmd.append("-race")
        cmd.append("./cmd/verifharness")
        p = subprocess.run(cmd, cwd=REPO, env=go_env(), stdout=subprocess.PIPE, stderr=subprocess.STDOUT, timeout=900)
        if p.returncode != 0:
            die_tooling("harness build failed:\n" + p.stdout.decode("utf-8", "replace")[-4000:])
        self._harness_bin[key] = out
        return out

    def build_server(self):
        if "server" in self._harness_bin:
            return self._harness_bin["server"]
        out = os.path.join(self.mkdir("bin"), "hledger-lsp")
        p = subprocess.run([GO, "build", "-o", out, "./cmd/hledger-lsp"], cwd=REPO, env=go_env(),
                           stdout=subprocess.PIPE, stderr=subprocess.STDOUT, timeout=900)
        if p.returncode != 0:
            die_tooling("server build failed:\n" + p.stdout.decode("utf-8", "replace")[-4000:])
        self._harness_bin["server"] = out
        return out

    def harness(self, command, cases, race=False, timeout=1800, args=(), env_extra=None, allow_fail=False):
        """Run `verifharness <command>` with cases as ndjson on a file; returns list of result dicts."""
        binp = self.build_harness(race=race)
        n = len(os.listdir(self.scratch))
        inp = os.path.join(self.scratch, "cases-%s-%d.ndjson" % (command, n))
        outp = os.path.join(self.scratch, "results-%s-%d.ndjson" % (command, n))
        with open(inp, "w") as f:
            for c in cases:
                f.write(json.dumps(with_dirstyle(command, c), ensure_ascii=False) + "\n")
        work = self.mkdir("work-%s-%d" % (command, n))
        env = go_env()
        env["HOME"] = self.mkdir("home")
        env["VERIF_SEED"] = str(self.seed)
        if env_extra:
            env.update(env_extra)
        cmd = [binp, command, "-in", inp, "-out", outp, "-work", work] + list(args)
        try:
            p = subprocess.run(cmd, env=env, stdout=subprocess.PIPE, stderr=subprocess.PIPE, timeout=timeout)
        except subprocess.TimeoutExpired:
            die_tooling("harness %s timed out after %ds" % (command, timeout))
        self.last_harness_stderr = p.stderr.decode("utf-8", "replace")
        self.last_harness_rc = p.returncode
        if p.returncode != 0 and not allow_fail:
            crash = server_crash(self.last_harness_stderr)
            if crash and not getattr(self, "_in_crash", False):
                # the process died INSIDE the server's code (unrecovered panic, fatal runtime error such as concurrent
                # map writes): that is the server crashing, not the harness failing
                self._crash_verdict(command, cases, race, args, env_extra, crash)
            if crash:
                raise ServerCrash(crash)
            die_tooling("harness %s exited %d:\n%s" % (command, p.returncode, self.last_harness_stderr[-4000:]))
        res = []
        if os.path.exists(outp):
            with open(outp) as f:
                for line in f:
                    line = line.strip()
                    if line:
                        res.append(json.loads(line))
        shutil.rmtree(work, ignore_errors=True)
        if not allow_fail and len(res) != len(cases):
            die_tooling("harness %s returned %d results for %d cases" % (command, len(res), len(cases)))
        return res

    def _crash_verdict(self, command, cases, race, args, env_extra, crash):
        """The harness process was killed by the server's code.  Reproduce (the same cases, up to 3 more runs: races need
        luck), then report through finish() like any other divergence."""
        kind, frame, excerpt = crash
        self._in_crash = True
        # under the race detector the cases are concurrent executions: whether a fatal "concurrent map writes" strikes again
        # is a matter of scheduling, and the stack in the server's code is evidence enough (like a race report)
        again = bool(race)
        for _ in range(0 if race else 3):
            try:
                self.harness(command, cases, race=race, args=args, env_extra=env_extra)
            except ServerCrash:
                again = True
                break
            except SystemExit:
                break
        case = {"harness_command": command, "race": race, "args": list(args), "env_extra": env_extra or {}, "cases": cases[:400]}
        self.divergences = [d for d in self.divergences]       # keep what was found before the crash
        self.diverge("server-crash:" + frame, "the server's code killed the process: %s in %s\n%s" % (kind, frame, excerpt[:1500]), case, None)
        if not self.rule:
            self.rule = "the run ended when the server's code killed the harness process"
        self.finish(confirm=lambda d: again if d["sig"].startswith("server-crash:") else False)

    # ------------------------------------------------------------------ bookkeeping
    def count(self, key=None, nontrivial=True):
        self.evaluations += 1
        if nontrivial and key is not None:
            self.nontrivial.add(key if isinstance(key, (str, int, tuple)) else digest(key))

    def sample(self, obj, limit=3):
        if len(self.samples) < limit:
            self.samples.append(obj)

    def diverge(self, sig, what, case, obs=None, trigger=None):
        """Record a divergence of the real code from the contract.

        sig: classifier output (string) — matched against known_findings.json.
        trigger: the single trigger tag the generator attached to the case (None = clean region).
        """
        self.divergences.append({"sig": sig, "what": what, "case": case, "obs": obs, "trigger": trigger})

    # ------------------------------------------------------------------ verdict
    def finish(self, confirm=None, coverage_extra=None):
        """Classify divergences, write evidence, print verdict lines, exit.

        confirm(div) -> bool : re-run the case on the real code; must reproduce (else exit 2).
        """
        known = load_known(self.prop)
        hits = {}
        violations = []
        for d in self.divergences:
            k = match_known(known, d)
            if k is not None:
                hits.setdefault(k["id"], []).append(d)
            else:
                violations.append(d)
        # confirmation: a violation must reproduce from its replay before it is reported
        confirmed = []
        unreproduced = []
        seen_sig = set()
        for d in violations:
            if d["sig"] in seen_sig:
                continue
            seen_sig.add(d["sig"])
            if confirm is not None:
                ok = False
                try:
                    ok = bool(confirm(d)) and bool(confirm(d))
                except SystemExit:
                    raise
                except Exception as e:  # noqa
                    die_tooling("confirmation of a divergence crashed: %r" % (e,))
                if not ok:
                    # an observation that does not reproduce is never reported as a violation; the run is a tooling
                    # failure only if NO divergence of this run reproduces (a defect that shows up only under some
                    # map iteration orders yields a mix of reproducible and unreproducible signatures)
                    unreproduced.append(d)
                    continue
            confirmed.append(d)
            if len(confirmed) >= 5:
                break
        if violations and not confirmed:
            d = unreproduced[0]
            die_tooling("divergence not reproducible (sig=%s): %s" % (d["sig"], d["what"]))
        self.extra["unreproduced_divergences"] = len(unreproduced)
        replay_paths = []
        for d in confirmed:
            replay_paths.append(self.write_replay(d))
        wall = time.time() - self.t0
        cov = {
            "states": int(self.states),
            "transitions": int(self.transitions),
            "traces_validated_against_impl": int(self.traces_validated),
            "evaluations": int(self.evaluations),
            "distinct_nontrivial": len(self.nontrivial),
            "rule": self.rule,
            "samples": self.samples[:5] if self.samples else [],
            "exhaustive": bool(self.exhaustive),
            "tlc_runs": self.tlc_runs,
            "known_findings_hit": {k: len(v) for k, v in hits.items()},
            "divergences_total": len(self.divergences),
        }
        if coverage_extra:
            cov.update(coverage_extra)
        cov.update(self.extra)
        ev = {
            "property_id": self.prop,
            "tier": self.tier,
            "seed": self.seed,
            "level": self.level,
            "coverage": cov,
            "assumptions": self.assumptions,
            "wall_s": round(wall, 2),
            "violations": len(violations),
        }
        # VERIF_OUT redirects evidence and replays (bin/seedtest runs mutants in scratch worktrees, in parallel,
        # without touching the committed evidence); the registered commands never set it
        out_base = os.environ.get("VERIF_OUT") or VERIF
        os.makedirs(os.path.join(out_base, "evidence"), exist_ok=True)
        with open(os.path.join(out_base, "evidence", self.prop + ".json"), "w") as f:
            json.dump(ev, f, indent=1, ensure_ascii=False)
            f.write("\n")
        for kid, ds in sorted(hits.items()):
            entry = [k for k in known if k["id"] == kid][0]
            print("KNOWN-FINDING: property=%s %s — %s (%d cases this run, e.g. %s)" % (
                self.prop, kid, entry.get("what", ""), len(ds), brief(ds[0]["what"])))
        print("%s tier=%s seed=%d evaluations=%d distinct_nontrivial=%d states=%d traces=%d divergences=%d wall=%.1fs" % (
            self.prop, self.tier, self.seed, self.evaluations, len(self.nontrivial), self.states,
            self.traces_validated, len(self.divergences), wall))
        if confirmed:
            for d, pth in zip(confirmed, replay_paths):
                print("  divergence sig=%s: %s" % (d["sig"], brief(d["what"], 400)))
                print("VIOLATION property=%s replay=%s" % (self.prop, pth))
            sys.stdout.flush()
            sys.exit(1)
        if self.evaluations == 0:
            die_tooling("no case was evaluated")
        print("OK property=%s" % self.prop)
        sys.stdout.flush()
        sys.exit(0)

    def write_replay(self, d):
        body = json.dumps({"property": self.prop, "sig": d["sig"], "what": d["what"], "trigger": d.get("trigger"),
                           "case": d["case"], "observed": d.get("obs")}, ensure_ascii=False, indent=1, sort_keys=True)
        h = hashlib.sha1(body.encode("utf-8")).hexdigest()[:16]
        ddir = os.path.join(os.environ.get("VERIF_OUT") or VERIF, "replays", self.prop)
        os.makedirs(ddir, exist_ok=True)
        pth = os.path.join(ddir, h + ".json")
        with open(pth, "w") as f:
            f.write(body + "\n")
        return pth


def brief(s, n=160):
    s = str(s).replace("\n", "\\n")
    return s if len(s) <= n else s[:n] + "…"


def digest(obj):
    return hashlib.sha1(json.dumps(obj, sort_keys=True, ensure_ascii=False).encode("utf-8")).hexdigest()[:16]


def load_known(prop):
    p = os.path.join(VERIF, "known_findings.json")
    if not os.path.exists(p):
        return []
    with open(p) as f:
        data = json.load(f)
    return [k for k in data.get("findings", []) if k.get("property") == prop and k.get("status") == "known"]


def match_known(known, d):
    """A divergence matches a known finding iff its classifier signature equals the finding's
    signature (or one of its signatures) AND, when the finding names a trigger, the case carries exactly that trigger.
    Clean-region cases (trigger None) can only match findings that declare no trigger requirement."""
    for k in known:
        sigs = k.get("sigs") or [k.get("sig")]
        if d["sig"] not in sigs:
            continue
        trig = k.get("trigger")
        if trig is not None and d.get("trigger") != trig:
            continue
        return k
    return None


def parse_args(argv):
    import argparse
    ap = argparse.ArgumentParser()
    ap.add_argument("--tier", default=None)
    ap.add_argument("--seed", default=None)
    ap.add_argument("--replay", default=None)
    return ap.parse_args(argv)
