"""Reference application and validation of LSP TextEdits, with the edit semantics of spec/DocSync.tla:
positions are (line, UTF-16 code unit); a line's content excludes its LF and a CR before it; a character past
the end of a line clamps to the end of the content; a line past the last line clamps to the end of the text.
All edits of one list refer to the ORIGINAL text."""


def _units(text):
    """text -> list of UTF-16 code units (ints)"""
    b = text.encode("utf-16-le", "surrogatepass")
    return [int.from_bytes(b[i:i + 2], "little") for i in range(0, len(b), 2)]


def _text(units):
    b = b"".join(u.to_bytes(2, "little") for u in units)
    return b.decode("utf-16-le", "surrogatepass")


def line_table(units):
    """[(start offset, content length)] per line; content excludes LF and a CR right before it"""
    out = []
    start = 0
    n = len(units)
    i = 0
    while i <= n:
        if i == n or units[i] == 0x0A:
            end = i
            if end > start and units[end - 1] == 0x0D and i < n:
                end -= 1
            out.append((start, end - start))
            start = i + 1
        i += 1
    return out


def offset(units, table, line, ch):
    if line >= len(table):
        return len(units)
    s, ln = table[line]
    return s + min(ch, ln)


def apply_edits(text, edits):
    """edits: [{'range': {'start': {'line','character'}, 'end': {...}}, 'newText': str}] -> new text"""
    units = _units(text)
    table = line_table(units)
    spans = []
    for k, e in enumerate(edits):
        r = e["range"]
        a = offset(units, table, r["start"]["line"], r["start"]["character"])
        b = offset(units, table, r["end"]["line"], r["end"]["character"])
        if a > b:
            a, b = b, a
        spans.append((a, b, k, _units(e.get("newText", ""))))
    spans.sort(key=lambda x: (x[0], x[1], x[2]))
    out = []
    pos = 0
    for a, b, _k, new in spans:
        if a < pos:
            a = pos          # overlapping edits are reported by validate_edits; the applier stays total
        out += units[pos:a]
        out += new
        pos = max(pos, b)
    out += units[pos:]
    return _text(out)


def validate_edits(text, edits):
    """returns a list of (sig, what) describing ill-formed edits: outside the document, start after end,
    inside a surrogate pair, overlapping"""
    units = _units(text)
    table = line_table(units)
    bad = []
    spans = []
    for k, e in enumerate(edits):
        r = e["range"]
        pts = []
        for nm in ("start", "end"):
            ln, ch = r[nm]["line"], r[nm]["character"]
            if ln >= len(table):
                bad.append(("edit-outside-document", "edit %d: %s line %d, the document has %d lines" % (k, nm, ln, len(table))))
                pts.append(len(units))
                continue
            s, n = table[ln]
            if ch > n:
                bad.append(("edit-outside-document", "edit %d: %s character %d on line %d of length %d" % (k, nm, ch, ln, n)))
            off = s + min(ch, n)
            if 0 < off < len(units) and 0xDC00 <= units[off] <= 0xDFFF and 0xD800 <= units[off - 1] <= 0xDBFF:
                bad.append(("edit-splits-surrogate-pair", "edit %d: %s %d:%d lies inside a surrogate pair" % (k, nm, ln, ch)))
            pts.append(off)
        s_, e_ = r["start"], r["end"]
        if (s_["line"], s_["character"]) > (e_["line"], e_["character"]):
            bad.append(("edit-start-after-end", "edit %d: start %d:%d after end %d:%d" % (k, s_["line"], s_["character"], e_["line"], e_["character"])))
        spans.append((min(pts), max(pts), k))
    spans.sort()
    for (a1, b1, k1), (a2, b2, k2) in zip(spans, spans[1:]):
        if a2 < b1:
            bad.append(("edits-overlap", "edits %d and %d overlap (offsets %d..%d and %d..%d)" % (k1, k2, a1, b1, a2, b2)))
    seen = set()
    return [(s, w) for s, w in bad if not (s in seen or seen.add(s))]


def selftest():
    t = "ab\r\ncd😀e\nlast"
    def ed(sl, sc, el, ec, new):
        return {"range": {"start": {"line": sl, "character": sc}, "end": {"line": el, "character": ec}}, "newText": new}
    assert apply_edits(t, [ed(0, 0, 0, 2, "X")]) == "X\r\ncd😀e\nlast"
    assert apply_edits(t, [ed(0, 9, 0, 9, "X")]) == "abX\r\ncd😀e\nlast"          # past the end clamps before CR LF
    assert apply_edits(t, [ed(1, 2, 1, 4, "")]) == "ab\r\ncde\nlast"               # the astral character is two units
    assert apply_edits(t, [ed(2, 0, 2, 4, "Z"), ed(0, 0, 0, 1, "")]) == "b\r\ncd😀e\nZ"
    assert apply_edits(t, [ed(9, 0, 9, 0, "!")]) == t + "!"
    assert apply_edits("", [ed(0, 0, 0, 0, "q")]) == "q"
    assert [s for s, _ in validate_edits(t, [ed(1, 3, 1, 4, "")])] == ["edit-splits-surrogate-pair"]
    assert [s for s, _ in validate_edits(t, [ed(0, 0, 0, 2, ""), ed(0, 1, 0, 2, "")])] == ["edits-overlap"]
    assert [s for s, _ in validate_edits(t, [ed(0, 0, 0, 3, "")])] == ["edit-outside-document"]
    assert [s for s, _ in validate_edits(t, [ed(3, 0, 3, 0, "")])] == ["edit-outside-document"]
    assert validate_edits(t, [ed(0, 0, 0, 2, "x"), ed(0, 2, 0, 2, "y"), ed(2, 0, 2, 4, "")]) == []
    return True


if __name__ == "__main__":
    selftest()
    print("lspedit selftest ok")
